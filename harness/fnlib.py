"""Python mirror of coq/theories/Fn.v (user-function codes), value / exception canonicalisation
and the Gallina printers.  Each code is a tuple; `py_f(code)` builds the Python callable handed to
lazy_dataset, `coq_f(code)` prints the Gallina term handed to the model."""
import numbers


class Tag:
    """Identity tag carried by exceptions that user functions raise (so they can be told apart from
    exceptions the library raises, whose args are messages / indices)."""
    def __init__(self, t): self.t = t
    def __repr__(self): return f'Tag({self.t})'
    def __eq__(self, o): return isinstance(o, Tag) and o.t == self.t
    def __hash__(self): return hash(('Tag', self.t))


class U0(Exception): pass
class U1(U0): pass
class U2(Exception): pass
class UB0(BaseException): pass


def _classes():
    import lazy_dataset.core as c
    return {
        'EFilter': c.FilterException, 'EValue': ValueError, 'ELookup': LookupError, 'EIndex': IndexError,
        'EKey': KeyError, 'EType': TypeError, 'EAssert': AssertionError, 'ENotImpl': NotImplementedError,
        'ERuntime': RuntimeError, 'EItemsND': c.ItemsNotDefined, 'EItemsNDBase': c._ItemsNotDefined,
        'EStopIter': StopIteration, 'EZeroDiv': ZeroDivisionError, 'EAttr': AttributeError,
        '(EUser 0)': U0, '(EUser 1)': U1, '(EUser 2)': U2, '(EUserBase 0)': UB0,
        'EException': Exception, 'EBase': BaseException,
    }


_CLS = None


def cls_of(name):
    global _CLS
    if _CLS is None:
        _CLS = _classes()
    return _CLS[name]


def canon_exn(e):
    """exception instance -> (Gallina class name, tag)"""
    global _CLS
    if _CLS is None:
        _CLS = _classes()
    inv = {v: k for k, v in _CLS.items()}
    name = 'EBase'
    for c in type(e).__mro__:
        if c in inv:
            name = inv[c]
            break
    tag = 0
    if e.args and isinstance(e.args[0], Tag):
        tag = e.args[0].t
    return (name, tag)


# ------------------------------------------------------------------ values
def first_int(v):
    if isinstance(v, bool):
        raise TypeError('bool in value')
    if isinstance(v, numbers.Integral):
        return int(v)
    if isinstance(v, str) or v is None:
        return None
    if isinstance(v, dict):
        v = list(v.values())
    if isinstance(v, (list, tuple)):
        for x in v:
            r = first_int(x)
            if r is not None:
                return r
        return None
    raise TypeError(type(v))


def fint(v):
    r = first_int(v)
    return 0 if r is None else r


def deep(op, v):
    if isinstance(v, bool):
        raise TypeError('bool in value')
    if isinstance(v, numbers.Integral):
        return op(int(v))
    if isinstance(v, str) or v is None:
        return v
    if isinstance(v, list):
        return [deep(op, x) for x in v]
    if isinstance(v, tuple):
        return tuple(deep(op, x) for x in v)
    if isinstance(v, dict):
        return {k: deep(op, x) for k, x in v.items()}
    raise TypeError(type(v))


def py_p(p):
    k = p[0]
    if k == 'PTrue': return lambda v: True
    if k == 'PFalse': return lambda v: False
    if k == 'PModEq': return lambda v, m=p[1], r=p[2]: fint(v) % m == r
    if k == 'PLt': return lambda v, c=p[1]: fint(v) < c
    if k == 'PEq': return lambda v, c=p[1]: fint(v) == c
    if k == 'PIn': return lambda v, l=p[1]: fint(v) in l
    raise ValueError(p)


def z(n):
    return f'({n})' if n < 0 else str(n)


def coq_p(p):
    k = p[0]
    if k in ('PTrue', 'PFalse'): return k
    if k == 'PModEq': return f'(PModEq {z(p[1])} {z(p[2])})'
    if k == 'PIn': return f'(PIn {coq_list([z(i) for i in p[1]])})'
    return f'({k} {z(p[1])})'


class PyF:
    """picklable callable for a function code (needed by the process backends)"""
    def __init__(self, code): self.code = code
    def __call__(self, v): return apply_f(self.code, v)
    def __repr__(self): return f'PyF{self.code}'


class PyQ:
    """predicate; `style` picks how the truth value is spelled (the library must use truthiness, like Python's filter):
    0 = bool, 1 = 'yes' / None, 2 = [0] / '', 3 = 1 / 0, 4 = ('x',) / () , 5 = {'k': 0} / {}"""
    STYLES = [(True, False), ('yes', None), ([0], ''), (1, 0), (('x',), ()), ({'k': 0}, {})]

    def __init__(self, code, style=0): self.code, self.style = code, style
    def __call__(self, v):
        t = apply_q(self.code, v)
        return self.STYLES[self.style][0 if t else 1] if self.style else t
    def __repr__(self): return f'PyQ{self.code}'


def apply_f(f, v):
    k = f[0]
    if k == 'FId': return v
    if k == 'FAdd': return deep(lambda x: x + f[1], v)
    if k == 'FMul': return deep(lambda x: x * f[1], v)
    if k == 'FWrapList': return [v, v]
    if k == 'FWrapTup': return (v,)
    if k == 'FFirst':
        if isinstance(v, (list, tuple)):
            if len(v) == 0:
                raise IndexError()
            return v[0]
        raise TypeError()
    if k == 'FKeyInt': return fint(v)
    if k == 'FKeyNeg': return -fint(v)
    if k == 'FKeyMod': return fint(v) % f[1]
    if k == 'FRaiseIf':
        _, p, cls, tag, g = f
        if py_p(p)(v):
            raise cls_of(cls)(Tag(tag))
        return apply_f(g, v)
    raise ValueError(f)


def apply_q(q, v):
    if q[0] == 'QP':
        return py_p(q[1])(v)
    _, p, cls, tag, q2 = q
    if py_p(p)(v):
        raise cls_of(cls)(Tag(tag))
    return py_p(q2)(v)


def coq_fcode(f):
    k = f[0]
    if k in ('FId', 'FWrapList', 'FWrapTup', 'FFirst', 'FKeyInt', 'FKeyNeg'): return k
    if k in ('FAdd', 'FMul', 'FKeyMod'): return f'({k} {z(f[1])})'
    if k == 'FRaiseIf':
        return f'(FRaiseIf {coq_p(f[1])} {f[2]} {z(f[3])} {coq_fcode(f[4])})'
    raise ValueError(f)


def coq_f(f): return f'(interp_f {coq_fcode(f)})'


def coq_q(q):
    if q[0] == 'QP':
        return f'(interp_q (QP {coq_p(q[1])}))'
    return f'(interp_q (QRaiseIf {coq_p(q[1])} {q[2]} {z(q[3])} {coq_p(q[4])}))'


# ------------------------------------------------------------------ Gallina printers
def coq_str(s):
    assert all(32 <= ord(c) < 127 and c != '"' for c in s), s
    return '"' + s + '"'


def coq_list(xs):
    return '[' + '; '.join(xs) + ']'


def coq_val(v):
    import numpy as np
    if isinstance(v, bool):
        raise TypeError('bool value')
    if isinstance(v, (int, np.integer)):
        return f'(VInt {z(int(v))})'
    if isinstance(v, str):
        return f'(VStr {coq_str(v)})'
    if v is None:
        return 'VNone'
    if isinstance(v, list):
        return f'(VList {coq_list([coq_val(x) for x in v])})'
    if isinstance(v, tuple):
        return f'(VTup {coq_list([coq_val(x) for x in v])})'
    if isinstance(v, dict):
        return f'(VDict {coq_list([coq_str(k) for k in v])} {coq_list([coq_val(x) for x in v.values()])})'
    raise TypeError(f'value outside the modelled universe: {type(v)}')


def coq_exn(ce):
    return f'(mkexn {ce[0]} {z(ce[1])})'


def coq_res(r, pr):
    """r = ('ok', x) | ('err', canon_exn)"""
    return f'(Ok {pr(r[1])})' if r[0] == 'ok' else f'(Err {coq_exn(r[1])})'


def coq_trace(t):
    vals, end = t
    e = 'End' if end is None else f'(Raised {coq_exn(end)})'
    return f'({coq_list([coq_val(v) for v in vals])}, {e})'


def coq_opt(x, pr):
    return 'None' if x is None else f'(Some {pr(x)})'
