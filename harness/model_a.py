"""Tie for Model A (Pipeline.v / Build.v), shared by C01 C02 C03 (and reused by C14/C16/C18).
Generates programs, runs them on the implementation, evaluates the model inside Coq, and reports
every disagreement on the property's projection as a failing input."""
import os, json, random, collections, glob
from . import common, gen_a


def corpus_nodes(prop):
    out = []
    for f in sorted(glob.glob(os.path.join(common.VERIF, 'corpus', 'A-*.json'))):
        j = json.load(open(f))
        if 'program' in j and (prop in j.get('props', [prop])):
            out.append((os.path.basename(f), gen_a.Node.from_json(j['program'])))
    return out


def run_a(prop, tier, want, n_quick=1500, n_thorough=30000, gen_kwargs=None, direct=None, depth_choices=(1, 2, 3, 4, 5, 6, 7),
          extra_nodes=()):
    ld = common.import_impl()
    r = common.rng_for(prop)
    g = gen_a.Gen(r, ld, **(gen_kwargs or {}))
    n = n_quick if tier == 'quick' else n_thorough
    cases, origin = [], []
    # corpus of minimised past disagreements runs first
    for name, node in list(corpus_nodes(prop)) + [(f'extra{i}', nd) for i, nd in enumerate(extra_nodes)]:
        try:
            obj = gen_a.build_impl(node, ld)
        except Exception:
            obj = None
        cases.append(gen_a.make_case(node, obj, r, want)); origin.append(name)
    n_corpus = len(cases)
    # the previous pipelines stay alive while later ones are built and observed (pipelines are independent objects:
    # no state may leak between them); every 4th step one of them is observed again and must answer as before
    alive = collections.deque(maxlen=4)
    interference = []
    for step in range(n):
        node, obj = g.grow(r.choice(depth_choices))
        c = gen_a.make_case(node, obj, r, want)
        cases.append(c); origin.append('random')
        if obj is not None and 'cycle' not in set(node.ops()):
            first = next((e for e in c.entries if e[0][0] in ('iter', 'keys')), None)
            if first is not None:
                alive.append((c, obj, first))
        if step % 4 == 3 and alive:
            c0, obj0, e0 = alive[0]
            try:
                with common.watchdog(30, lambda: 're-observing ' + gen_a.coq_prog(c0.prog)):
                    again = gen_a.run_query(obj0, e0[0])[2]
            except Exception as ex:
                again = ('crash', type(ex).__name__)
            if repr(again) != repr(e0[3]):
                interference.append(dict(kind='program', program=c0.prog.to_json(), coq_prog=gen_a.coq_prog(c0.prog), want=sorted(want),
                                         summary=f'{gen_a.coq_prog(c0.prog)[:200]} :: {e0[0]} answered {e0[3]!r} at first and {again!r} after other pipelines had been built and used'[:700]))
    mm = gen_a.emit_and_run(cases, f'{prop}_{tier}')
    failures = list(interference)
    for ci, qs in mm:
        c = cases[ci]
        for qi, model_says in list(qs.items())[:3]:
            if c.refused is not None or qi >= len(c.entries):
                q, got = 'construction', 'refused: ' + str(c.refused)
            else:
                q, got = c.entries[qi][0], c.entries[qi][3]
            failures.append(dict(kind='program', origin=origin[ci], program=c.prog.to_json(),
                                 coq_prog=gen_a.coq_prog(c.prog), query=list(q) if not isinstance(q, str) else q,
                                 want=sorted(want),
                                 got_from_impl=repr(got), model_says=model_says,
                                 summary=f'{gen_a.coq_prog(c.prog)[:200]} :: {q} impl={repr(got)[:120]} model={model_says[:120]}'))
            break
    # direct evaluation of the property predicate on the implementation's own observations
    if direct is not None:
        for ci, c in enumerate(cases):
            for f in direct(c):
                f.setdefault('kind', 'program')
                f['program'] = c.prog.to_json()
                f['coq_prog'] = gen_a.coq_prog(c.prog)
                f['want'] = sorted(want)
                failures.append(f)
    # coverage
    keys = set()
    nontriv = set()
    ops = collections.Counter()
    depths = collections.Counter()
    srclens = collections.Counter()
    endings = collections.Counter()
    nq = 0
    for c in cases:
        k = c.prog.key()
        keys.add(k)
        if gen_a.nontrivial(c.prog):
            nontriv.add(k)
        ops.update(c.prog.ops())
        depths[c.prog.depth()] += 1
        for nd in _walk(c.prog):
            if nd.op in ('list', 'dict'):
                srclens[len(nd.a[0])] += 1
        nq += len(c.entries)
        if c.refused is not None:
            endings['refused'] += 1
        for e in c.entries:
            if e[2] == 'trace':
                endings['iter_raised:' + e[3][1][0] if e[3][1] else 'iter_end'] += 1
            elif e[2] in ('val', 'nat', 'keys'):
                endings[e[2] + ('_ok' if e[3][0] == 'ok' else '_err:' + e[3][1][0])] += 1
    cov = dict(programs=len(cases), evaluations=len(cases), distinct_nontrivial=len(nontriv), distinct=len(keys),
               rule='programs grown bottom-up against the live implementation (random stage per step, depth '
                    f'{min(depth_choices)}..{max(depth_choices)}, sources of length 0..6, ~12% malformed steps); non-trivial = '
                    'distinct program (by structure and parameters) with >= 1 non-source stage and a source of length >= 2',
               corpus_cases=n_corpus,
               traces_validated_against_impl=nq, disagreements_checked=len(mm),
               stage_histogram=dict(ops.most_common()), depth_histogram=dict(sorted(depths.items())),
               source_length_histogram=dict(sorted(srclens.items())), observation_outcomes=dict(endings.most_common()),
               samples=[gen_a.coq_prog(c.prog)[:400] for c in cases[n_corpus:n_corpus + 4]],
               exhaustive=False)
    return dict(coverage=cov, failures=failures, cases=cases,
                assumptions=['numpy indexing / array_split / pickle / deepcopy behave as modelled in PySlice.v and Base.v',
                             'thread backend observed under the OS schedule here (all schedules: C04)'])


def _walk(n):
    yield n
    for k in n.kids:
        yield from _walk(k)


def replay_a(payload):
    """re-run one recorded program against VERIF_REPO; True iff it still disagrees with the model"""
    ld = common.import_impl()
    node = gen_a.Node.from_json(payload['program'])
    r = random.Random(0)
    want = set(payload.get('want', ['iter', 'index', 'keys']))
    try:
        obj = gen_a.build_impl(node, ld)
    except Exception:
        obj = None
    c = gen_a.make_case(node, obj, r, want)
    mm = gen_a.emit_and_run([c], 'replay')
    for ci, qs in mm:
        for qi, m in qs.items():
            e = c.entries[qi] if qi < len(c.entries) else None
            print('  query', e[0] if e else 'construction', '\n    impl :', e[3] if e else c.refused, '\n    model:', m[:300])
    return bool(mm)
