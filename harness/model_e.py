"""Tie + direct property evaluation for Model E (PrefetchST.v / Pool.v): the REAL
single_thread_prefetch / lazy_parallel_map are run under the controlled scheduler (sched.py); the
event log of every run is replayed on the Coq model (ETrace.v) step by step."""
import sys, gc, os, re, random, collections, itertools, threading
from . import common, sched as S
from .fnlib import Tag, coq_list


class SrcFail(Exception):
    pass


class SrcFailBase(BaseException):
    pass


class FnFail(Exception):
    pass


class FnFailBase(BaseException):
    pass


# classes a mapped function may raise in the scheduled runs ("raises anything"): 'Empty' is resolved in the namespace
# of parallel_utils at raise time (queue.Empty there - the shim's class under the controlled scheduler)
EXC_KINDS = ['FnFail', 'FnFail', 'Empty', 'KeyError', 'FnFailBase', 'CancelledError', 'TimeoutError']


def exc_class(pu, kind):
    import concurrent.futures
    if kind == 'Empty':
        return pu.queue.Empty
    return {'FnFail': FnFail, 'KeyError': KeyError, 'FnFailBase': FnFailBase, 'CancelledError': concurrent.futures.CancelledError,
            'TimeoutError': concurrent.futures.TimeoutError}[kind]


def exc_names(kind):
    return {'Empty': ('Empty', 'ShimEmpty'), 'Full': ('Full', 'ShimFull')}.get(kind, (kind,))


# legal example values that are falsy / None: the model sees the number, the implementation the object
PAY = {2: None, 3: 0, 4: '', 5: False, 6: ()}
PAY2 = {21: None, 31: 0, 41: '', 51: False}


def pay(v, table=PAY):
    return table.get(v, v)


def unpay(x, table=PAY):
    for k, o in table.items():
        if type(x) is type(o) and x == o:
            return k
    return x


SRC_EXC = ['SrcFail', 'SrcFail', 'Empty', 'Full', 'KeyError', 'RuntimeError', 'StopAsyncIteration']
SRC_BASE = ['SrcFailBase', 'SrcFailBase', 'GeneratorExit']


def src_exc_class(pu, kind):
    if kind == 'Empty':
        return pu.queue.Empty
    if kind == 'Full':
        return pu.queue.Full
    return {'SrcFail': SrcFail, 'SrcFailBase': SrcFailBase, 'KeyError': KeyError, 'RuntimeError': RuntimeError,
            'StopAsyncIteration': StopAsyncIteration, 'GeneratorExit': GeneratorExit}[kind]


def fail_kind(e):
    """spec entry ('fail', is_exception, tag[, class name])"""
    return e[3] if len(e) > 3 else ('SrcFail' if e[1] else 'SrcFailBase')


class Src:
    """source iterable: ('ok', v) | ('fail', is_exception, tag); advancing it is a yield point"""
    def __init__(self, s, spec, pu=None):
        self.iterfail = bool(spec) and spec[0][0] == 'iterfail'
        spec = [('fail',) + tuple(e[1:]) if e[0] == 'iterfail' else e for e in spec]
        self.s, self.spec, self.i, self.dead, self.pu = s, spec, 0, False, pu
        self.pulls_after_end = 0
        self.ended = False         # set by the driver when control is back with the consumer for good

    def __iter__(self):
        if self.iterfail and not self.dead:
            # a source that cannot even be started: iter() itself raises (for the model: a source whose first pull fails)
            e = self.spec[0]
            self.s.yield_point('pull')
            if self.ended:
                self.pulls_after_end += 1
            self.dead = True
            self.i = 1
            self.s.emit('pull', ('fail', e[2]))
            raise src_exc_class(self.pu, fail_kind(e))(Tag(e[2]))
        return self

    def __next__(self):
        self.s.yield_point('pull')
        if self.ended:
            self.pulls_after_end += 1
        if self.dead or self.i >= len(self.spec):
            self.dead = True
            self.s.emit('pull', ('end',))
            raise StopIteration
        e = self.spec[self.i]
        self.i += 1
        if e[0] == 'ok':
            self.s.emit('pull', ('ok', e[1]))
            return pay(e[1])
        self.dead = True
        self.s.emit('pull', ('fail', e[2]))
        raise src_exc_class(self.pu, fail_kind(e))(Tag(e[2]))


def is_sentinel(x):
    return type(x) is object


# ------------------------------------------------------------------ single_thread_prefetch
def run_st(pu, spec, B, script, schedule, rng, wall=20.0, fallback='random'):
    """script: ('exhaust',) | ('close', k) | ('drop', k).  Returns a dict describing the run."""
    s = S.Sched(schedule, rng, wall, fallback)
    undo = S.install(pu, s)
    src = Src(s, spec, pu)
    iterfail = src.iterfail
    spec = src.spec
    delivered, outcome = [], None
    K = None if script[0] == 'exhaust' else script[1]
    old_trace = sys.gettrace()
    sys.settrace(s.tracer)
    harness_error = None
    try:
        it = pu.single_thread_prefetch(src, B)
        try:
            while True:
                if K is not None and len(delivered) >= K:
                    if K > 0 or True:
                        s.emit('close') if delivered else None
                    if script[0] == 'close':
                        it.close()
                    else:
                        del it
                        gc.collect()
                    outcome = ('closed',)
                    break
                try:
                    x = next(it)
                except StopIteration:
                    outcome = ('end',)
                    break
                # the item has left the queue but is not yet with the consumer: other threads may run in this window (the model has
                # it too: C1 -> C2 -> C3), so "pulled - delivered" is measured at its widest
                s.yield_point('C2')
                x = unpay(x)
                delivered.append(x)
                s.emit('deliver', x)
                s.yield_point('C3')
                if not (K is not None and len(delivered) >= K):
                    s.emit('next')
        except S.Deadlock:
            outcome = ('deadlock',)
        except S.SchedTimeout as e:
            outcome = ('deadlock', str(e))
        except BaseException as e:  # noqa
            if isinstance(e, (KeyboardInterrupt, SystemExit)):
                raise
            tag = e.args[0].t if e.args and isinstance(e.args[0], Tag) else None
            outcome = ('raised', type(e).__name__, tag)
    finally:
        sys.settrace(old_trace)
        src.ended = True
        worker_done_at_return = ('W' in s.done) or not s.started
        undo()
    s.log.append(('C', 'returned', None))
    # let a (wrongly) still-running worker go on for a moment so that late user code shows up
    if not worker_done_at_return and not s.deadlock:
        with s.cv:
            s.current = None
            s._pick()
        for t in s.os_threads:
            t.join(2.0)
    with s.cv:
        s.deadlock = True if any(t.is_alive() for t in s.os_threads) else s.deadlock
        s.cv.notify_all()
    for t in s.os_threads:
        t.join(2.0)
    common.tick()
    return dict(kind='st', spec=spec, iterfail=iterfail, B=B, script=script, schedule=list(schedule), choices=s.choices, enabled_log=s.enabled_log, log=s.log,
                delivered=delivered, outcome=outcome, worker_done_at_return=worker_done_at_return,
                pulls_after_end=src.pulls_after_end, threads_alive=sum(t.is_alive() for t in s.os_threads), K=K)


def st_model_trace(run):
    """event log -> [(tid, obs|None)] for ETrace.ST.replay, plus the expected summary"""
    tr = []
    q = pulled = dl = 0
    seen_rd_exc = False
    for (th, ev, pl) in run['log']:
        if ev in ('exit', 'returned', 'died'):
            continue
        if ev == 'rd_exc_info':
            # `if exc_info is not None: raise exc_info[1].with_traceback(exc_info[2])` reads the cell three
            # times after the join (no other thread exists any more): one model step (C7)
            if seen_rd_exc:
                continue
            seen_rd_exc = True
        tid = 'TC' if th == 'C' else 'TW'
        if ev == 'put':
            q += 1
        elif ev in ('get', 'drain'):
            q -= 1
        elif ev == 'pull' and pl[0] == 'ok':
            pulled += 1
        elif ev == 'deliver':
            dl += 1
        tr.append((tid, (q, pulled, dl)))
        if ev == 'get' and is_sentinel(pl):
            tr.append(('TC', None))          # C2 Sentinel -> C4 (local)
    return tr


def coq_st_case(run, cb=True):
    spec = coq_list([f'PrefetchST.SOk {e[1]}' if e[0] == 'ok' else f'PrefetchST.SFail {"true" if e[1] else "false"} {e[2]}' for e in run['spec']])
    tr = coq_list([f'(PrefetchST.{t}, {"None" if o is None else "Some (%d, %d, %d)" % o})' for t, o in st_model_trace(run)])
    K = 'None' if run['K'] is None else f'(Some {run["K"]})'
    return f'(ST.run_case {run["B"]} {K} {"true" if cb else "false"} {spec} {tr})'


def st_expected_summary(run):
    """what the model's final summary must be, from the real run"""
    out = run['outcome']
    closing = out == ('closed',) and run['K'] is not None and run['K'] > 0
    exc = out[2] if out and out[0] == 'raised' else None
    return dict(delivered=run['delivered'], exc=exc, closing=closing)


def st_direct(run):
    """C04-C07 predicates evaluated on the real run alone"""
    fails = []
    spec, B = run['spec'], run['B']
    oks_before = list(itertools.takewhile(lambda e: e[0] == 'ok', spec))
    oks_before = [e[1] for e in oks_before]
    first_fail = next((e for e in spec if e[0] == 'fail'), None)
    out = run['outcome']
    if out and out[0] == 'deadlock':
        fails.append(('C05', 'deadlock: no enabled thread / step budget exceeded'))
        return fails
    if run['delivered'] != oks_before[:len(run['delivered'])]:
        fails.append(('C04', f'delivered {run["delivered"]} is not a prefix of the source {oks_before}'))
    if run['K'] is None:
        if run['delivered'] != oks_before:
            fails.append(('C06' if first_fail else 'C04', f'exhausting consumer got {run["delivered"]}, expected {oks_before}'))
        if first_fail and not (out and out[0] == 'raised' and out[1] in exc_names(fail_kind(first_fail)) and out[2] == first_fail[2]):
            fails.append(('C06', f'source failed with tag {first_fail[2]} but the consumer saw {out}'))
        if not first_fail and out != ('end',):
            fails.append(('C04', f'outcome {out} for a source without failure'))
    if not run['worker_done_at_return'] or run['threads_alive']:
        fails.append(('C05', 'background thread still alive when control returned to the consumer'))
    if run['pulls_after_end']:
        fails.append(('C05', f'{run["pulls_after_end"]} source pulls after control returned to the consumer'))
    # read-ahead: pulled - delivered <= B + 2 at every moment; pulls after the shutdown flag <= 1
    pulled = dl = 0
    after_flag = None
    for (th, ev, pl) in run['log']:
        if ev == 'pull' and pl[0] == 'ok':
            pulled += 1
            if after_flag is not None:
                after_flag += 1
        elif ev == 'deliver':
            dl += 1
        elif ev == 'wr_shutdown':
            after_flag = 0
        if pulled - dl > B + 2:
            fails.append(('C07', f'read-ahead {pulled - dl} > buffer_size + 2 = {B + 2}'))
            break
    if after_flag is not None and after_flag > 1:
        fails.append(('C05', f'{after_flag} source pulls after the consumer set the shutdown flag'))
    return fails


# ------------------------------------------------------------------ lazy_parallel_map (thread backend)
class Fn:
    def __init__(self, s, bad, pu=None, exc_kind='FnFail'):
        self.s, self.bad, self.pu, self.exc_kind = s, set(bad), pu, exc_kind
        self.calls = []
        self.ended = False
        self.calls_after_end = 0

    def __call__(self, v):
        v = unpay(v)
        self.calls.append(v)
        if self.ended:
            self.calls_after_end += 1
        if v in self.bad:
            raise exc_class(self.pu, self.exc_kind)(Tag(v))
        return pay(10 * v + 1, PAY2)


def run_pool(pu, spec, B, W, bad, script, schedule, rng, wall=20.0, fallback='random', exc_kind='FnFail'):
    s = S.Sched(schedule, rng, wall, fallback)
    undo = S.install(pu, s)
    src = Src(s, spec, pu)
    iterfail = src.iterfail
    spec = src.spec
    fn = Fn(s, bad, pu, exc_kind)
    delivered, outcome = [], None
    K = None if script[0] == 'exhaust' else script[1]
    old_trace = sys.gettrace()
    try:
        it = pu.lazy_parallel_map(fn, src, buffer_size=B, max_workers=W, backend='t')
        try:
            while True:
                if K is not None and len(delivered) >= K:
                    if delivered:
                        s.emit('close')
                    if script[0] == 'close':
                        it.close()
                    else:
                        del it
                        gc.collect()
                    outcome = ('closed',)
                    break
                try:
                    x = next(it)
                except StopIteration:
                    outcome = ('end',)
                    break
                x = unpay(x, PAY2)
                delivered.append(x)
                s.emit('deliver', x)
                s.yield_point('PY')
                if not (K is not None and len(delivered) >= K):
                    s.emit('next')
        except S.Deadlock:
            outcome = ('deadlock',)
        except S.SchedTimeout as e:
            outcome = ('deadlock', str(e))
        except BaseException as e:  # noqa
            if isinstance(e, (KeyboardInterrupt, SystemExit)):
                raise
            tag = e.args[0].t if e.args and isinstance(e.args[0], Tag) else None
            outcome = ('raised', type(e).__name__, tag)
    finally:
        src.ended = True
        fn.ended = True
        undo()
    s.log.append(('C', 'returned', None))
    # release the (idle) executor workers so they exit; anything they still run is "user code after return"
    with s.cv:
        if not s.deadlock:
            s.current = None
            s._pick()
    for t in s.os_threads:
        t.join(2.0)
    with s.cv:
        s.deadlock = True if any(t.is_alive() for t in s.os_threads) else s.deadlock
        s.cv.notify_all()
    for t in s.os_threads:
        t.join(2.0)
    common.tick()
    return dict(kind='pool', spec=spec, iterfail=iterfail, B=B, W=W, bad=sorted(bad), exc_kind=exc_kind, script=script, schedule=list(schedule), choices=s.choices, enabled_log=s.enabled_log,
                log=s.log, delivered=delivered, outcome=outcome, calls=fn.calls, calls_after_end=fn.calls_after_end,
                pulls_after_end=src.pulls_after_end, threads_alive=sum(t.is_alive() for t in s.os_threads), K=K)


def pool_model_trace(run):
    tr = []
    ntasks = pulled = dl = running = fin = 0
    drain = False
    started = False
    log = [e for e in run['log'] if e[1] not in ('exit', 'died')]
    for (th, ev, pl) in log:
        if ev == 'returned':
            break
        if th == 'C':
            if not started:
                started = True
                tr.append(('TC', None))                 # P0 -> P1
            if ev == 'pull':
                if pl[0] == 'ok':
                    pulled += 1
                    tr.append(('TC', (ntasks, pulled, dl, running, fin)))
                    tr.append(('TC', None))             # P2 -> P3 | P4 (qsize test, local)
                elif pl[0] == 'end':
                    drain = True
                    tr.append(('TC', (ntasks, pulled, dl, running, fin)))
                    tr.append(('TC', None))             # P5 -> P6 | PExit (q.empty test, local)
                else:
                    tr.append(('TC', (ntasks, pulled, dl, running, fin)))
            elif ev == 'result':
                tr.append(('TC', None))                 # P3 | P6: take the result (delivers it, or fails)
            elif ev == 'deliver':
                dl += 1
                tr[-1] = ('TC', (ntasks, pulled, dl, running, fin))
            elif ev == 'next':
                tr.append(('TC', None))                 # PY -> P4 | PY2 -> P5
                if drain:
                    tr.append(('TC', None))             # P5 -> P6 | PExit
            elif ev == 'close':
                tr.append(('TC', None))                 # PY -> PTerm
                tr.append(('TC', None))                 # PTerm -> PExit Closed (cancel)
            elif ev == 'cancelled':
                fin += 1
            elif ev == 'submit':
                ntasks += 1
                tr.append(('TC', (ntasks, pulled, dl, running, fin)))
            elif ev == 'ex_exit':
                tr.append(('TC', None))                 # PExit -> PEnd (executor __exit__ returned)
        else:
            if ev == 'task_start':
                running += 1
                tr.append(('TStart', (ntasks, pulled, dl, running, fin)))
            elif ev == 'task_finish':
                running -= 1
                fin += 1
                tr.append((f'(TFinish {pl})', (ntasks, pulled, dl, running, fin)))
    return tr


def coq_pool_case(run):
    spec = coq_list([f'Pool.SOk {e[1]}' if e[0] == 'ok' else f'Pool.SFail {e[2]}' for e in run['spec']])
    tr = coq_list([f'({t.replace("TFinish", "Pool.TFinish") if t.startswith("(") else "Pool." + t}, {"None" if o is None else "Some (%d, %d, %d, %d, %d)" % o})' for t, o in pool_model_trace(run)])
    K = 'None' if run['K'] is None else f'(Some {run["K"]})'
    bad = coq_list([str(b) for b in run['bad']])
    return f'(PL.run_case {run["B"]} {run["W"]} {K} (PL.fn_of {bad}) {spec} {tr})'


def pool_direct(run):
    fails = []
    spec, B, bad = run['spec'], run['B'], set(run['bad'])
    args = [e[1] for e in itertools.takewhile(lambda e: e[0] == 'ok', spec)]
    src_fail = next((e for e in spec if e[0] == 'fail'), None)
    out = run['outcome']
    if out and out[0] == 'deadlock':
        return [('C05', 'deadlock: no enabled thread / step budget exceeded')]
    # sequential semantics
    seq, seq_err = [], None
    lim = args if src_fail is None else args[:max(0, len(args) - B)]
    for a in lim:
        if a in bad:
            seq_err = ('raised', run.get('exc_kind', 'FnFail'), a)
            break
        seq.append(10 * a + 1)
    if seq_err is None:
        seq_err = ('end',) if src_fail is None else ('raised', fail_kind(src_fail), src_fail[2])
    if run['delivered'] != [10 * a + 1 for a in args][:len(run['delivered'])]:
        fails.append(('C04', f'delivered {run["delivered"]} is not an in-order prefix of the mapped source'))
    if run['K'] is None:
        out_n = out
        if out and out[0] == 'raised' and seq_err[0] == 'raised' and out[1] in exc_names(seq_err[1]):
            out_n = ('raised', seq_err[1], out[2])
        if run['delivered'] != seq or out_n != seq_err:
            p = 'C06' if (seq_err[0] == 'raised') else 'C04'
            fails.append((p, f'got {run["delivered"]} then {out}; sequential semantics give {seq} then {seq_err}'))
    if len(run['calls']) != len(set(run['calls'])):
        fails.append(('C04', f'a task ran twice: calls {run["calls"]}'))
    if run['threads_alive']:
        fails.append(('C05', 'executor thread still alive after control returned'))
    if run['calls_after_end'] or run['pulls_after_end']:
        fails.append(('C05', f'user code ran after control returned ({run["calls_after_end"]} calls, {run["pulls_after_end"]} pulls)'))
    # bounds over time; cancellation on early close
    pulled = dl = started = 0
    closed_at_started = None
    for (th, ev, pl) in run['log']:
        if ev == 'pull' and pl[0] == 'ok':
            pulled += 1
        elif ev == 'deliver':
            dl += 1
        elif ev == 'task_start':
            started += 1
            if closed_at_started is not None:
                fails.append(('C05', f'task {pl} started after the consumer closed (not cancelled)'))
                break
        elif ev == 'close' or (ev == 'cancelled' and closed_at_started is None):
            closed_at_started = started
        if pulled - dl > B + 1:
            fails.append(('C07', f'pulled - delivered = {pulled - dl} > buffer_size + 1'))
            break
        if started - dl > B:
            fails.append(('C07', f'started - delivered = {started - dl} > buffer_size = {B}'))
            break
    return fails


# ------------------------------------------------------------------ generation + Coq evaluation
HEADER = """From Coq Require Import List Arith Bool.
Import ListNotations.
Require LD.PrefetchST LD.Pool.
Require Import LD.ETrace.
"""


def gen_spec(r, nmax, fail_rate=0.35, base_kinds=SRC_BASE):
    n = r.choice([0, 1, 2, 2, 3, 3, 4, nmax])
    spec = [('ok', i + 1) for i in range(n)]
    if spec and r.random() < fail_rate or (not spec and r.random() < 0.2):
        pos = r.randint(0, len(spec))
        is_exc = r.random() < 0.7
        spec.insert(pos, ('iterfail' if pos == 0 and r.random() < 0.5 else 'fail', is_exc, 90 + pos, r.choice(SRC_EXC if is_exc else base_kinds)))
    return spec


def gen_schedule(r, threads, length):
    """random or PCT-style (priority) schedule"""
    if r.random() < 0.4:
        # long bursts of one thread, few preemptions
        out = []
        while len(out) < length:
            out += [r.choice(threads)] * r.randint(1, 12)
        return out
    w = [r.random() ** 2 + 0.05 for _ in threads]
    return r.choices(threads, weights=w, k=length)


def eval_cases(exprs, tag, per_file=200):
    d = common.fresh_dir(tag)
    files = []
    for s in range(0, len(exprs), per_file):
        f = os.path.join(d, f'etr_{s // per_file:03d}.v')
        with open(f, 'w') as fh:
            fh.write(HEADER)
            for j, e in enumerate(exprs[s:s + per_file]):
                fh.write(f'Definition c{j} := Eval vm_compute in {e}.\n')
            fh.write('Eval vm_compute in [' + '; '.join(
                f'match fst c{j} with None => 0 | Some _ => 1 end' for j in range(len(exprs[s:s + per_file]))) + '].\n')
            for j in range(len(exprs[s:s + per_file])):
                fh.write(f'Print c{j}.\n')
        files.append((s, f))
    outs = common.run_case_files([f for _, f in files])
    res = {}
    for s, f in files:
        out = outs[f]
        blocks = re.split(r'\n(?=c\d+ = )', out)
        for b in blocks:
            m = re.match(r'c(\d+) = (.*)', b, re.S)
            if m:
                txt = re.sub(r'\s+', ' ', m.group(2))
                txt = txt[:txt.rfind(':')].strip()
                res[s + int(m.group(1))] = txt
    return res


def dfs(runner, budget):
    """systematic (stateless) exploration of ALL schedules of one configuration: yields every maximal
    run exactly once, up to `budget` runs.  runner(prefix) executes the real code with the given
    choice prefix and the 'first enabled' policy afterwards."""
    stack = [[]]
    n = 0
    while stack and n < budget:
        prefix = stack.pop()
        run = runner(prefix)
        n += 1
        yield run
        ch, en = run['choices'], run['enabled_log']
        if ch[:len(prefix)] != prefix:
            continue                      # the prefix was not replayable (should not happen)
        for i in range(len(ch) - 1, len(prefix) - 1, -1):
            for a in en[i]:
                if a != ch[i]:
                    stack.append(ch[:i] + [a])
    dfs.exhausted = not stack


def parse_summary_st(txt):
    """'(None, ([1; 2], Some 92, false, 8, true, None))' -> dict"""
    m = re.match(r'\((None|Some \(.*?\)), \(\[(.*?)\], (None|Some \d+), (true|false), (\d+), (true|false), (None|Some \d+)\)\)$', txt)
    if not m:
        return None
    return dict(accepted=m.group(1) == 'None', mismatch=m.group(1),
                delivered=[int(x) for x in re.findall(r'\d+', m.group(2))],
                exc=None if m.group(3) == 'None' else int(m.group(3)[5:]), closing=m.group(4) == 'true',
                cp=int(m.group(5)), wend=m.group(6) == 'true', died=None if m.group(7) == 'None' else int(m.group(7)[5:]))


def parse_summary_pool(txt):
    m = re.match(r'\((None|Some \(.*?\)), \(\[(.*?)\], (.*?), (\d+), (true|false)\)\)$', txt)
    if not m:
        return None
    return dict(accepted=m.group(1) == 'None', mismatch=m.group(1),
                delivered=[int(x) for x in re.findall(r'\d+', m.group(2))], pc=m.group(3).replace('Pool.', ''),
                cancelled=int(m.group(4)), quiescent=m.group(5) == 'true')


def st_summary_ok(run, sm):
    out = run['outcome']
    exp_exc = out[2] if out[0] == 'raised' else None
    if run['K'] == 0:
        return sm['cp'] == 0 and sm['delivered'] == []
    closing = out == ('closed',)
    # a source failure recorded by the worker but never raised (consumer closed first) is still in `exc`
    ok = sm['delivered'] == run['delivered'] and sm['closing'] == closing and sm['wend'] and sm['cp'] == (7 if closing else 8)
    if not closing:
        ok = ok and sm['exc'] == exp_exc
    return ok


def pool_summary_ok(run, sm):
    out = run['outcome']
    if run['K'] == 0:
        return sm['pc'] == 'P0' and sm['delivered'] == []
    how = {'end': 'Normal', 'closed': 'Closed'}.get(out[0]) or f'(Raised {out[2]})'
    ncanc = sum(1 for e in run['log'] if e[1] == 'cancelled')
    return sm['delivered'] == run['delivered'] and sm['pc'] == f'PEnd {how}' and sm['cancelled'] == ncanc and sm['quiescent']


# ------------------------------------------------------------------ the engine shared by C04..C07
def _cfg_key(run):
    return (run['kind'], tuple(run['spec']), run.get('iterfail'), run['B'], run.get('W'), tuple(run.get('bad', ())), run.get('exc_kind'), run['script'])


def _log_key(run):
    return tuple((t, e, 'S' if is_sentinel(p) else repr(p)) for t, e, p in run['log'])


def run_e(prop, tier, n_st=350, n_pool=350, dfs_budget=500, long_runs=30):
    ld = common.import_impl()
    import lazy_dataset.parallel_utils as pu
    r = common.rng_for(prop)
    thorough = tier == 'thorough'
    if thorough:
        n_st, n_pool, dfs_budget, long_runs = n_st * 12, n_pool * 12, dfs_budget * 12, long_runs * 10
    runs = []
    # -- random configurations and schedules
    for _ in range(n_st):
        spec = gen_spec(r, 6)
        B = r.choice([1, 1, 2, 3, 4])
        n_ok = len([e for e in spec if e[0] == 'ok'])
        script = r.choice([('exhaust',), ('exhaust',), ('close', r.randint(0, n_ok + 1)), ('drop', r.randint(0, n_ok + 1))])
        runs.append(run_st(pu, spec, B, script, gen_schedule(r, ['C', 'W'], 250), r))
    for _ in range(n_pool):
        spec = gen_spec(r, 6, 0.25, base_kinds=['SrcFailBase'])      # GeneratorExit from a foreground source is the pool's own close signal
        W = r.choice([1, 2, 3]); B = W + r.choice([0, 0, 1, 2]); B = min(B, 4) if B >= W else W
        oks = [e[1] for e in spec if e[0] == 'ok']
        bad = [v for v in oks if r.random() < 0.12]
        script = r.choice([('exhaust',), ('exhaust',), ('close', r.randint(0, len(oks) + 1)), ('drop', r.randint(0, len(oks) + 1))])
        runs.append(run_pool(pu, spec, B, W, bad, script, gen_schedule(r, ['C'] + [f'X{i}' for i in range(W)], 300), r, exc_kind=r.choice(EXC_KINDS)))
    # -- every exception class at every position (fill phase and drain phase of the pool)
    for kind in sorted(set(EXC_KINDS)):
        for pos in range(1, 5):
            W = r.choice([1, 2]); B = r.choice([W, W, W + 1])
            runs.append(run_pool(pu, [('ok', i + 1) for i in range(4)], B, W, [pos], ('exhaust',),
                                 gen_schedule(r, ['C'] + [f'X{i}' for i in range(W)], 200), r, exc_kind=kind))
    # -- lengths well above the buffer size, consumers that stall
    for _ in range(long_runs):
        n = r.randint(15, 40)
        spec = [('ok', i + 1) for i in range(n)]
        if r.random() < 0.5:
            B = r.choice([1, 2, 3])
            sch = (['W'] * r.randint(20, 200) + ['C'] * r.randint(1, 5)) * 20       # the worker gets long bursts
            runs.append(run_st(pu, spec, B, ('exhaust',) if r.random() < 0.6 else ('close', r.randint(1, n)), sch, r, wall=40))
        else:
            W = r.choice([1, 2, 3]); B = W + r.choice([0, 1])
            ths = [f'X{i}' for i in range(W)]
            sch = []
            for _k in range(40):
                sch += r.choices(ths, k=r.randint(5, 40)) + ['C'] * r.randint(1, 6)
            runs.append(run_pool(pu, spec, B, W, [], ('exhaust',) if r.random() < 0.6 else ('close', r.randint(1, n)), sch, r, wall=40))
    n_random = len(runs)
    # -- systematic exploration of ALL schedules of tiny configurations
    tiny_st = [([('ok', 1)], 1, ('exhaust',)), ([('ok', 1), ('ok', 2)], 1, ('close', 1)), ([('ok', 1), ('fail', True, 91)], 1, ('exhaust',)),
               ([('ok', 1), ('ok', 2)], 2, ('close', 1)), ([], 1, ('exhaust',)), ([('iterfail', True, 90)], 1, ('exhaust',)), ([('iterfail', False, 90, 'GeneratorExit')], 2, ('exhaust',)), ([('ok', 1), ('ok', 2), ('ok', 3)], 1, ('close', 2))]
    tiny_pool = [([('ok', 1), ('ok', 2)], 1, 1, [], ('exhaust',)), ([('ok', 1), ('ok', 2)], 2, 2, [], ('close', 1)),
                 ([('ok', 1), ('ok', 2), ('ok', 3)], 2, 2, [2], ('exhaust',)), ([('ok', 1), ('fail', True, 91)], 2, 2, [], ('exhaust',))]
    dfs_info = []
    per = max(20, dfs_budget // (len(tiny_st) + len(tiny_pool)))
    for spec, B, script in tiny_st:
        k = 0
        for run in dfs(lambda pre: run_st(pu, spec, B, script, pre, r, fallback='first'), per):
            runs.append(run); k += 1
        dfs_info.append(dict(kind='st', spec=spec, B=B, script=script, runs=k, exhausted=dfs.exhausted))
    for spec, B, W, bad, script in tiny_pool:
        k = 0
        for run in dfs(lambda pre: run_pool(pu, spec, B, W, bad, script, pre, r, fallback='first'), per):
            runs.append(run); k += 1
        dfs_info.append(dict(kind='pool', spec=spec, B=B, W=W, bad=bad, script=script, runs=k, exhausted=dfs.exhausted))

    # -- direct predicates on the real runs
    failures = []
    direct_all = 0
    for run in runs:
        fs = st_direct(run) if run['kind'] == 'st' else pool_direct(run)
        direct_all += len(fs)
        for (p, msg) in fs:
            if p == prop:
                failures.append(dict(kind='schedule', summary=msg, config=_run_json(run), got_from_impl=msg))
    # -- trace validation against the Coq model
    exprs = [coq_st_case(x) if x['kind'] == 'st' else coq_pool_case(x) for x in runs]
    res = eval_cases(exprs, f'{prop}_{tier}')
    mism = []
    for i, run in enumerate(runs):
        sm = (parse_summary_st if run['kind'] == 'st' else parse_summary_pool)(res[i])
        if run['outcome'] and run['outcome'][0] == 'deadlock':
            continue
        ok = sm is not None and sm['accepted'] and (st_summary_ok if run['kind'] == 'st' else pool_summary_ok)(run, sm)
        if not ok:
            mism.append((i, res[i]))
    if mism and not failures:
        i, txt = mism[0]
        failures.append(dict(kind='schedule', no_input=True,
                             theorem_or_case=f'correspondence ETrace.{"ST" if runs[i]["kind"] == "st" else "PL"}.run_case: the model does not accept the event log of the real run',
                             summary='the real code left the behaviours of the model (trace not accepted); no input violating this property found among the explored schedules',
                             config=_run_json(runs[i]), model_says=txt[:600]))
    elif mism:
        for f in failures[:3]:
            f['model_says'] = 'trace validation also failed on %d runs' % len(mism)
    be_runs = 0
    if prop in ('C04', 'C06'):
        be_fails, be_runs = backend_checks(ld, r, tier, prop)
        if prop == 'C04':
            sf, sr = shape_checks(ld, r, tier)
            be_fails, be_runs = sf + be_fails, be_runs + sr
            tf, tr = thread_race_checks(ld, r, tier)
            be_fails, be_runs = tf + be_fails, be_runs + tr
            of, orr = seeded_order_checks(ld, r, tier)
            be_fails, be_runs = of + be_fails, be_runs + orr
            xf, xr = exotic_example_checks(ld, r, tier)
            be_fails, be_runs = xf + be_fails, be_runs + xr
        if prop == 'C06':
            rf, rr = random_order_catch_checks(ld, r, tier)
            be_fails, be_runs = rf + be_fails, be_runs + rr
        for msg in be_fails[:5]:
            failures.append(dict(kind='schedule', summary=msg, config=dict(kind='backend'), got_from_impl=msg))
    if prop == 'C05':
        cf, cr = backend_cancellation(ld, r, tier)
        sf, sr = stacked_error_stop(ld, r, tier)
        cf, cr = sf + cf, cr + sr
        be_runs += cr
        for msg in cf[:5]:
            failures.append(dict(kind='schedule', summary=msg, config=dict(kind='backend_cancellation'), got_from_impl=msg))
    if prop == 'C07':
        ra_fails, ra_runs = dataset_level_readahead(ld, r, tier)
        pf, pr = process_backend_readahead(ld, r, tier)
        ra_fails, ra_runs = ra_fails + pf, ra_runs + pr
        be_runs += ra_runs
        for msg in ra_fails[:5]:
            failures.append(dict(kind='schedule', summary=msg, config=dict(kind='dataset_readahead'), got_from_impl=msg))
    cfgs = set(_cfg_key(x) for x in runs)
    logs = set(_log_key(x) for x in runs)
    cov = dict(programs=len(runs), evaluations=len(runs), distinct_nontrivial=len([1 for l in logs if len(l) >= 8]), distinct=len(logs),
               rule='(configuration, schedule) pairs of the REAL parallel_utils code under the controlled scheduler: random and burst '
                    'schedules over random sources (length 0..6, failures at random positions, B 1..4, W 1..3, scripts exhaust/close/drop at every k), '
                    'long sources with stalled consumers, and stateless DFS over all schedules of tiny configurations; '
                    'non-trivial = distinct event log with >= 8 events',
               distinct_configurations=len(cfgs), random_runs=n_random, dfs=dfs_info,
               outcome_histogram=dict(collections.Counter(str(x['outcome'][:2]) for x in runs)),
               kind_histogram=dict(collections.Counter(x['kind'] for x in runs)),
               buffer_histogram=dict(collections.Counter(x['B'] for x in runs)),
               steps_histogram=dict(collections.Counter(min(200, len(x['log']) // 10 * 10) for x in runs)),
               traces_validated_against_impl=len(runs), disagreements_checked=len(mism), direct_predicate_failures_all_props=direct_all,
               uninstrumented_backend_runs=be_runs,
               samples=[dict(kind=x['kind'], spec=x['spec'], B=x['B'], script=x['script'], outcome=x['outcome'],
                             log=[(t, e, 'S' if is_sentinel(p) else p) for t, e, p in x['log'][:30]]) for x in runs[:2] + runs[n_st:n_st + 1]],
               exhaustive=False)
    return dict(coverage=cov, failures=failures,
                assumptions=['each source line of the two functions contains at most one access to shared state, so interleavings at yield-point granularity cover the real ones (CPython GIL: sequential consistency)',
                             'queue.Queue / threading.Thread / ThreadPoolExecutor contracts as implemented by the shims in harness/sched.py',
                             'user code (source, mapped function) terminates'])


def _run_json(run):
    return dict(kind=run['kind'], spec=run['spec'], iterfail=run.get('iterfail', False), B=run['B'], W=run.get('W'), bad=run.get('bad'), exc_kind=run.get('exc_kind'), script=run['script'],
                choices=run['choices'], outcome=run['outcome'], delivered=run['delivered'],
                log=[(t, e, 'S' if is_sentinel(p) else p) for t, e, p in run['log']])


def replay_e(payload, prop):
    common.import_impl()
    import lazy_dataset.parallel_utils as pu
    c = payload['config']
    r = random.Random(0)
    spec = [tuple(e) for e in c['spec']]
    if c.get('iterfail') and spec:
        spec[0] = ('iterfail',) + spec[0][1:]
    if c['kind'] == 'st':
        run = run_st(pu, spec, c['B'], tuple(c['script']), c['choices'], r, fallback='first')
        fs = st_direct(run)
        expr = coq_st_case(run)
    else:
        run = run_pool(pu, spec, c['B'], c['W'], c['bad'], tuple(c['script']), c['choices'], r, fallback='first', exc_kind=c.get('exc_kind') or 'FnFail')
        fs = pool_direct(run)
        expr = coq_pool_case(run)
    res = eval_cases([expr], 'replay_e')[0]
    sm = (parse_summary_st if run['kind'] == 'st' else parse_summary_pool)(res)
    ok = sm is not None and sm['accepted'] and (st_summary_ok if run['kind'] == 'st' else pool_summary_ok)(run, sm)
    print('  outcome', run['outcome'], 'delivered', run['delivered'])
    print('  direct predicate failures:', fs)
    print('  model accepts trace:', ok, res[:300])
    return bool([f for f in fs if f[0] == prop]) or not ok


# ------------------------------------------------------------------ real executors / process backends (functional comparison only)
class BFn:
    """picklable mapped function for the un-instrumented runs: table x -> ('val', v) | ('raise', class name)"""
    def __init__(self, table):
        self.table = table

    def __call__(self, x):
        e = self.table.get(x)
        if e is None:
            return x + 1
        if e[0] == 'val':
            return e[1]
        raise bexc(e[1])(Tag(x))


class GenExitSub(GeneratorExit):
    pass


class KbdSub(BaseException):
    pass


def bexc(name):
    import queue, concurrent.futures, lazy_dataset
    return {'FnFail': FnFail, 'Empty': queue.Empty, 'KeyError': KeyError, 'FilterException': lazy_dataset.FilterException,
            'FnFailBase': FnFailBase, 'CancelledError': concurrent.futures.CancelledError, 'IndexError': IndexError,
            'StopAsyncIteration': StopAsyncIteration, 'NotImplementedError': NotImplementedError, 'AttributeError': AttributeError,
            'TypeError': TypeError, 'AssertionError': AssertionError, 'ValueError': ValueError,
            'GeneratorExit': GeneratorExit, 'GenExitSub': GenExitSub, 'KbdSub': KbdSub}[name]


def b_reference(n, table, catch):
    """sequential semantics: the delivered values and the error that ends the stream (None = normal end)"""
    out = []
    for x in range(n):
        e = table.get(x)
        if e is None:
            out.append(x + 1)
        elif e[0] == 'val':
            out.append(e[1])
        elif catch and issubclass(bexc(e[1]), catch):
            continue
        else:
            return out, (e[1], x)
    return out, None


def b_observe(make):
    got, err = [], None
    try:
        for x in make():
            got.append(x)
    except BaseException as e:  # noqa
        if isinstance(e, (KeyboardInterrupt, SystemExit)):
            raise
        nm = type(e).__name__
        err = (nm, e.args[0].t if e.args and isinstance(e.args[0], Tag) else None)
    return got, err


def backend_checks(ld, r, tier, prop):
    """un-instrumented runs of every backend (no schedule control: the OS decides): delivered examples / order / length /
    error class and position equal the sequential semantics - for functions returning None / falsy values, raising any of
    several exception classes at every position (fill phase and drain phase), with and without catch_filter_exception"""
    import warnings
    fails, runs = [], 0
    quick = tier == 'quick'
    backends = ['t', False, 'concurrent_mp', 'dill_mp', 'mp', 'multiprocessing'] if quick else ['t', 'thread', False, 'mp', 'dill_mp', 'multiprocessing', 'concurrent_mp']
    classes = ['FnFail', 'Empty', 'KeyError', 'FilterException', 'FnFailBase', 'CancelledError', 'IndexError', 'StopAsyncIteration',
               # classes the library itself raises and catches internally (items() protocol, len(), keys(), asserts)
               'NotImplementedError', 'AttributeError', 'TypeError', 'AssertionError', 'ValueError',
               # what the generator protocol itself uses: raised by USER code it is an error like any other
               'GeneratorExit', 'GenExitSub', 'KbdSub']
    with warnings.catch_warnings():
        warnings.simplefilter('ignore')
        for be in backends:
            if be is False and prop == 'C06':
                continue        # backend=False evaluates in the foreground (debugging fallback): nothing runs in the background, so C06 does not speak about it
            thread = be in ('t', 'thread', False)       # no pickling: every function / exception class can be used
            cfgs = ([(2, 2), (2, 3)] if thread else [(2, 2)]) if quick else [(1, 1), (2, 2), (2, 4), (3, 3), (3, 4)]
            lengths = ((([0, 1, 5] if thread else [5]) if quick else [0, 1, 2, 7, 23])) if prop == 'C04' else ([5] if quick else [4, 9])
            for (w, b) in cfgs:
                for n in lengths:
                    tables = []
                    if prop == 'C04':
                        tables.append(({}, None))
                        for _ in range((2 if thread else 1) if quick else 5):
                            t = {x: ('val', r.choice([None, None, 0, '', (), False])) for x in range(n) if r.random() < 0.4}
                            tables.append((t, None))
                            tables.append((t, True))
                        # examples dropped by catch_filter_exception (flag, single class, tuple of classes): everything else is delivered
                        for catch in ([True, (KeyError, ld.FilterException)] if quick else [True, KeyError, (KeyError, ld.FilterException), (ld.FilterException,)]):
                            cl = ['FilterException'] if catch is True or catch == (ld.FilterException,) else (['KeyError'] if catch is KeyError else ['KeyError', 'FilterException'])
                            t = {x: ('raise', r.choice(cl)) for x in range(n) if r.random() < 0.4}
                            tables.append((t, catch))
                    else:
                        # a hard failure of every class at every position (thread backend) / a sample (process pools)
                        combos = [(c, p) for c in classes for p in range(n)]
                        if not thread:
                            combos = [cp for cp in combos if cp[0] not in ('FnFailBase', 'GeneratorExit', 'GenExitSub', 'KbdSub')]      # multiprocessing.Pool workers die on BaseException
                            combos = r.sample(combos, 3 if quick else 8)
                        elif quick:
                            combos = [cp for cp in combos if cp[1] in (0, n - 2, n - 1) or r.random() < 0.3]
                        for (c, p) in combos:
                            t = {p: ('raise', c)}
                            for x in range(n):
                                if x != p and r.random() < 0.25:
                                    t[x] = r.choice([('raise', 'FilterException'), ('val', None), ('raise', 'FilterException')])
                            tables.append((t, r.choice([None, None, False, True, True, (KeyError,), (ld.FilterException, IndexError), KeyError])))
                        if not thread:
                            # on every process pool: the library's own FilterException, NOT selected for catching, at one position - it
                            # reaches the consumer like any other error (a worker that dies of it would leave the consumer waiting forever)
                            tables.append(({r.randrange(n): ('raise', 'FilterException')}, None))
                            tables.append(({r.randrange(n): ('raise', 'FilterException')}, False))
                            # ... and SELECTED exceptions on the pools that can carry the catcher: the example is omitted (the marker that the
                            # worker sends back has to survive the trip between the processes)
                            tables.append(({r.randrange(n): ('raise', 'FilterException')}, True))
                            tables.append(({r.randrange(n): ('raise', 'KeyError'), 0: ('val', None)}, (KeyError, ld.FilterException)))
                    for (t, catch) in tables:
                        if catch and be in ('concurrent_mp', 'multiprocessing'):
                            continue        # plain pickle cannot transfer the local catcher function: refused loudly (AttributeError) before any example
                        src = ld.new({f'k{i:02d}': i for i in range(n)})
                        fn = BFn(t)
                        ctypes = None if not catch else ((ld.FilterException,) if catch is True else (catch,) if isinstance(catch, type) else tuple(catch))
                        exp = b_reference(n, t, ctypes)
                        variants = [('prefetch', lambda: src.map(fn).prefetch(w, b, backend=be, catch_filter_exception=catch))]
                        if not catch:
                            variants.append(('parmap', lambda: src.map(fn, num_workers=w, buffer_size=b, backend=be)))
                        if thread:
                            # the single-thread path of the same call, value and key iteration
                            variants.append(('prefetch.copy', lambda: src.map(fn).prefetch(w, b, backend=be, catch_filter_exception=catch).copy()))
                            variants.append(('prefetch(1).copy(freeze)', lambda: src.map(fn).prefetch(1, b, catch_filter_exception=catch).map(_ident_e).copy(freeze=True)))
                            variants.append(('prefetch(1)', lambda: src.map(fn).prefetch(1, b, catch_filter_exception=catch)))
                            variants.append(('prefetch(1).items', lambda: src.map(fn).prefetch(1, b, catch_filter_exception=catch).items()))
                            if not catch:
                                variants.append(('parmap.items', lambda: src.map(fn, num_workers=w, buffer_size=b, backend=be).items()))
                        for name, make in variants:
                            runs += 1
                            common.tick()
                            if thread:
                                got = b_observe(make)
                            else:
                                # a consumer that is left waiting forever (a pool worker died, a result never arrives) is reported with the
                                # configuration that did it
                                try:
                                    with common.watchdog(60, 'process-pool run'):
                                        got = b_observe(make)
                                except common.ImplMisbehaviour:
                                    got = ([], ('the consumer is still waiting after 60 s', None))
                                if got[1] and got[1][0] in ('ImplMisbehaviour', 'the consumer is still waiting after 60 s'):
                                    fails.append(f'backend {be} {name} num_workers={w} buffer_size={b} n={n} catch={catch} function table {t}: the consumer never gets an answer (no example, no exception, no end of the stream within 60 s); sequential semantics give {exp[0]} then {exp[1]}')
                                    return fails, runs
                            if name.endswith('.items'):
                                # (key, value) pairs: check the keys, then compare the values like the other variants
                                vals, okk = [], True
                                for kv in got[0]:
                                    if not (isinstance(kv, tuple) and len(kv) == 2 and isinstance(kv[0], str) and kv[0].startswith('k')):
                                        okk = False
                                        break
                                    x = int(kv[0][1:])
                                    e = t.get(x)
                                    if repr(kv[1]) != repr(x + 1 if e is None else e[1] if e[0] == 'val' else '<raises>'):
                                        okk = False
                                    vals.append(kv[1])
                                if not okk:
                                    fails.append(f'backend {be} {name} num_workers={w} buffer_size={b} n={n} catch={catch} function table {t}: keys and examples are not paired: {got[0]}')
                                    continue
                                got = (vals, got[1])
                            if got[1] is not None and exp[1] is not None and got[1][0] == exp[1][0] and got[1][1] is None:
                                got = (got[0], exp[1])       # some pools rebuild the exception without its argument
                            if got != exp:
                                fails.append(f'backend {be} {name} num_workers={w} buffer_size={b} n={n} catch={catch} function table {t}: '
                                             f'consumer got {got[0]} then {got[1]}; sequential semantics give {exp[0]} then {exp[1]}')
                        if prop == 'C04' and catch:
                            # "report the same length": the sequential pipeline ds.catch(..) has no len (how many examples get dropped is
                            # unknown before they are evaluated); prefetch with catching must not report one either
                            runs += 1
                            for ww in ((w, 1) if thread else (w,)):
                                try:
                                    ln = len(src.map(fn).prefetch(ww, b, backend=be, catch_filter_exception=catch))
                                    fails.append(f'backend {be} num_workers={ww} buffer_size={b} catch={catch}: len() of a catching prefetch returns {ln}; the sequential catch() has no length and {len(exp[0])} examples are delivered')
                                except TypeError:
                                    pass
                                except Exception as e:
                                    fails.append(f'backend {be} num_workers={ww} catch={catch}: len() raised {type(e).__name__}')
                        if prop == 'C04' and catch is None:
                            runs += 1
                            try:
                                ln = len(src.map(fn).prefetch(w, b, backend=be))
                                if ln != n:
                                    fails.append(f'backend {be} w={w} b={b} n={n}: len {ln}')
                                if be == 't' and w == 1:      # the single-thread path; every other configuration refuses items() loudly
                                    gk = list(src.map(fn).prefetch(w, b, backend=be).items())
                                    if gk != [(f'k{i:02d}', v) for i, v in enumerate(exp[0])]:
                                        fails.append(f'backend t w=1: items() behind prefetch gave {gk}')
                            except Exception as e:
                                fails.append(f'backend {be} w={w} b={b} n={n}: len / items raised {type(e).__name__}: {e}')
    return fails, runs


def _ident_e(x):
    return x


def _keep_odd(x):
    return x % 2 == 1


def _raise_filter_mult3(x):
    import lazy_dataset
    if x % 3 == 0:
        raise lazy_dataset.FilterException()
    return x


def shape_checks(ld, r, tier):
    """value and key iteration of map(fn, num_workers) / prefetch over inputs of different kinds (lazy filter, intersperse,
    catch, slice, concatenate, cycle, items): the parallel pipeline must equal the sequential one"""
    import warnings, itertools as it
    fails, runs = [], 0
    quick = tier == 'quick'
    shapes = ['plain', 'filter', 'intersperse', 'catch', 'slice', 'concat', 'cycle', 'sorted', 'keyzip']
    with warnings.catch_warnings():
        warnings.simplefilter('ignore')
        for be in (['t', 'dill_mp'] if quick else ['t', 'mp', 'dill_mp', 'concurrent_mp']):
            for (w, b) in ([(2, 2)] if quick or be != 't' else [(1, 1), (2, 2), (3, 4)]):
                for shape in shapes:
                    if be != 't' and shape not in ('plain', 'filter', 'intersperse', 'cycle'):
                        continue
                    n = r.randint(3, 7)
                    src = ld.new({f'k{i:02d}': i for i in range(n)})
                    src2 = ld.new({f'z{i:02d}': 100 + i for i in range(r.randint(1, 4))})
                    if shape == 'plain': base = src
                    elif shape == 'filter': base = src.filter(_keep_odd)
                    elif shape == 'intersperse': base = src.intersperse(src2)
                    elif shape == 'catch': base = src.map(_raise_filter_mult3).catch()
                    elif shape == 'slice': base = src[1:]
                    elif shape == 'concat': base = src.concatenate(src2)
                    elif shape == 'cycle': base = src.cycle()
                    elif shape == 'sorted': base = src.sort(reverse=True)
                    else: base = src.key_zip(src.map(_keep_odd)[::-1])
                    table = {x: ('val', r.choice([None, 0, ''])) for x in range(n) if r.random() < 0.3} if shape != 'keyzip' else {}
                    fn = BFn(table) if shape != 'keyzip' else BTupFn()
                    lim = 2 * n + 1 if shape == 'cycle' else None

                    def obs(mk):
                        try:
                            return ('ok', [repr(x) for x in it.islice(mk(), lim)])
                        except BaseException as e:  # noqa
                            if isinstance(e, (KeyboardInterrupt, SystemExit)):
                                raise
                            return ('err', type(e).__name__)
                    variants = [('map(num_workers).values', lambda: base.map(fn), lambda: base.map(fn, num_workers=w, buffer_size=b, backend=be)),
                                ('map(num_workers).items', lambda: base.map(fn).items(), lambda: base.map(fn, num_workers=w, buffer_size=b, backend=be).items())]
                    if be == 't' and shape == 'plain':
                        # consumers that work on a frozen copy of their input (catch, multi-worker prefetch) above a parallel map above a
                        # per-epoch reshuffle: same seed on both sides
                        import numpy as _np
                        sd = r.randint(0, 10 ** 6)
                        variants.append(('reshuffle.map(num_workers).catch', lambda: src.shuffle(True, rng=_np.random.RandomState(sd)).map(fn).catch(),
                                         lambda: src.shuffle(True, rng=_np.random.RandomState(sd)).map(fn, num_workers=w, buffer_size=b, backend=be).catch()))
                        variants.append(('reshuffle.map(num_workers).prefetch', lambda: src.shuffle(True, rng=_np.random.RandomState(sd)).map(fn).prefetch(2, 2),
                                         lambda: src.shuffle(True, rng=_np.random.RandomState(sd)).map(fn, num_workers=w, buffer_size=b, backend=be).prefetch(2, 2)))
                        variants.append(('map(num_workers).copy', lambda: base.map(fn), lambda: base.map(fn, num_workers=w, buffer_size=b, backend=be).copy(freeze=True)))
                    if base.indexable and shape != 'cycle':
                        variants.append(('prefetch.values', lambda: base.map(fn), lambda: base.map(fn).prefetch(w, b, backend=be)))
                    if be == 't':
                        variants.append(('prefetch(1).items', lambda: base.map(fn).items(), lambda: base.map(fn).prefetch(1, b).items()))
                        variants.append(('prefetch(1).values', lambda: base.map(fn), lambda: base.map(fn).prefetch(1, b)))
                    for name, seq, par in variants:
                        runs += 1
                        common.tick()
                        a, c = obs(lambda: iter(seq())), obs(lambda: iter(par()))
                        if a != c and not (a[0] == 'err' and c[0] == 'err'):
                            fails.append(f'backend {be} num_workers={w} buffer_size={b}: {name} over a {shape} input (n={n}, function table {table}): parallel {c} vs sequential {a}')
    # a backend stays usable after an iteration over it was stopped early (break / close / dropped iterator), then and later
    with warnings.catch_warnings():
        warnings.simplefilter('ignore')
        for be in (['t', 'mp', 'dill_mp'] if quick else ['t', 'mp', 'dill_mp', 'multiprocessing', 'concurrent_mp']):
            n = 6
            src = ld.new({f'k{i:02d}': i for i in range(n)})
            fn = BFn({})
            seq = [x + 1 for x in range(n)]
            for how in ('close', 'drop', 'parmap_close'):
                runs += 1
                try:
                    mk = (lambda: src.map(fn, num_workers=2, buffer_size=2, backend=be)) if how == 'parmap_close' else (lambda: src.map(fn).prefetch(2, 2, backend=be))
                    itr = iter(mk())
                    next(itr)
                    if how == 'drop':
                        del itr
                        common.tick()
                    else:
                        itr.close()
                    again = [list(mk()), list(mk())]
                except BaseException as e:  # noqa
                    if isinstance(e, (KeyboardInterrupt, SystemExit)):
                        raise
                    again = f'raised {type(e).__name__}: {e}'
                if again != [seq, seq]:
                    fails.append(f'backend {be}: after an iteration was stopped early ({how}) the next iterations over the same backend give {again} instead of twice {seq}')
    # a map function whose state changes between two iterations of the SAME dataset object (a per-epoch schedule, a bound method of
    # a mutable object): every epoch computes with the current state, as the sequential map does - on every backend
    with warnings.catch_warnings():
        warnings.simplefilter('ignore')
        for be in ['t', 'dill_mp', 'mp', 'concurrent_mp', 'multiprocessing']:
            n = 5
            src = ld.new(list(range(1, n + 1)))
            for how in ('parmap', 'batch_map', 'bound_method'):
                runs += 1
                sc = BScale()
                try:
                    if how == 'parmap': d = src.map(sc, num_workers=2, buffer_size=3, backend=be)
                    elif how == 'bound_method': d = src.map(sc.apply, num_workers=2, buffer_size=2, backend=be)
                    else: d = src.batch(2).batch_map(sc, num_workers=1, buffer_size=2, backend=be)
                    got, want = [], []
                    for f in (2, 3, 5):
                        sc.factor = f
                        got.append(list(d))
                        want.append([x * f for x in range(1, n + 1)] if how != 'batch_map' else [[x * f for x in b] for b in ([1, 2], [3, 4], [5])])
                except BaseException as e:  # noqa
                    if isinstance(e, (KeyboardInterrupt, SystemExit)):
                        raise
                    got = f'raised {type(e).__name__}: {e}'[:200]
                if got != want:
                    fails.append(f'backend {be} {how}: the state of the map function changes between the epochs of one dataset object (factor 2, 3, 5): parallel {got} vs sequential {want}')
    return fails, runs


def random_order_catch_checks(ld, r, tier):
    """C06 with inputs whose order is drawn per epoch (a reshuffle, a lazy apply) below the prefetch: exactly the examples that raise a
    selected class are omitted - on the single-thread path as on the pool path - and an unselected class still reaches the consumer"""
    import numpy as np, warnings
    fails, runs = [], 0
    with warnings.catch_warnings():
        warnings.simplefilter('ignore')
        for _ in range(40 if tier == 'quick' else 400):
            n = r.randint(2, 8)
            bad = sorted(x for x in range(n) if r.random() < 0.3)
            cls = r.choice(['FilterException', 'KeyError', 'FnFail'])
            catch = r.choice([True, (KeyError, ld.FilterException), (FnFail,), KeyError])
            ctypes = (ld.FilterException,) if catch is True else (catch,) if isinstance(catch, type) else tuple(catch)
            selected = issubclass(bexc(cls), ctypes)
            table = {x: ('raise', cls) for x in bad}
            below = r.choice(['reshuffle', 'reshuffle_map', 'lazyapply', 'reshuffle_batch'])
            w, b = r.choice([(1, 1), (1, 3), (2, 2), (3, 3)])
            seed = r.randint(0, 10 ** 6)
            src = ld.new({f'k{i:02d}': i for i in range(n)})
            try:
                if below == 'reshuffle': d = src.shuffle(True, rng=np.random.RandomState(seed)).map(BFn(table))
                elif below == 'reshuffle_map': d = src.map(BFn(table)).shuffle(True, rng=np.random.RandomState(seed)).map(_ident_e)
                elif below == 'lazyapply': d = src.map(BFn(table)).apply(_LazyShuffle(seed), lazy=True)
                else: d = src.shuffle(True, rng=np.random.RandomState(seed)).map(BFn(table))
                p = d.prefetch(w, b, catch_filter_exception=catch)
            except Exception:
                continue
            for epoch in range(2):
                runs += 1
                got = b_observe(lambda: p)
                good = sorted(x + 1 for x in range(n) if x not in bad)
                what = f'prefetch({w}, {b}, catch_filter_exception={catch}) above {below} (n={n}, examples {bad} raise {cls}), epoch {epoch + 1}'
                if selected or not bad:
                    if got[1] is not None or sorted(got[0]) != good:
                        fails.append(f'{what}: consumer got {got[0]} then {got[1]}; exactly {good} (in some order) must be delivered and nothing raised')
                        break
                else:
                    if got[1] is None or got[1][0] != bexc(cls).__name__ or not set(got[0]) <= set(good):
                        fails.append(f'{what}: consumer got {got[0]} then {got[1]}; the unselected {cls} must reach the consumer after a subset of {good}')
                        break
    return fails, runs


class _LazyShuffle:
    def __init__(self, seed):
        import numpy as np
        self.rng = np.random.RandomState(seed)

    def __call__(self, ds):
        return ds.shuffle(True, rng=self.rng)


class AnyEq:
    """equal to everything (like unittest.mock.ANY)"""
    def __eq__(self, other): return True
    def __ne__(self, other): return False
    def __hash__(self): return 1
    def __repr__(self): return 'AnyEq()'


class EqRaises:
    def __eq__(self, other): raise TypeError('not comparable')
    def __hash__(self): return 2
    def __repr__(self): return 'EqRaises()'


def exotic_example_checks(ld, r, tier):
    """examples whose comparison is not a plain bool - numpy arrays, objects that are equal to everything, objects that refuse to be
    compared - are delivered like any other example (the stream must never test an example with == / truthiness to find its end)"""
    import numpy as np, warnings
    fails, runs = [], 0
    with warnings.catch_warnings():
        warnings.simplefilter('ignore')
        for _ in range(20 if tier == 'quick' else 200):
            n = r.randint(1, 5)
            mk = [lambda: np.arange(3), lambda: AnyEq(), lambda: EqRaises(), lambda: np.zeros((2, 2)), lambda: [np.arange(2)], lambda: 5]
            makers = [r.choice(mk) for _i in range(n)]
            vals = [m() for m in makers]
            keyed = r.random() < 0.5
            w, b = r.choice([(1, 1), (1, 2), (1, 4), (2, 2), (3, 3)])
            how = r.choice(['prefetch', 'prefetch', 'parmap', 'prefetch_items'])
            try:
                src = ld.core.DictDataset({f'k{i}': v for i, v in enumerate(vals)}) if keyed else ld.core.ListDataset(list(vals))
                seq = [repr(x) for x in src.map(_ident_e)]
                if how == 'prefetch': d = src.map(_ident_e).prefetch(w, b)
                elif how == 'parmap': d = src.map(_ident_e, num_workers=w, buffer_size=b)
                else:
                    if not keyed or w > 1:
                        continue
                    d = src.map(_ident_e).prefetch(w, b).items()
                runs += 1
                got = b_observe(lambda: d)
                vals_got = [repr(x[1]) if how == 'prefetch_items' else repr(x) for x in got[0]]
                if got[1] is not None or vals_got != seq:
                    fails.append(f'{how} num_workers={w} buffer_size={b} over the examples {seq}: delivered {vals_got} then {got[1]}; the sequential pipeline delivers all of them')
            except Exception as e:
                fails.append(f'{how} over exotic examples raised {type(e).__name__}: {e}'[:300])
    return fails, runs


def seeded_order_checks(ld, r, tier):
    """C04 with a seeded per-epoch reshuffle below: epoch k behind prefetch (any worker count, with and without catching, also a copy of
    the prefetch stage) is epoch k of the identically seeded sequential pipeline - building a stage consumes no randomness"""
    import numpy as np, warnings
    fails, runs = [], 0
    with warnings.catch_warnings():
        warnings.simplefilter('ignore')
        for _ in range(24 if tier == 'quick' else 300):
            n, seed = r.randint(3, 8), r.randint(0, 10 ** 6)
            w, b = r.choice([(1, 2), (2, 2), (2, 4), (3, 4)])
            variant = r.choice(['plain', 'catch', 'copy', 'unused_first', 'map_above'])

            def base():
                return ld.new(list(range(n))).shuffle(True, rng=np.random.RandomState(seed)).map(_ident_e)
            try:
                seq = base()
                want = [list(seq) for _e in range(3)]
                d = base()
                if variant == 'unused_first':
                    d.prefetch(2, 4)                       # a prefetch stage that is built and never iterated
                p = d.prefetch(w, b, catch_filter_exception=True) if variant == 'catch' else d.prefetch(w, b)
                if variant == 'copy': p = p.copy()
                if variant == 'map_above': p = p.map(_ident_e)
                got = [list(p) for _e in range(3)]
                runs += 1
                if got != want:
                    fails.append(f'prefetch({w}, {b}) [{variant}] above a reshuffle of {n} examples seeded with {seed}: epochs {got}; the identically seeded sequential pipeline gives {want}')
            except Exception as e:
                fails.append(f'prefetch({w}, {b}) [{variant}] above a seeded reshuffle raised {type(e).__name__}: {e}'[:300])
    return fails, runs


def thread_race_checks(ld, r, tier):
    """multi-worker THREAD prefetch hands the position access of one frozen copy of the pipeline to all workers at once: stages that
    set something up on first use must not let a second worker see it half-built.  The source answers len() and ds[i] slowly when
    it is asked from a worker thread, so that workers overlap inside the stages above it."""
    import time, warnings, threading
    fails, runs = [], 0

    class Slow(ld.core.Dataset):
        def __init__(self, vals): self.vals = list(vals)
        def copy(self, freeze=False): return Slow(self.vals)
        @property
        def indexable(self): return True
        @property
        def ordered(self): return True
        def __len__(self):
            if threading.current_thread() is not threading.main_thread():
                time.sleep(0.01)
            return len(self.vals)
        def __iter__(self, with_key=False):
            return iter(self.vals)
        def __getitem__(self, i):
            import numbers
            if isinstance(i, numbers.Integral):
                if threading.current_thread() is not threading.main_thread():
                    time.sleep(0.001)
                return self.vals[i]
            return super().__getitem__(i)
    shapes = ['concat3', 'tile2', 'concat_nested', 'intersperse', 'zip', 'batch', 'slice', 'concat_map_cache', 'sort']
    with warnings.catch_warnings():
        warnings.simplefilter('ignore')
        for shape in shapes:
            for (w, b) in ([(2, 2), (3, 4)] if tier == 'quick' else [(2, 2), (2, 4), (3, 3), (3, 4), (4, 4)]):
                a, bb, c = Slow([0, 1]), Slow([10, 11, 12]), Slow([20])
                try:
                    if shape == 'concat3': d = ld.concatenate(a, bb, c)
                    elif shape == 'tile2': d = bb.tile(2)
                    elif shape == 'concat_nested': d = ld.concatenate(ld.concatenate(a, bb), c)
                    elif shape == 'intersperse': d = ld.intersperse(bb, a)
                    elif shape == 'zip': d = ld.zip(bb, Slow([7, 8, 9]))
                    elif shape == 'batch': d = ld.concatenate(a, bb).batch(2)
                    elif shape == 'slice': d = ld.concatenate(a, bb, c)[::-1]
                    elif shape == 'concat_map_cache': d = ld.concatenate(a.map(_ident_e), bb).cache()
                    else: d = ld.concatenate(bb, a).sort(_ident_e)
                    seq = list(d)
                    for epoch in range(2):
                        runs += 1
                        common.tick()
                        try:
                            got = list(d.map(_ident_e).prefetch(w, b))
                        except BaseException as e:  # noqa
                            if isinstance(e, (KeyboardInterrupt, SystemExit)):
                                raise
                            got = f'raised {type(e).__name__}: {e}'[:200]
                        if got != seq:
                            fails.append(f'thread prefetch num_workers={w} buffer_size={b} over {shape} of slowly answering sources, epoch {epoch + 1}: {got} vs sequential {seq}')
                            break
                except Exception as e:
                    fails.append(f'thread prefetch over {shape}: building raised {type(e).__name__}: {e}'[:300])
    return fails, runs


class BScale:
    """picklable callable with state"""
    def __init__(self):
        self.factor = 1

    def __call__(self, x):
        return x * self.factor

    def apply(self, x):
        return x * self.factor


class BTupFn:
    def __call__(self, x):
        return (x[0], x[1], 1)


def _slow_mark(x, path=None):
    import time
    with open(path, 'a') as fh:
        fh.write(f'{x}\n')
    time.sleep(0.25)
    return x


def _slow_stamp(x, path=None):
    # one line when the call starts, one when it ends, each with the wall clock (the same clock in every process of this machine)
    import time
    with open(path, 'a') as fh:
        fh.write(f'S {x} {time.time():.4f}\n')
    time.sleep(0.25)
    with open(path, 'a') as fh:
        fh.write(f'E {x} {time.time():.4f}\n')
    return x


class _StackBoom(Exception):
    pass


def stacked_error_stop(ld, r, tier):
    """C05 for stacked background stages: a parallel map (or a second prefetch) above a prefetching stage; the consumer is stopped by
    an error raised in the UPPER stage (or stops by close / break).  When control is back in the consumer - already inside its
    except block, while the exception object is still alive - the threads of BOTH stages have exited and the source is not read further"""
    import threading, time, warnings
    fails, runs = [], 0
    n = 40
    with warnings.catch_warnings():
        warnings.simplefilter('ignore')
        for lower in ('prefetch1', 'prefetch2', 'parmap'):
            for upper in ('parmap1', 'parmap2', 'prefetch1'):          # (a multi-worker prefetch needs position access to its input: not above a prefetch)
                for how in ('error', 'close', 'break'):
                    runs += 1
                    pulled = []

                    def load(x, pulled=pulled):
                        pulled.append(x)
                        return x

                    def boom(x):
                        if x == 3:
                            raise _StackBoom(x)
                        return x
                    base_threads = set(threading.enumerate())
                    src = ld.new(list(range(n))).map(load)
                    low = src.prefetch(1, 4) if lower == 'prefetch1' else src.prefetch(2, 4) if lower == 'prefetch2' else src.map(_ident_e, num_workers=2, buffer_size=4)
                    fn = boom if how == 'error' else _ident_e
                    up = low.map(fn, num_workers=1, buffer_size=2) if upper == 'parmap1' else low.map(fn, num_workers=2, buffer_size=2) if upper == 'parmap2' else low.map(fn).prefetch(1, 2)
                    what = f'{upper} above {lower}, consumer stopped by {how}'
                    got = []
                    try:
                        it = iter(up)
                        try:
                            for x in it:
                                got.append(x)
                                if how == 'break' and len(got) == 2:
                                    break
                                if how == 'close' and len(got) == 2:
                                    it.close()
                                    break
                            if how == 'error':
                                fails.append(f'{what}: the error of the upper stage never reached the consumer (delivered {got})')
                                continue
                        except _StackBoom as e:
                            # control is back in the consumer: look around while the exception (and its traceback) is still alive
                            alive = [t.name for t in threading.enumerate() if t not in base_threads and t.is_alive()]
                            before = len(pulled)
                            time.sleep(0.15)
                            if alive or len(pulled) != before:
                                fails.append(f'{what}: inside the consumer\'s except block the background threads {alive} are still alive / the source was read further ({before} -> {len(pulled)} examples)')
                            continue
                        del it
                        alive = [t.name for t in threading.enumerate() if t not in base_threads and t.is_alive()]
                        before = len(pulled)
                        time.sleep(0.15)
                        if alive or len(pulled) != before:
                            fails.append(f'{what}: after the stop the background threads {alive} are still alive / the source was read further ({before} -> {len(pulled)} examples)')
                    except Exception as e:
                        fails.append(f'{what}: raised {type(e).__name__}: {e}'[:300])
    return fails, runs


def backend_cancellation(ld, r, tier):
    """C05 on the real executors: after the consumer stopped early (close / dropped iterator) the computations that had not
    started are cancelled - at most the delivered ones plus buffer and workers in flight ever start - and control comes back"""
    import functools, tempfile, time, warnings
    fails, runs = [], 0
    n = 16
    with warnings.catch_warnings():
        warnings.simplefilter('ignore')
        for be in ['t', 'dill_mp', 'concurrent_mp', 'mp', 'multiprocessing']:
            for how in ('close', 'drop'):
                for api in ('parmap', 'prefetch'):
                    w, b, k = 1, 8, 1          # one worker, eight submitted computations: when the first result arrives one is running, the others pending
                    # (a process pool has already handed max_workers + 1 further calls to its call queue: those cannot be cancelled any more)
                    slack = 1 if be in ('t', 'thread') else 4
                    if tier == 'quick' and (how, api) not in (('close', 'parmap'), ('drop', 'prefetch')):
                        continue
                    fd, path = tempfile.mkstemp(prefix='c05_')
                    os.close(fd)
                    fn = functools.partial(_slow_stamp, path=path)
                    src = ld.new(list(range(n)))
                    runs += 1
                    t0 = time.time()
                    try:
                        d = src.map(fn, num_workers=w, buffer_size=b, backend=be) if api == 'parmap' else src.map(fn).prefetch(w, b, backend=be)
                        it = iter(d)
                        got = [next(it) for _ in range(k)]
                        if how == 'close':
                            it.close()
                        else:
                            del it
                            common.tick()
                            import gc
                            gc.collect()
                        t_back = time.time()
                        took = t_back - t0
                        time.sleep(1.6)
                        stamps = [l.split() for l in open(path).read().split('\n') if l.strip()]
                        started = len([1 for st in stamps if st[0] == 'S'])
                        # once control is back no user code runs: no call starts or is still running after the stop returned
                        late = sorted(set(int(st[1]) for st in stamps if float(st[2]) > t_back + 0.05))
                        if late:
                            fails.append(f'backend {be} {api}: after the early {how} (having received {k} examples) had returned control, user code still ran for the examples {late} '
                                         f'(a call started or ended up to {max(float(st[2]) for st in stamps) - t_back:.2f}s after the return); buffer_size={b}, workers={w}')
                    except Exception as e:
                        fails.append(f'backend {be} {api}: early {how} after {k} examples raised {type(e).__name__}: {e}')
                        continue
                    finally:
                        try: os.remove(path)
                        except OSError: pass
                    if got != list(range(k)):
                        fails.append(f'backend {be} {api}: first examples {got}')
                    if started > k + w + slack:
                        fails.append(f'backend {be} {api}: after the consumer stopped ({how}) having received {k} examples, {started} of {n} computations were executed (not cancelled); buffer_size={b}, workers={w}')
                    if took > 4.0:
                        fails.append(f'backend {be} {api}: early {how} took {took:.1f}s to return control')
    return fails, runs


# ------------------------------------------------------------------ read-ahead through the Dataset API (OS schedule, stalled consumer)
def _mark(x, path=None):
    with open(path, 'a') as fh:
        fh.write(f'{x}\n')
    return x


def process_backend_readahead(ld, r, tier):
    """C07 on the real process pools: a consumer that pauses between reads; the source examples pulled beyond those delivered
    and the function applications started beyond those delivered (counted through a file the workers append to) must stay
    within buffer_size (+1 pulled for the element in hand) - not grow with the dataset length or the length of the pauses."""
    import functools, tempfile, time, warnings
    fails, runs = [], 0
    n = 80
    quick = tier == 'quick'
    import lazy_dataset.parallel_utils as _pu
    with warnings.catch_warnings():
        warnings.simplefilter('ignore')
        for be in ['dill_mp', 'multiprocessing', 'concurrent_mp', 'mp', False]:
            for (w, b) in ([(2, 3)] if quick else [(2, 3), (1, 1), (3, 5)]):
                for kind in ((('direct', 'parmap', 'parmap_items') if quick else ('direct', 'parmap', 'parmap_items', 'prefetch')) if be is not False else ('parmap_items', 'parmap_up')):
                    fd, path = tempfile.mkstemp(prefix='c07_', suffix='.log')
                    os.close(fd)
                    fn = functools.partial(_mark, path=path)
                    pulled = []

                    def gen():
                        for i in range(n):
                            pulled.append(i)
                            yield i
                    src = ld.new(list(range(n)))
                    runs += 1
                    it = None
                    worst_started = worst_pulled = 0
                    try:
                        if kind == 'direct': it = _pu.lazy_parallel_map(fn, gen(), buffer_size=b, max_workers=w, backend=be)
                        elif kind == 'parmap': it = iter(src.map(fn, num_workers=w, buffer_size=b, backend=be))
                        elif kind in ('parmap_items', 'parmap_up'):
                            # the stage BELOW the parallel map is evaluated in the calling thread while the input is handed to the workers:
                            # it must not run ahead of the consumer by more than the buffer either - for value and for key iteration
                            def up(x, pulled=pulled):
                                pulled.append(x)
                                return x
                            ksrc = ld.new({f'k{i:02d}': i for i in range(n)}).map(up).map(fn, num_workers=w, buffer_size=b, backend=be)
                            it = iter(ksrc.items() if kind == 'parmap_items' else ksrc)
                        else: it = iter(src.map(fn).prefetch(w, b, backend=be))
                        for k in range(1, 4):
                            next(it)
                            time.sleep(0.25 if k == 1 else 0.1)
                            started = len(open(path).read().split())
                            worst_started = max(worst_started, started - k)
                            worst_pulled = max(worst_pulled, len(pulled) - k)
                    except Exception as e:
                        fails.append(f'backend {be} {kind} num_workers={w} buffer_size={b}: raised {type(e).__name__}: {e}'[:300])
                    finally:
                        if it is not None:
                            try: it.close()
                            except Exception: pass
                        try: os.unlink(path)
                        except OSError: pass
                    if worst_started > b:
                        fails.append(f'backend {be} {kind} num_workers={w} buffer_size={b}: {worst_started} function applications started beyond the delivered examples while the consumer paused (bound: buffer_size = {b}; dataset length {n})')
                    if kind in ('direct', 'parmap_items', 'parmap_up') and worst_pulled > b + 1:
                        fails.append(f'backend {be} {kind} num_workers={w} buffer_size={b}: {worst_pulled} source examples pulled beyond the delivered ones while the consumer paused (bound: buffer_size + 1 = {b + 1}; dataset length {n})')
    try:
        import pathos.helpers
        pathos.helpers.shutdown()
    except Exception:
        pass
    return fails, runs


def dataset_level_readahead(ld, r, tier):
    """ds.map(fn, num_workers, buffer_size), ds.batch(..).batch_map(fn, num_workers, buffer_size) and
    ds.prefetch(w, b) - value and key iteration - with a consumer that stalls after every example: the number of
    function applications started beyond those delivered must stay <= buffer_size (+ workers in flight for
    single-thread prefetch: <= buffer_size + 2 pulled), whatever default the callee has."""
    import time, warnings
    fails, runs = [], 0
    n = 60
    nvia = 0
    cfgs = [(2, 2), (1, 1), (3, 4), (2, 3)] if tier == 'quick' else [(1, 1), (1, 2), (2, 2), (2, 3), (3, 3), (3, 4), (2, 4)]
    with warnings.catch_warnings():
        warnings.simplefilter('ignore')
        for (w, b) in cfgs:
            for kind in ('parmap', 'parmap_items', 'batch_map', 'prefetch', 'prefetch_items', 'prefetch1', 'prefetch1_items', 'prefetch_catch', 'prefetch_catch_cls', 'prefetch1_catch'):
                started = []

                def fn(x):
                    started.append(x)
                    return x
                src = ld.new({f'k{i:02d}': i for i in range(n)})
                per = 1
                if kind == 'parmap': dsx = (src.map(fn, num_workers=w, buffer_size=b))
                elif kind == 'parmap_items': dsx = (src.map(fn, num_workers=w, buffer_size=b).items())
                elif kind == 'batch_map':
                    per = 2
                    dsx = (src.batch(2).batch_map(fn, num_workers=w, buffer_size=b))
                elif kind == 'prefetch': dsx = (src.map(fn).prefetch(w, b))
                elif kind == 'prefetch_items':
                    if w > 1:
                        continue            # multi-worker prefetch refuses items() loudly
                    dsx = (src.map(fn).prefetch(w, b).items())
                elif kind == 'prefetch_catch': dsx = (src.map(fn).prefetch(w, b, catch_filter_exception=True))
                elif kind == 'prefetch_catch_cls': dsx = (src.map(fn).prefetch(w, b, backend='thread', catch_filter_exception=(KeyError, ld.FilterException)))
                elif kind == 'prefetch1_catch': dsx = (src.map(fn).prefetch(1, b, catch_filter_exception=True))
                elif kind == 'prefetch1': dsx = (src.map(fn).prefetch(1, b))
                else: dsx = (src.map(fn).prefetch(1, b).items())
                # the stage is iterated directly, through a copy, through a frozen copy or under the profiling wrapper (which copies the
                # pipeline): copies keep the configured buffer size
                via = ('direct', 'copy', 'freeze', 'profile')[nvia % 4]
                nvia += 1
                if via == 'copy': dsx = dsx.copy()
                elif via == 'freeze': dsx = dsx.copy(freeze=True)
                elif via == 'profile': dsx = ld.core.ProfilingDataset(dsx)
                it = iter(dsx)
                runs += 1
                worst = 0
                try:
                    for k in range(1, 6):
                        next(it)
                        time.sleep(0.03)
                        worst = max(worst, len(started) - k * per)
                finally:
                    it.close()
                bound = (b + 2) if kind.startswith('prefetch1') or (kind.startswith('prefetch') and w == 1 and kind != 'prefetch_catch_cls') else b * per
                if worst > bound:
                    fails.append(f'{kind} num_workers={w} buffer_size={b} (iterated via {via}): {worst} function applications ahead of the consumer (bound {bound})')
        # the documented defaults of a direct call (buffer_size=5, max_workers=2)
        import lazy_dataset.parallel_utils as _pu
        started = []

        def fn0(x):
            started.append(x)
            return x
        runs += 1
        it = _pu.lazy_parallel_map(fn0, iter(range(n)))
        try:
            worst = 0
            for k in range(1, 6):
                next(it)
                time.sleep(0.03)
                worst = max(worst, len(started) - k)
        finally:
            it.close()
        if worst > 4:         # a result is handed out only when buffer_size computations are submitted: buffer_size - 1 stay ahead of it
            fails.append(f'lazy_parallel_map with its default buffer size: {worst} function applications ahead of the consumer (documented default buffer_size = 5 allows 4)')
        # buffer sizes outside the documented range (0, negative, smaller than the worker count): either refused loudly or
        # still bounded - never an unbounded read-ahead
        for (w, b) in [(1, 0), (1, -1), (2, 1), (2, 0), (1, -3)]:
            for kind in ('prefetch', 'prefetch_items', 'parmap'):
                started = []

                def fn(x):
                    started.append(x)
                    return x
                src = ld.new({f'k{i:02d}': i for i in range(n)})
                runs += 1
                it = None
                try:
                    if kind == 'prefetch': it = iter(src.map(fn).prefetch(w, b))
                    elif kind == 'prefetch_items': it = iter(src.map(fn).prefetch(w, b).items())
                    else: it = iter(src.map(fn, num_workers=w, buffer_size=b))
                    worst = 0
                    for k in range(1, 5):
                        next(it)
                        time.sleep(0.03)
                        worst = max(worst, len(started) - k)
                except Exception:
                    continue                      # refused: fine
                finally:
                    if it is not None and hasattr(it, 'close'):
                        try: it.close()
                        except Exception: pass
                bound = max(b, 1) + 2
                if worst > bound:
                    fails.append(f'{kind} num_workers={w} buffer_size={b} (outside the valid range) is accepted and reads {worst} examples ahead of the consumer (> {bound}): unbounded read-ahead')
    return fails, runs
