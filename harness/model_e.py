"""Tie + direct property evaluation for Model E (PrefetchST.v / Pool.v): the REAL
single_thread_prefetch / lazy_parallel_map are run under the controlled scheduler (sched.py); the
event log of every run is replayed on the Coq model (ETrace.v) step by step."""
import sys, gc, os, re, random, collections, itertools, threading
from . import common, sched as S
from .fnlib import Tag, coq_list


class SrcFail(Exception):
    pass


class SrcFailBase(BaseException):
    pass


class FnFail(Exception):
    pass


class Src:
    """source iterable: ('ok', v) | ('fail', is_exception, tag); advancing it is a yield point"""
    def __init__(self, s, spec):
        self.s, self.spec, self.i, self.dead = s, spec, 0, False
        self.pulls_after_end = 0
        self.ended = False         # set by the driver when control is back with the consumer for good

    def __iter__(self): return self

    def __next__(self):
        self.s.yield_point('pull')
        if self.ended:
            self.pulls_after_end += 1
        if self.dead or self.i >= len(self.spec):
            self.dead = True
            self.s.emit('pull', ('end',))
            raise StopIteration
        e = self.spec[self.i]
        self.i += 1
        if e[0] == 'ok':
            self.s.emit('pull', ('ok', e[1]))
            return e[1]
        self.dead = True
        self.s.emit('pull', ('fail', e[2]))
        raise (SrcFail if e[1] else SrcFailBase)(Tag(e[2]))


def is_sentinel(x):
    return type(x) is object


# ------------------------------------------------------------------ single_thread_prefetch
def run_st(pu, spec, B, script, schedule, rng, wall=20.0):
    """script: ('exhaust',) | ('close', k) | ('drop', k).  Returns a dict describing the run."""
    s = S.Sched(schedule, rng, wall)
    undo = S.install(pu, s)
    src = Src(s, spec)
    delivered, outcome = [], None
    K = None if script[0] == 'exhaust' else script[1]
    old_trace = sys.gettrace()
    sys.settrace(s.tracer)
    harness_error = None
    try:
        it = pu.single_thread_prefetch(src, B)
        try:
            while True:
                if K is not None and len(delivered) >= K:
                    if K > 0 or True:
                        s.emit('close') if delivered else None
                    if script[0] == 'close':
                        it.close()
                    else:
                        del it
                        gc.collect()
                    outcome = ('closed',)
                    break
                try:
                    x = next(it)
                except StopIteration:
                    outcome = ('end',)
                    break
                delivered.append(x)
                s.emit('deliver', x)
                s.yield_point('C3')
                if not (K is not None and len(delivered) >= K):
                    s.emit('next')
        except S.Deadlock:
            outcome = ('deadlock',)
        except S.SchedTimeout as e:
            outcome = ('deadlock', str(e))
        except BaseException as e:  # noqa
            if isinstance(e, (KeyboardInterrupt, SystemExit)):
                raise
            tag = e.args[0].t if e.args and isinstance(e.args[0], Tag) else None
            outcome = ('raised', type(e).__name__, tag)
    finally:
        sys.settrace(old_trace)
        src.ended = True
        worker_done_at_return = ('W' in s.done) or not s.started
        undo()
    s.log.append(('C', 'returned', None))
    # let a (wrongly) still-running worker go on for a moment so that late user code shows up
    if not worker_done_at_return and not s.deadlock:
        with s.cv:
            s.current = None
            s._pick()
        for t in s.os_threads:
            t.join(2.0)
    with s.cv:
        s.deadlock = True if any(t.is_alive() for t in s.os_threads) else s.deadlock
        s.cv.notify_all()
    for t in s.os_threads:
        t.join(2.0)
    return dict(kind='st', spec=spec, B=B, script=script, schedule=list(schedule), choices=s.choices, log=s.log,
                delivered=delivered, outcome=outcome, worker_done_at_return=worker_done_at_return,
                pulls_after_end=src.pulls_after_end, threads_alive=sum(t.is_alive() for t in s.os_threads), K=K)


def st_model_trace(run):
    """event log -> [(tid, obs|None)] for ETrace.ST.replay, plus the expected summary"""
    tr = []
    q = pulled = dl = 0
    for (th, ev, pl) in run['log']:
        if ev in ('exit', 'returned', 'died'):
            continue
        tid = 'TC' if th == 'C' else 'TW'
        if ev == 'put':
            q += 1
        elif ev in ('get', 'drain'):
            q -= 1
        elif ev == 'pull' and pl[0] == 'ok':
            pulled += 1
        elif ev == 'deliver':
            dl += 1
        tr.append((tid, (q, pulled, dl)))
        if ev == 'get' and is_sentinel(pl):
            tr.append(('TC', None))          # C2 Sentinel -> C4 (local)
    return tr


def coq_st_case(run, cb=True):
    spec = coq_list([f'SOk {e[1]}' if e[0] == 'ok' else f'SFail {"true" if e[1] else "false"} {e[2]}' for e in run['spec']])
    tr = coq_list([f'({t}, {"None" if o is None else "Some (%d, %d, %d)" % o})' for t, o in st_model_trace(run)])
    K = 'None' if run['K'] is None else f'(Some {run["K"]})'
    return f'(ST.run_case {run["B"]} {K} {"true" if cb else "false"} {spec} {tr})'


def st_expected_summary(run):
    """what the model's final summary must be, from the real run"""
    out = run['outcome']
    closing = out == ('closed',) and run['K'] is not None and run['K'] > 0
    exc = out[2] if out and out[0] == 'raised' else None
    return dict(delivered=run['delivered'], exc=exc, closing=closing)


def st_direct(run):
    """C04-C07 predicates evaluated on the real run alone"""
    fails = []
    spec, B = run['spec'], run['B']
    oks_before = list(itertools.takewhile(lambda e: e[0] == 'ok', spec))
    oks_before = [e[1] for e in oks_before]
    first_fail = next((e for e in spec if e[0] == 'fail'), None)
    out = run['outcome']
    if out and out[0] == 'deadlock':
        fails.append(('C05', 'deadlock: no enabled thread / step budget exceeded'))
        return fails
    if run['delivered'] != oks_before[:len(run['delivered'])]:
        fails.append(('C04', f'delivered {run["delivered"]} is not a prefix of the source {oks_before}'))
    if run['K'] is None:
        if run['delivered'] != oks_before:
            fails.append(('C06' if first_fail else 'C04', f'exhausting consumer got {run["delivered"]}, expected {oks_before}'))
        if first_fail and out != ('raised', 'SrcFail' if first_fail[1] else 'SrcFailBase', first_fail[2]):
            fails.append(('C06', f'source failed with tag {first_fail[2]} but the consumer saw {out}'))
        if not first_fail and out != ('end',):
            fails.append(('C04', f'outcome {out} for a source without failure'))
    if not run['worker_done_at_return'] or run['threads_alive']:
        fails.append(('C05', 'background thread still alive when control returned to the consumer'))
    if run['pulls_after_end']:
        fails.append(('C05', f'{run["pulls_after_end"]} source pulls after control returned to the consumer'))
    # read-ahead: pulled - delivered <= B + 2 at every moment; pulls after the shutdown flag <= 1
    pulled = dl = 0
    after_flag = None
    for (th, ev, pl) in run['log']:
        if ev == 'pull' and pl[0] == 'ok':
            pulled += 1
            if after_flag is not None:
                after_flag += 1
        elif ev == 'deliver':
            dl += 1
        elif ev == 'wr_shutdown':
            after_flag = 0
        if pulled - dl > B + 2:
            fails.append(('C07', f'read-ahead {pulled - dl} > buffer_size + 2 = {B + 2}'))
            break
    if after_flag is not None and after_flag > 1:
        fails.append(('C05', f'{after_flag} source pulls after the consumer set the shutdown flag'))
    return fails


# ------------------------------------------------------------------ lazy_parallel_map (thread backend)
class Fn:
    def __init__(self, s, bad):
        self.s, self.bad = s, set(bad)
        self.calls = []
        self.ended = False
        self.calls_after_end = 0

    def __call__(self, v):
        self.calls.append(v)
        if self.ended:
            self.calls_after_end += 1
        if v in self.bad:
            raise FnFail(Tag(v))
        return 10 * v + 1


def run_pool(pu, spec, B, W, bad, script, schedule, rng, wall=20.0):
    s = S.Sched(schedule, rng, wall)
    undo = S.install(pu, s)
    src = Src(s, spec)
    fn = Fn(s, bad)
    delivered, outcome = [], None
    K = None if script[0] == 'exhaust' else script[1]
    old_trace = sys.gettrace()
    try:
        it = pu.lazy_parallel_map(fn, src, buffer_size=B, max_workers=W, backend='t')
        try:
            while True:
                if K is not None and len(delivered) >= K:
                    if delivered:
                        s.emit('close')
                    if script[0] == 'close':
                        it.close()
                    else:
                        del it
                        gc.collect()
                    outcome = ('closed',)
                    break
                try:
                    x = next(it)
                except StopIteration:
                    outcome = ('end',)
                    break
                delivered.append(x)
                s.emit('deliver', x)
                s.yield_point('PY')
                if not (K is not None and len(delivered) >= K):
                    s.emit('next')
        except S.Deadlock:
            outcome = ('deadlock',)
        except S.SchedTimeout as e:
            outcome = ('deadlock', str(e))
        except BaseException as e:  # noqa
            if isinstance(e, (KeyboardInterrupt, SystemExit)):
                raise
            tag = e.args[0].t if e.args and isinstance(e.args[0], Tag) else None
            outcome = ('raised', type(e).__name__, tag)
    finally:
        src.ended = True
        fn.ended = True
        undo()
    s.log.append(('C', 'returned', None))
    # release the (idle) executor workers so they exit; anything they still run is "user code after return"
    with s.cv:
        if not s.deadlock:
            s.current = None
            s._pick()
    for t in s.os_threads:
        t.join(2.0)
    with s.cv:
        s.deadlock = True if any(t.is_alive() for t in s.os_threads) else s.deadlock
        s.cv.notify_all()
    for t in s.os_threads:
        t.join(2.0)
    return dict(kind='pool', spec=spec, B=B, W=W, bad=sorted(bad), script=script, schedule=list(schedule), choices=s.choices,
                log=s.log, delivered=delivered, outcome=outcome, calls=fn.calls, calls_after_end=fn.calls_after_end,
                pulls_after_end=src.pulls_after_end, threads_alive=sum(t.is_alive() for t in s.os_threads), K=K)


def pool_model_trace(run):
    tr = []
    ntasks = pulled = dl = running = fin = 0
    drain = False
    started = False
    log = [e for e in run['log'] if e[1] not in ('exit', 'died')]
    for (th, ev, pl) in log:
        if ev == 'returned':
            break
        if th == 'C':
            if not started:
                started = True
                tr.append(('TC', None))                 # P0 -> P1
            if ev == 'pull':
                if pl[0] == 'ok':
                    pulled += 1
                    tr.append(('TC', (ntasks, pulled, dl, running, fin)))
                    tr.append(('TC', None))             # P2 -> P3 | P4 (qsize test, local)
                elif pl[0] == 'end':
                    drain = True
                    tr.append(('TC', (ntasks, pulled, dl, running, fin)))
                    tr.append(('TC', None))             # P5 -> P6 | PExit (q.empty test, local)
                else:
                    tr.append(('TC', (ntasks, pulled, dl, running, fin)))
            elif ev == 'result':
                pass                                    # the model's P3/P6 step is accounted at 'deliver' / failure
            elif ev == 'deliver':
                dl += 1
                tr.append(('TC', (ntasks, pulled, dl, running, fin)))
            elif ev == 'next':
                tr.append(('TC', None))                 # PY -> P4 | PY2 -> P5
                if drain:
                    tr.append(('TC', None))             # P5 -> P6 | PExit
            elif ev == 'close':
                tr.append(('TC', None))                 # PY -> PTerm
                tr.append(('TC', None))                 # PTerm -> PExit Closed (cancel)
            elif ev == 'cancelled':
                fin += 1
            elif ev == 'submit':
                ntasks += 1
                tr.append(('TC', (ntasks, pulled, dl, running, fin)))
            elif ev == 'exit':
                tr.append(('TC', None))
        else:
            if ev == 'task_start':
                running += 1
                tr.append(('TStart', (ntasks, pulled, dl, running, fin)))
            elif ev == 'task_finish':
                running -= 1
                fin += 1
                tr.append((f'(TFinish {pl})', (ntasks, pulled, dl, running, fin)))
    # a task failure surfaces in result(): the model takes the P3/P6 step to PExit (Raised)
    out = run['outcome']
    if out and out[0] == 'raised' and out[1] == 'FnFail':
        # insert the failing P3/P6 step before the final exit step
        idx = max(i for i, (t, o) in enumerate(tr) if t == 'TC')
        tr.insert(idx, ('TC', None))
    return tr


def coq_pool_case(run):
    spec = coq_list([f'SOk {e[1]}' if e[0] == 'ok' else f'SFail {e[2]}' for e in run['spec']])
    tr = coq_list([f'({t}, {"None" if o is None else "Some (%d, %d, %d, %d, %d)" % o})' for t, o in pool_model_trace(run)])
    K = 'None' if run['K'] is None else f'(Some {run["K"]})'
    bad = coq_list([str(b) for b in run['bad']])
    return f'(PL.run_case {run["B"]} {run["W"]} {K} (PL.fn_of {bad}) {spec} {tr})'


def pool_direct(run):
    fails = []
    spec, B, bad = run['spec'], run['B'], set(run['bad'])
    args = [e[1] for e in itertools.takewhile(lambda e: e[0] == 'ok', spec)]
    src_fail = next((e for e in spec if e[0] == 'fail'), None)
    out = run['outcome']
    if out and out[0] == 'deadlock':
        return [('C05', 'deadlock: no enabled thread / step budget exceeded')]
    # sequential semantics
    seq, seq_err = [], None
    lim = args if src_fail is None else args[:max(0, len(args) - B)]
    for a in lim:
        if a in bad:
            seq_err = ('raised', 'FnFail', a)
            break
        seq.append(10 * a + 1)
    if seq_err is None:
        seq_err = ('end',) if src_fail is None else ('raised', 'SrcFail', src_fail[2])
    if run['delivered'] != [10 * a + 1 for a in args][:len(run['delivered'])]:
        fails.append(('C04', f'delivered {run["delivered"]} is not an in-order prefix of the mapped source'))
    if run['K'] is None:
        if run['delivered'] != seq or out != seq_err:
            p = 'C06' if (seq_err[0] == 'raised') else 'C04'
            fails.append((p, f'got {run["delivered"]} then {out}; sequential semantics give {seq} then {seq_err}'))
    if len(run['calls']) != len(set(run['calls'])):
        fails.append(('C04', f'a task ran twice: calls {run["calls"]}'))
    if run['threads_alive']:
        fails.append(('C05', 'executor thread still alive after control returned'))
    if run['calls_after_end'] or run['pulls_after_end']:
        fails.append(('C05', f'user code ran after control returned ({run["calls_after_end"]} calls, {run["pulls_after_end"]} pulls)'))
    # bounds over time; cancellation on early close
    pulled = dl = started = 0
    closed_at_started = None
    for (th, ev, pl) in run['log']:
        if ev == 'pull' and pl[0] == 'ok':
            pulled += 1
        elif ev == 'deliver':
            dl += 1
        elif ev == 'task_start':
            started += 1
            if closed_at_started is not None:
                fails.append(('C05', f'task {pl} started after the consumer closed (not cancelled)'))
                break
        elif ev == 'close' or (ev == 'cancelled' and closed_at_started is None):
            closed_at_started = started
        if pulled - dl > B + 1:
            fails.append(('C07', f'pulled - delivered = {pulled - dl} > buffer_size + 1'))
            break
        if started - dl > B:
            fails.append(('C07', f'started - delivered = {started - dl} > buffer_size = {B}'))
            break
    return fails


# ------------------------------------------------------------------ generation + Coq evaluation
HEADER = """From Coq Require Import List Arith Bool.
Import ListNotations.
Require Import LD.PrefetchST LD.Pool LD.ETrace.
"""


def gen_spec(r, nmax, fail_rate=0.35):
    n = r.choice([0, 1, 2, 2, 3, 3, 4, nmax])
    spec = [('ok', i + 1) for i in range(n)]
    if spec and r.random() < fail_rate or (not spec and r.random() < 0.2):
        pos = r.randint(0, len(spec))
        spec.insert(pos, ('fail', r.random() < 0.7, 90 + pos))
    return spec


def gen_schedule(r, threads, length):
    """random or PCT-style (priority) schedule"""
    if r.random() < 0.4:
        # long bursts of one thread, few preemptions
        out = []
        while len(out) < length:
            out += [r.choice(threads)] * r.randint(1, 12)
        return out
    w = [r.random() ** 2 + 0.05 for _ in threads]
    return r.choices(threads, weights=w, k=length)


def eval_cases(exprs, tag, per_file=200):
    d = common.fresh_dir(tag)
    files = []
    for s in range(0, len(exprs), per_file):
        f = os.path.join(d, f'etr_{s // per_file:03d}.v')
        with open(f, 'w') as fh:
            fh.write(HEADER)
            for j, e in enumerate(exprs[s:s + per_file]):
                fh.write(f'Definition c{j} := Eval vm_compute in {e}.\n')
            fh.write('Eval vm_compute in [' + '; '.join(
                f'match fst c{j} with None => 0 | Some _ => 1 end' for j in range(len(exprs[s:s + per_file]))) + '].\n')
            for j in range(len(exprs[s:s + per_file])):
                fh.write(f'Print c{j}.\n')
        files.append((s, f))
    outs = common.run_case_files([f for _, f in files])
    res = {}
    for s, f in files:
        out = outs[f]
        blocks = re.split(r'\n(?=c\d+ = )', out)
        for b in blocks:
            m = re.match(r'c(\d+) = (.*)', b, re.S)
            if m:
                txt = re.sub(r'\s+', ' ', m.group(2))
                txt = txt[:txt.rfind(':')].strip()
                res[s + int(m.group(1))] = txt
    return res
