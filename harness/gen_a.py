"""Model A tie: program generation (grown bottom-up against the live implementation so that most
programs construct), building the implementation object, printing the Gallina `prog`, running
observation scripts on the implementation and emitting Coq case files."""
import itertools, os, re, json, collections
import numpy as np
from . import fnlib as F
from .fnlib import z, coq_list, coq_str, coq_val, coq_opt
from . import common


class Node:
    __slots__ = ('op', 'a', 'kids', 'note')

    def __init__(self, op, a=(), kids=()):
        self.op, self.a, self.kids, self.note = op, tuple(a), list(kids), {}

    def size(self):
        return 1 + sum(k.size() for k in self.kids)

    def depth(self):
        return 1 + max([k.depth() for k in self.kids], default=0)

    def ops(self):
        yield self.op
        for k in self.kids:
            yield from k.ops()

    def to_json(self):
        return {'op': self.op, 'a': _j(self.a), 'kids': [k.to_json() for k in self.kids],
                **({'note': _j(self.note)} if self.note else {})}

    @staticmethod
    def from_json(j):
        n = Node(j['op'], _unj(j['a']), [Node.from_json(k) for k in j['kids']])
        n.note = _unj(j.get('note', {})) if j.get('note') else {}
        return n

    def key(self):
        return json.dumps(self.to_json(), sort_keys=True, default=str)


def _j(x):
    if isinstance(x, tuple):
        return {'__t': [_j(y) for y in x]}
    if isinstance(x, list):
        return [_j(y) for y in x]
    if isinstance(x, dict):
        return {'__d': [[_j(k), _j(v)] for k, v in x.items()]}
    if isinstance(x, (np.integer,)):
        return int(x)
    return x


def _unj(x):
    if isinstance(x, dict) and '__t' in x:
        return tuple(_unj(y) for y in x['__t'])
    if isinstance(x, dict) and '__d' in x:
        return {_unj(k): _unj(v) for k, v in x['__d']}
    if isinstance(x, list):
        return [_unj(y) for y in x]
    return x


# ------------------------------------------------------------------ implementation side
class RecRng:
    """rng handed to shuffle(): behaves like numpy's RandomState(seed) and records what it produced"""
    def __init__(self, seed):
        self.r = np.random.RandomState(seed)
        self.perms = []

    def shuffle(self, x):
        self.r.shuffle(x)
        self.perms.append([int(i) for i in x])


def E_to_py(E):
    if E is None:
        return None
    cl = [F.cls_of(c) for c in E]
    return cl[0] if len(cl) == 1 else tuple(cl)


def np_params(n):
    """does the build of this node hand its integer parameters over as numpy scalars?"""
    import zlib
    return zlib.crc32(n.key().encode()) % 6 == 0


def uses_np_params(n):
    return np_params(n) or any(uses_np_params(k) for k in n.kids)


def build_impl(n, ld):
    """Node -> lazy_dataset object (exceptions propagate = construction refused)"""
    obj = _build_impl(n, ld)
    try:
        # remembered for the index queries: numpy itself turns uint64 * int64 into a float, so an unsigned 64-bit index is
        # only combined with plain-int parameters (batch(np.int64(2))[np.uint64(6)] is numpy's arithmetic, not the library's)
        obj._verif_np_params = uses_np_params(n)
    except Exception:
        pass
    return obj


def _build_impl(n, ld):
    op, a = n.op, n.a
    K = [build_impl(k, ld) for k in n.kids]
    if op == 'list':
        return ld.new(list(a[0]), immutable_warranty=a[1]) if a[1] != 'wu' else ld.core.from_list(list(a[0]), 'wu')
    if op == 'dict':
        return ld.new(dict(a[0]), immutable_warranty=a[1])
    d = K[0] if K else None
    # integer parameters arrive as numpy scalars in about one program out of six (np.prod(..), len // np.int64(..) in user code)
    import zlib
    I = (lambda x: np.int64(x) if isinstance(x, int) and not isinstance(x, bool) else x) if np_params(n) else (lambda x: x)
    # about one program in three leaves out every argument that equals its documented default (drop_last=False, lazy=True,
    # reverse=False, backend='t', catch_filter_exception=None, shuffle(reshuffle=False), tile(shuffle=False), cache(lazy=True), catch()):
    # a changed default in the library then shows
    DEF = zlib.crc32((n.key() + 'defaults').encode()) % 3 == 0
    if op == 'map': return d.map(F.PyF(a[0]))
    if op == 'parmap':
        if DEF and a[3] == 't':
            return d.map(F.PyF(a[0]), num_workers=I(a[1]), buffer_size=I(a[2]))
        return d.map(F.PyF(a[0]), num_workers=I(a[1]), buffer_size=I(a[2]), backend=a[3])
    if op == 'batchmap': return d.batch_map(F.PyF(a[0]))
    if op == 'filter':
        if DEF and a[1] is True:
            return d.filter(F.PyQ(a[0], a[2] if len(a) > 2 else 0))
        return d.filter(F.PyQ(a[0], a[2] if len(a) > 2 else 0), lazy=a[1])
    if op == 'catch':
        if DEF and tuple(a[0]) == ('EFilter',):
            return d.catch()
        if DEF:
            return d.catch(E_to_py(a[0]))
        return d.catch(E_to_py(a[0]), warn=zlib.crc32(n.key().encode()) % 5 == 0)
    if op == 'prefetch':
        if DEF and a[3] == 't' and a[2] is None:
            return d.prefetch(I(a[0]), I(a[1]))
        if DEF and a[3] == 't':
            return d.prefetch(I(a[0]), I(a[1]), catch_filter_exception=E_to_py(a[2]))
        return d.prefetch(I(a[0]), I(a[1]), backend=a[3], catch_filter_exception=E_to_py(a[2]))
    if op == 'get':
        s = a[0]
        if s[0] == 'slice': return d[slice(s[1], s[2], s[3])]
        if s[0] == 'ints':
            form = s[2]
            idx = list(s[1])
            if form == 'tuple': idx = tuple(idx)
            elif form == 'array': idx = np.array(idx, dtype=np.int64)
            elif form == 'array32': idx = np.array(idx, dtype=np.int32)
            elif form == 'nested': idx = [idx]
            elif form.startswith('bool'):
                m = [False] * int(form.split(':')[1])
                for i in idx:
                    m[i] = True
                idx = np.array(m, dtype=bool) if form.startswith('boolarray') else m
            return d[idx]
        if s[0] == 'keys':
            return d[list(s[1])] if s[2] == 'list' else d[tuple(s[1])]
    if op == 'shuffle':
        rng = RecRng(a[0])
        r = d.shuffle(rng=rng) if DEF else d.shuffle(False, rng=rng)
        n.note['perm'] = rng.perms[-1]
        return r
    if op in ('concat', 'intersperse', 'zip', 'keyzip'):
        # the four spellings of a combining call: function / method, separate arguments / one list
        name = {'concat': 'concatenate', 'intersperse': 'intersperse', 'zip': 'zip', 'keyzip': 'key_zip'}[op]
        form = zlib.crc32((n.key() + 'form').encode()) % 4 if K else 0
        if form == 0: return getattr(ld, name)(*K)
        if form == 1: return getattr(ld, name)(list(K) if zlib.crc32(n.key().encode()) % 2 else tuple(K))
        if form == 2: return getattr(K[0], name)(*K[1:])
        if op in ('zip', 'keyzip'):
            return getattr(K[0], name)(*K[1:])          # the zip methods take separate arguments only
        return getattr(K[0], name)(list(K[1:])) if len(K) > 1 else getattr(K[0], name)()
    if op == 'items': return d.items()
    if op == 'batch':
        if DEF and a[1] is False:
            return d.batch(I(a[0]))
        return d.batch(I(a[0]), drop_last=a[1])
    if op == 'unbatch': return d.unbatch()
    if op == 'cycle': return d.cycle()
    if op == 'cache':
        if DEF and a[0] is True:
            return d.cache()
        return d.cache(lazy=a[0])
    if op == 'sort':
        kf = F.PyF(a[0]) if a[0] is not None else None
        if DEF and a[1] is False:
            return d.sort(kf) if kf is not None else d.sort()
        return d.sort(kf, reverse=a[1])
    if op == 'shard': return d.shard(I(a[0]), I(a[1]))
    if op == 'tile': return d.tile(I(a[0]))
    if op == 'copy': return d.copy()
    raise ValueError(op)


def coq_E(E):
    return coq_list(list(E))


def coq_sl(s, n):
    if s[0] == 'slice':
        return f'(SlSlice {coq_opt(s[1], z)} {coq_opt(s[2], z)} {coq_opt(s[3], z)})'
    if s[0] == 'ints':
        return f'(SlInts {coq_list([z(i) for i in s[1]])})'
    if s[0] == 'keys':
        if len(s[1]) == 0:
            return '(SlInts [])'
        return f'(SlKeys {coq_list([coq_str(k) for k in s[1]])})'
    raise ValueError(s)


def coq_prog(n):
    op, a = n.op, n.a
    K = [coq_prog(k) for k in n.kids]
    d = K[0] if K else None
    nat = lambda x: f'{x}%nat'
    b = lambda x: 'true' if x else 'false'
    if op == 'list':
        ctor = 'PListWu' if a[1] == 'wu' else 'PList'
        return f'({ctor} {coq_list([coq_val(v) for v in a[0]])})'
    if op == 'dict':
        return f'(PDict {coq_list(["(%s, %s)" % (coq_str(k), coq_val(v)) for k, v in a[0]])})'
    if op == 'map': return f'(PMap {F.coq_f(a[0])} {d})'
    if op == 'parmap': return f'(PParMap {F.coq_f(a[0])} {nat(a[1])} {nat(a[2])} {d})'
    if op == 'batchmap': return f'(PMap (batch_map_fn {F.coq_f(a[0])}) {d})'
    if op == 'filter': return f'(PFilter {F.coq_q(a[0])} {b(a[1])} {d})'
    if op == 'catch': return f'(PCatch {coq_E(a[0])} {d})'
    # prefetch treats an empty selection like every other falsy value of catch_filter_exception: catching is switched off
    if op == 'prefetch': return f'(PPrefetch {nat(a[0])} {nat(a[1])} {coq_opt(a[2] or None, coq_E)} {d})'
    if op == 'get': return f'(PGet {coq_sl(a[0], n)} {d})'
    if op == 'shuffle':
        return f'(PGet (SlInts {coq_list([z(i) for i in n.note["perm"]])}) {d})'
    if op == 'concat': return f'(PConcat {coq_list(K)})'
    if op == 'intersperse': return f'(PIntersperse {coq_list(K)})'
    if op == 'zip': return f'(PZip {coq_list(K)})'
    if op == 'keyzip': return f'(PKeyZip {coq_list(K)})'
    if op == 'items': return f'(PItems {d})'
    if op == 'batch': return f'(PBatch {nat(a[0])} {b(a[1])} {d})'
    if op == 'unbatch': return f'(PUnbatch {d})'
    if op == 'cycle': return f'(PCycle {d})'
    if op == 'cache': return f'(PCache {b(a[0])} {d})'
    if op == 'sort': return f'(PSort {coq_opt(a[0], F.coq_f)} {b(a[1])} {d})'
    if op == 'shard': return f'(PShard {z(a[0])} {z(a[1])} {d})'
    if op == 'tile': return f'(PTile {nat(a[0])} {d})'
    if op == 'copy': return f'(PCopy {d})'
    raise ValueError(op)


# ------------------------------------------------------------------ observations
LIMIT = 5000


def obs_iter(obj, wk, take=None):
    vals, end = [], None
    try:
        it = obj.__iter__(with_key=True) if wk else iter(obj)
        if take is not None:
            it = itertools.islice(it, take)
        for x in it:
            vals.append(x)
            if len(vals) > LIMIT:
                raise common.ImplMisbehaviour('iteration does not end')
    except common.HarnessError:
        raise
    except BaseException as e:  # noqa
        if isinstance(e, (KeyboardInterrupt, SystemExit, MemoryError)):
            raise
        end = F.canon_exn(e)
    return (vals, end)


def obs_call(fn):
    try:
        return ('ok', fn())
    except BaseException as e:  # noqa
        if isinstance(e, (KeyboardInterrupt, SystemExit, MemoryError)):
            raise
        return ('err', F.canon_exn(e))


def coq_obsr(kind, r):
    if kind == 'trace':
        return f'(RTrace {F.coq_trace(r)})'
    if kind == 'val':
        return f'(RVal {F.coq_res(r, coq_val)})'
    if kind == 'nat':
        return f'(RNat {F.coq_res(r, lambda x: "%d%%nat" % x)})'
    if kind == 'keys':
        return f'(RKeys {F.coq_res(r, lambda ks: coq_list([coq_str(k) for k in ks]))})'
    if kind == 'bool':
        return f'(RBool {"true" if r else "false"})'
    raise ValueError(kind)


def zlib_crc(t):
    import zlib
    return zlib.crc32(t.encode())


def run_query(obj, q):
    """q is a tuple; returns (coq query text, kind, canonical result)"""
    k = q[0]
    if k == 'iter':
        return (f'(QIter {"true" if q[1] else "false"})', 'trace', obs_iter(obj, q[1]))
    if k == 'copyiter':          # the model's copy is the identity on descriptors (plain and frozen copies alike: no per-epoch stage here)
        r = obs_call(lambda: obj.copy(freeze=True) if len(q) > 2 and q[2] == 'freeze' else obj.copy())
        if r[0] == 'err':
            return (f'(QIter {"true" if q[1] else "false"})', 'trace', ([], r[1]))
        return (f'(QIter {"true" if q[1] else "false"})', 'trace', obs_iter(r[1], q[1]))
    if k == 'take':
        return (f'(QTake {"true" if q[1] else "false"} {q[2]}%nat)', 'trace', obs_iter(obj, q[1], take=q[2]))
    if k == 'len':
        return ('QLen', 'nat', obs_call(lambda: len(obj)))
    if k == 'keys':
        res = obs_call(lambda: list(obj.keys()))
        # whatever the caller does with the returned container must not show in later answers
        try:
            ks = obj.keys()
            if isinstance(ks, list):
                ks.reverse()
                ks.append('zz')
        except BaseException:
            pass
        return ('QKeys', 'keys', res)
    if k == 'geti':
        i = q[1]
        if len(q) > 2 and q[2] == 'np':
            # numpy integer scalars of every width and signedness (unsigned ones for non-negative positions)
            tys = [np.int64, np.int32, np.int16, np.intp] + ([np.uint8, np.uint16, np.uint32] if q[1] >= 0 else [])
            if q[1] >= 0 and not getattr(obj, '_verif_np_params', True):
                tys.append(np.uint64)
            # a narrow type is used where position * batch size still fits it (numpy wraps uint8(60) * 5 around by itself)
            tys = [t for t in tys if abs(q[1]) * 16 <= np.iinfo(t).max]
            i = tys[zlib_crc(repr(tuple(q))) % len(tys)](q[1])
        return (f'(QGetI {z(q[1])})', 'val', obs_call(lambda: obj[i]))
    if k == 'getk':
        return (f'(QGetK {coq_str(q[1])})', 'val', obs_call(lambda: obj[q[1]]))
    if k == 'indexable':
        return ('QIndexable', 'bool', bool(obj.indexable))
    if k == 'ordered':
        return ('QOrdered', 'bool', bool(obj.ordered))
    raise ValueError(q)


class Case:
    def __init__(self, prog, script_entries, refused=None):
        self.prog = prog
        self.entries = script_entries      # list of (query tuple, coq query, kind, result)
        self.refused = refused             # canonical exception if construction failed

    def coq(self):
        p = coq_prog(self.prog)
        if self.refused is not None:
            return f'({p}, [(QLen, RRefused)])'
        body = coq_list([f'({qt}, {coq_obsr(kind, r)})' for (_, qt, kind, r) in self.entries])
        return f'({p}, {body})'


HEADER = """From Coq Require Import String.
From Coq Require Import List ZArith Bool.
Require Import LD.Base LD.PySlice LD.Pipeline LD.Fn LD.Build LD.Ref LD.RefCheck LD.Laws.
Import ListNotations.
Open Scope Z_scope.
Open Scope string_scope.
"""


def emit_and_run(cases, tag, shard=150):
    """Write cases_*.v, evaluate `check_cases` inside Coq, return list of
    (case index, [(query index, model answer text)])."""
    d = common.fresh_dir(tag)
    files = []
    for s in range(0, len(cases), shard):
        f = os.path.join(d, f'cases_{s // shard:03d}.v')
        with open(f, 'w') as fh:
            fh.write(HEADER)
            fh.write('Definition cases : list case := [\n')
            fh.write(';\n'.join(c.coq() for c in cases[s:s + shard]))
            fh.write('\n].\n')
            fh.write('Definition mm := Eval vm_compute in check_cases 0 cases.\n')
            fh.write('Eval vm_compute in (map fst mm).\n')
            fh.write('Eval vm_compute in mm.\n')
            fh.write('Eval vm_compute in (map (fun c => ref_check_prog (fst c)) cases).\n')
            fh.write('Eval vm_compute in (map (fun c => has_ref (fst c)) cases).\n')
        files.append((s, f))
    outs = common.run_case_files([f for _, f in files])
    mism = []
    for s, f in files:
        out = outs[f]
        parts = re.split(r'\n\s*=\s', '\n' + out)
        # parts[1] = list of case indices, parts[2] = full mismatch dump
        if len(parts) < 3:
            raise common.HarnessError(f'unexpected coqc output for {f}: {out[:500]}')
        if len(parts) >= 5:
            rc = split_top(re.sub(r'\s+', ' ', parts[3][:parts[3].rfind(':')]).strip())
            for i, it in enumerate(rc):
                if re.search(r'\d', it):
                    REF_STATS['ref_failures'].append((s + i, it))
            REF_STATS['with_ref'] += len(re.findall(r'true', parts[4]))
        head = parts[1].split(':')[0]
        ids = [int(x) for x in re.findall(r'\d+', head)]
        if ids:
            dump = re.sub(r'\s+', ' ', parts[2])
            dump = dump[:dump.rfind(':')].strip()
            items = split_top(dump)
            if len(items) != len(ids):
                raise common.HarnessError(f'cannot parse mismatch dump of {f}')
            for i, it in zip(ids, items):
                inner = it[it.index(',') + 1:].strip()[:-1].strip()      # "[(q, obsr); ...]"
                qs = {}
                for e in split_top(inner):
                    m = re.match(r'\(\s*(\d+)%nat\s*,\s*(.*)\)\s*$', e)
                    qs[int(m.group(1))] = m.group(2)
                mism.append((s + i, qs))
    return mism


REF_STATS = dict(with_ref=0, ref_failures=[])


def split_top(lst):
    """split a printed Coq list "[a; b; c]" at top-level semicolons"""
    lst = lst.strip()
    assert lst.startswith('[') and lst.endswith(']'), lst[:80]
    body, out, depth, cur, instr = lst[1:-1], [], 0, '', False
    for ch in body:
        if ch == '"':
            instr = not instr
        if not instr:
            if ch in '([{':
                depth += 1
            elif ch in ')]}':
                depth -= 1
            elif ch == ';' and depth == 0:
                out.append(cur.strip()); cur = ''
                continue
        cur += ch
    if cur.strip():
        out.append(cur.strip())
    return out


# ------------------------------------------------------------------ generation
KEYS = ['a', 'b', 'utt2', 'c', 'k10', 'k2', 'ab', 'ba', 'd', 'e_1', 'f', 'zy9', 'g', 'AB', 'h', 'utt10']
USER_EXC = ['EFilter', '(EUser 0)', '(EUser 1)', '(EUser 2)', 'EValue', 'EIndex', 'EKey', '(EUserBase 0)', 'ERuntime', 'EType', 'EAttr', 'EAssert', 'ENotImpl', 'EZeroDiv']
CATCH_SETS = [('EFilter',), ('(EUser 0)',), ('EFilter', '(EUser 2)'), ('EException',), ('ELookup',), ('EValue', 'EKey'), ('EType',), ('ERuntime', 'EAttr'), ()]


class Gen:
    def __init__(self, rng, ld, max_len=6, structured=0.2, err_rate=0.2, malformed=0.12, threads=True,
                 ops=None):
        self.r, self.ld = rng, ld
        self.max_len, self.structured, self.err_rate, self.malformed = max_len, structured, err_rate, malformed
        self.threads = threads
        self.ops = ops
        self.tagc = itertools.count(1)

    # -- values / functions
    def value(self, depth=0):
        r = self.r
        if r.random() > self.structured or depth > 1:
            return r.randint(-3, 9)
        k = r.choice(['tuple', 'list', 'str', 'none', 'dict'])
        if k == 'tuple': return tuple(self.value(depth + 1) for _ in range(r.randint(0, 2)))
        if k == 'list': return [self.value(depth + 1) for _ in range(r.randint(0, 3))]
        if k == 'str': return r.choice(['x', 'yy', ''])
        if k == 'none': return None
        return {kk: self.value(depth + 1) for kk in r.sample(['u', 'v', 'w'], r.randint(0, 2))}

    def pcode(self):
        r = self.r
        return r.choice([('PTrue',), ('PFalse',), ('PModEq', r.choice([2, 3]), r.choice([0, 1])),
                         ('PLt', r.randint(-2, 8)), ('PEq', r.randint(-2, 8)),
                         ('PModEq', 2, r.choice([0, 1]))])

    def fcode(self, allow_raise=True):
        r = self.r
        base = r.choice([('FId',), ('FAdd', r.randint(-3, 5)), ('FMul', r.choice([-1, 2, 3])), ('FAdd', 1),
                         ('FWrapList',), ('FWrapTup',), ('FKeyInt',), ('FKeyMod', r.choice([2, 3])), ('FFirst',)])
        if base[0] == 'FFirst' and r.random() < 0.7:
            base = ('FAdd', 2)
        if allow_raise and r.random() < self.err_rate:
            return ('FRaiseIf', self.pcode(), r.choice(USER_EXC), next(self.tagc), base)
        return base

    def qcode(self):
        r = self.r
        if r.random() < self.err_rate * 0.6:
            return ('QRaiseIf', self.pcode(), r.choice(USER_EXC), next(self.tagc), self.pcode())
        return ('QP', self.pcode())

    # -- sources
    def source(self, keyed=None, keys=None):
        r = self.r
        n = r.choice([0, 1, 1, 2, 3, 3, 4, 5, self.max_len])
        if keyed is None:
            keyed = r.random() < 0.55
        vals = [self.value() for _ in range(n)]
        if r.random() < 0.3 and n >= 2:
            vals[1] = vals[0]
        if keyed:
            if keys is None:
                off = r.choice([0, 0, 3, 6, 9])
                keys = KEYS[off:off + n]
                if r.random() < 0.3:
                    keys = r.sample(KEYS, n)
            else:
                keys = list(dict.fromkeys(keys))
                vals = [self.value() for _ in keys]
            return Node('dict', (tuple(zip(keys, vals)), r.choice(['pickle', 'pickle', 'copy'])))
        return Node('list', (tuple(vals), r.choice(['pickle', 'pickle', 'copy', 'wu'])))

    # -- capabilities of a built object (only steer generation)
    def caps(self, obj):
        c = dict(indexable=False, n=None, keys=None, seq=False)
        try: c['indexable'] = bool(obj.indexable)
        except BaseException: pass
        try: c['n'] = len(obj)
        except BaseException: pass
        try: c['keys'] = list(obj.keys())
        except BaseException: pass
        return c

    def grow(self, depth):
        """returns (Node, obj)"""
        with common.watchdog(20, 'grow'):
            common.tick()
        return self._grow(depth)

    def _grow(self, depth):
        r = self.r
        node = self.source()
        try:
            obj = build_impl(node, self.ld)
        except Exception:
            node.note['refused'] = True
            return node, None
        steps = r.randint(0, depth)
        for _ in range(steps):
            nxt = self.step(node, obj, depth)
            if nxt is None:
                break
            node, obj = nxt
            if node.op == 'cycle':
                break
        return node, obj

    def step(self, node, obj, depth):
        r = self.r
        c = self.caps(obj)
        idx_ok = c['indexable'] and c['n'] is not None
        n = c['n'] if c['n'] is not None else 3
        cand = ['map', 'map', 'filter', 'batch', 'items', 'prefetch1', 'copy', 'parmap', 'unbatch?']
        if idx_ok:
            cand += ['slice', 'slice', 'ints', 'catch', 'cache', 'cache_eager', 'filter_eager', 'sort', 'shard',
                     'tile', 'prefetchN', 'shuffle', 'mapraise_catch']
            if c['keys'] is not None:
                cand += ['keys', 'sortkeys']
        if depth >= 2:
            cand += ['concat', 'zip', 'intersperse', 'keyzip?']
        if r.random() < self.malformed:
            cand = ['map', 'filter', 'batch', 'items', 'prefetch1', 'slice', 'ints', 'keys', 'catch', 'cache',
                    'cache_eager', 'filter_eager', 'sort', 'sortkeys', 'shard', 'tile', 'prefetchN', 'unbatch',
                    'concat', 'zip', 'intersperse', 'keyzip', 'badint', 'badkey', 'badshard', 'cycle']
        if self.ops is not None:
            cand = [x for x in cand if x.rstrip('?') in self.ops] or ['map']
        op = r.choice(cand)
        new = self.make(op, node, obj, c, n, depth)
        if new is None:
            return None
        try:
            nobj = build_impl(new, self.ld)
        except BaseException as e:  # refused construction: keep as a (terminal) refused case sometimes
            if isinstance(e, (KeyboardInterrupt, SystemExit)):
                raise
            new.note['refused'] = True
            return (new, None) if r.random() < 0.5 else None
        return new, nobj

    def make(self, op, node, obj, c, n, depth):
        r = self.r
        W = lambda: r.choice([2, 2, 3]) if self.threads else 1
        if op == 'map': return Node('map', (self.fcode(),), [node])
        if op == 'parmap':
            w = r.choice([1, 2, 3]) if self.threads else 1
            return Node('parmap', (self.fcode(), w, w + r.randint(0, 2), 't'), [node])
        if op == 'filter': return Node('filter', (self.qcode(), True, r.choice([0, 0, 1, 2, 3, 4, 5])), [node])
        if op == 'filter_eager': return Node('filter', (self.qcode(), False, r.choice([0, 0, 1, 2, 3, 4, 5])), [node])
        if op == 'batch': return Node('batch', (r.choice([1, 2, 2, 3, 4]), r.random() < 0.3), [node])
        if op in ('unbatch?', 'unbatch'):
            if op == 'unbatch?':
                try:
                    first = next(iter(obj))
                except BaseException:
                    return None
                if not isinstance(first, (list, tuple)):
                    return None
            return Node('unbatch', (), [node])
        if op == 'items': return Node('items', (), [node])
        if op == 'prefetch1':
            E = r.choice([None, None, None] + CATCH_SETS[:3])
            return Node('prefetch', (1, r.randint(1, 3), E, 't'), [node])
        if op == 'prefetchN':
            w = W()
            E = r.choice([None, None, None] + CATCH_SETS[:3])
            return Node('prefetch', (w, w + r.randint(0, 2), E, 't'), [node])
        if op == 'copy': return Node('copy', (), [node])
        if op == 'cycle':
            try:
                next(iter(obj))          # an empty pass would never end
            except BaseException:
                return None
            return Node('cycle', (), [node])
        if op == 'slice':
            o = lambda: r.choice([None, None] + list(range(-n - 2, n + 3)))
            st = r.choice([None, None, 1, 2, -1, -2, 3, -3])
            return Node('get', (('slice', o(), o(), st),), [node])
        if op == 'ints':
            if n == 0:
                idx = []
            else:
                idx = [r.randint(-n, n - 1) for _ in range(r.randint(0, n + 1))]
            form = r.choice(['list', 'tuple', 'array', 'array32', 'nested', 'boollist', 'boolarray'])
            if form.startswith('bool'):
                # a mask of length n denotes the increasing positions it marks (the model sees those)
                idx = sorted(set(i % n for i in idx)) if n else []
                form = form + ':%d' % n
            elif not idx and form in ('list', 'tuple', 'nested'):
                form = 'array'        # an empty python sequence is a float index for numpy; the empty int array is the well-formed way
            return Node('get', (('ints', tuple(idx), form),), [node])
        if op == 'badint':
            return Node('get', (('ints', (r.choice([n, n + 1, -n - 1]),), 'list'),), [node])
        if op == 'keys':
            ks = c['keys'] or []
            sel = [r.choice(ks) for _ in range(r.randint(0, len(ks) + 1))] if ks else []
            return Node('get', (('keys', tuple(sel), r.choice(['list', 'tuple'])),), [node])
        if op == 'badkey':
            return Node('get', (('keys', ('zz',), 'list'),), [node])
        if op == 'catch': return Node('catch', (r.choice(CATCH_SETS),), [node])
        if op == 'mapraise_catch':
            f = ('FRaiseIf', self.pcode(), r.choice(['EFilter', '(EUser 0)', '(EUser 1)', 'EValue']), next(self.tagc), ('FId',))
            return Node('catch', (r.choice(CATCH_SETS),), [Node('map', (f,), [node])])
        if op == 'cache': return Node('cache', (True,), [node])
        if op == 'cache_eager': return Node('cache', (False,), [node])
        if op == 'sort':
            return Node('sort', (r.choice([('FKeyInt',), ('FKeyNeg',), ('FKeyMod', 2), ('FKeyMod', 3)]), r.random() < 0.4), [node])
        if op == 'sortkeys': return Node('sort', (None, r.random() < 0.4), [node])
        if op == 'shard':
            k = r.randint(1, max(1, n))
            return Node('shard', (k, r.randint(0, k - 1)), [node])
        if op == 'badshard':
            k = r.choice([0, -1, n + 1, n + 2])
            return Node('shard', (k, r.choice([0, 1, -1, k])), [node])
        if op == 'tile': return Node('tile', (r.choice([1, 2, 3]),), [node])
        if op == 'shuffle': return Node('shuffle', (r.randint(0, 10 ** 6),), [node])
        if op in ('concat', 'zip', 'intersperse', 'keyzip', 'keyzip?'):
            if r.random() < 0.07:
                return Node(op.rstrip('?'), (), [node] if r.random() < 0.8 else [])     # a single dataset / none at all
            others = []
            for _ in range(r.choice([1, 1, 2])):
                if op in ('keyzip', 'keyzip?') and c['keys']:
                    o = self.source(keyed=True, keys=list(r.sample(c['keys'], len(c['keys']))))
                    if r.random() < 0.5:
                        o = Node('map', (self.fcode(),), [o])
                elif op == 'zip' and c['n'] is not None and r.random() < 0.9:
                    nn = c['n']
                    if r.random() < 0.5 and nn <= len(KEYS):
                        o = Node('dict', (tuple(zip(KEYS[:nn], [self.value() for _ in range(nn)])), 'pickle'))
                    else:
                        o = Node('list', (tuple(self.value() for _ in range(nn)), 'pickle'))
                    if r.random() < 0.5:
                        o = Node('map', (self.fcode(),), [o])
                elif op in ('keyzip?',):
                    return None
                else:
                    o, _ = self.grow(max(0, depth - 2))
                    if o.note.get('refused') or 'cycle' in set(o.ops()):
                        return None
                others.append(o)
            kids = [node] + others
            if r.random() < 0.3:
                r.shuffle(kids)
            if r.random() < 0.15 and op in ('concat', 'intersperse'):
                kids = kids + [node]           # the same dataset twice: duplicate keys
            return Node(op.rstrip('?'), (), kids)
        raise ValueError(op)


def standard_script(obj, node, r, want):
    """Observation script on one object: hidden state must show, so observations are repeated and
    interleaved.  `want` selects the families of queries (set of 'iter','index','keys')."""
    qs = []
    is_cycle = node.op == 'cycle'
    n = None
    try:
        n = len(obj)
    except BaseException:
        pass
    keys = None
    try:
        keys = list(obj.keys())
    except BaseException:
        pass
    it = ('take', False, r.choice([0, 1, 3, 7])) if is_cycle else ('iter', False)
    itk = ('take', True, r.choice([1, 2, 5])) if is_cycle else ('iter', True)
    if 'keys' in want:
        qs.append(('keys',))
    if 'iter' in want:
        qs.append(it)
    if 'index' in want or 'iter' in want:
        qs += [('len',), ('indexable',), ('ordered',)]
    if 'index' in want:
        m = n if n is not None else 3
        for i in range(-m - 2, m + 2):
            qs.append(('geti', i))
        for i in r.sample(range(-m - 2, m + 2), min(3, 2 * m + 4)):
            qs.append(('geti', i, 'np'))
    if 'iter' in want:
        qs.append(it)
    if 'keys' in want:
        qs.append(itk)
        for k in (keys or [])[:8]:
            qs.append(('getk', k))
        for k in ['zz', 'q0'] + ([r.choice(KEYS)] if True else []):
            qs.append(('getk', k))
        qs.append(('keys',))
        qs.append(itk)
    # in about a third of the scripts a few index accesses (in arbitrary order) come before everything else: stages with hidden
    # state (caches ...) are then filled out of index order before they are iterated for the first time
    if 'index' in want and n and r.random() < 0.35:
        pre = [('geti', i) for i in r.sample(range(-n, n), min(2 * n, r.randint(1, 3)))]
        qs = pre + qs
    if 'iter' in want and not is_cycle:
        qs.append(('copyiter', False))
        qs.append(('copyiter', r.random() < 0.3, 'freeze'))
        qs.append(it)
    return qs


def make_case(node, obj, r, want):
    with common.watchdog(30, lambda: 'observing ' + coq_prog(node)):
        return _make_case(node, obj, r, want)


def _make_case(node, obj, r, want):
    common.tick()
    if obj is None:
        return Case(node, [], refused=('EBase', 0))
    entries = []
    for q in standard_script(obj, node, r, want):
        qt, kind, res = run_query(obj, q)
        entries.append((q, qt, kind, res))
    return Case(node, entries)


def nontrivial(node):
    """distinct-nontrivial rule: at least one non-source stage and a source of length >= 2"""
    def src_len(n):
        if n.op in ('list', 'dict'):
            return len(n.a[0])
        return max([src_len(k) for k in n.kids], default=0)
    return node.size() >= 2 and src_len(node) >= 2
