"""C06 (Model E): real parallel_utils under the controlled scheduler, traces validated on the Coq model."""
from .. import model_e

PROP_FILE = 'props/C06.v'
TRUSTED = ['controlled scheduler and shims (harness/sched.py): bounded FIFO queue, thread start/join, FIFO executor with W workers, futures',
           'modelled, not verified: process-pool internals, OS scheduling, real time; user code is assumed to terminate']


def run(tier):
    return model_e.run_e('C06', tier)


def replay(payload):
    return model_e.replay_e(payload, 'C06')
