"""C03 - keys, items and key lookup are aligned with iteration order (Model A)."""
from .. import model_a

PROP_FILE = 'props/C03.v'
WANT = {'keys', 'iter'}


def direct(c):
    """keys() succeeded  =>  one key per iterated example, items pairs them in that order, ds[key]
    returns the example, an absent key raises."""
    if c.refused is not None:
        return []
    e = {}
    for (q, qt, kind, res) in c.entries:
        e.setdefault(q, res)
    ks = e.get(('keys',))
    it = e.get(('iter', False))
    itk = e.get(('iter', True))
    if ks is None or ks[0] != 'ok' or it is None or it[1] is not None:
        return []
    keys, vals = ks[1], it[0]
    out = []
    if len(keys) != len(vals):
        out.append(dict(summary=f'keys() has {len(keys)} entries, iteration yields {len(vals)}', got_from_impl=repr(ks)))
        return out
    if itk is not None and (itk[1] is not None or [tuple(x) if isinstance(x, tuple) else x for x in itk[0]] != list(zip(keys, vals))):
        out.append(dict(summary=f'items() {itk!r} is not zip(keys(), values) {list(zip(keys, vals))!r}', got_from_impl=repr(itk)))
    for q, res in e.items():
        if q[0] != 'getk':
            continue
        k = q[1]
        if k in keys:
            if res != ('ok', vals[keys.index(k)]):
                out.append(dict(summary=f'ds[{k!r}] = {res!r}, expected {vals[keys.index(k)]!r}', got_from_impl=repr(res), query=list(q)))
                break
        elif res[0] == 'ok':
            out.append(dict(summary=f'ds[{k!r}] returned {res[1]!r} although the key is not in keys()', got_from_impl=repr(res), query=list(q)))
            break
    return out


def run(tier):
    return model_a.run_a('C03', tier, WANT, n_quick=1500, n_thorough=40000, direct=direct,
                         gen_kwargs=dict(structured=0.1))


def replay(payload):
    return model_a.replay_a(payload)
