"""C03 - keys, items and key lookup are aligned with iteration order (Model A)."""
import os, warnings
from .. import model_a

PROP_FILE = 'props/C03.v'
WANT = {'keys', 'iter'}


def direct(c):
    """keys() succeeded  =>  one key per iterated example, items pairs them in that order, ds[key]
    returns the example, an absent key raises."""
    if c.refused is not None:
        return []
    e = {}
    for (q, qt, kind, res) in c.entries:
        e.setdefault(q, res)
    ks = e.get(('keys',))
    it = e.get(('iter', False))
    itk = e.get(('iter', True))
    if ks is None or ks[0] != 'ok' or it is None or it[1] is not None:
        return []
    keys, vals = ks[1], it[0]
    out = []
    if len(keys) != len(vals):
        out.append(dict(summary=f'keys() has {len(keys)} entries, iteration yields {len(vals)}', got_from_impl=repr(ks)))
        return out
    if itk is not None and (itk[1] is not None or [tuple(x) if isinstance(x, tuple) else x for x in itk[0]] != list(zip(keys, vals))):
        out.append(dict(summary=f'items() {itk!r} is not zip(keys(), values) {list(zip(keys, vals))!r}', got_from_impl=repr(itk)))
    for q, res in e.items():
        if q[0] != 'getk':
            continue
        k = q[1]
        if k in keys:
            if res != ('ok', vals[keys.index(k)]):
                out.append(dict(summary=f'ds[{k!r}] = {res!r}, expected {vals[keys.index(k)]!r}', got_from_impl=repr(res), query=list(q)))
                break
        elif res[0] == 'ok':
            out.append(dict(summary=f'ds[{k!r}] returned {res[1]!r} although the key is not in keys()', got_from_impl=repr(res), query=list(q)))
            break
    return out


def _drop3(v):
    if v % 3 == 0:
        import lazy_dataset
        raise lazy_dataset.FilterException(v)
    return v


def own_key_checks(ld, r, count):
    """datasets derived by filtering, reshuffling, local shuffling or prefetching (no keys()) must still pair
    every yielded example with its OWN key in items(), or refuse items() loudly"""
    import numpy as np
    from .. import fnlib as F
    fails = []
    for _ in range(count):
        n = r.randint(0, 7)
        keys = r.sample(gen_a_keys(), n)
        vals = [r.randint(0, 9) for _ in range(n)]
        add = r.randint(1, 3)
        base = ld.new(dict(zip(keys, vals))).map(F.PyF(('FAdd', add)))
        own = {k: v + add for k, v in zip(keys, vals)}
        seed = r.randint(0, 10 ** 6)
        variants = {
            'filter': lambda d: d.filter(F.PyQ(('QP', ('PModEq', 2, 0)))),
            'reshuffle': lambda d: d.shuffle(True, rng=np.random.RandomState(seed)),
            'local_shuffle': lambda d: d.shuffle(True, rng=np.random.RandomState(seed), buffer_size=r.randint(1, 4)),
            'prefetch1': lambda d: d.prefetch(1, 2),
            'reshuffle_prefetch': lambda d: d.shuffle(True, rng=np.random.RandomState(seed)).prefetch(1, 2),
            'filter_reshuffle?': lambda d: d.shuffle(True, rng=np.random.RandomState(seed)).filter(F.PyQ(('QP', ('PLt', 8)))),
            'catch': lambda d: d.catch(),
            # examples dropped by a catching stage: the survivors keep their own keys
            'catch_drop': lambda d: d.map(_drop3).catch(),
            'catch_drop_cls': lambda d: d.map(_drop3).catch(ld.FilterException),
            'prefetch1_catch_drop': lambda d: d.map(_drop3).prefetch(1, 2, catch_filter_exception=True),
            'catch_drop_slice': lambda d: d[::-1].map(_drop3).catch(),
            'slice_reshuffle': lambda d: d[::-1].shuffle(True, rng=np.random.RandomState(seed)),
            'one_time_shuffle': lambda d: d.shuffle(False, rng=np.random.RandomState(seed)),
            'sort': lambda d: d.sort(lambda x: -x),
        }
        for name, mk in variants.items():
            try:
                ds = mk(base)
                items = list(ds.items())
                plain = list(ds) if 'shuffle' not in name or name == 'one_time_shuffle' else None
            except Exception:
                continue            # loud refusal is allowed
            bad = [(k, v) for (k, v) in items if own.get(k, object()) != v]
            if bad or any(not isinstance(p, tuple) or len(p) != 2 for p in items):
                fails.append(f'{name} over {own}: items() yields {items}: not every example is paired with its own key')
            elif len(set(k for k, v in items)) != len(items):
                fails.append(f'{name} over {own}: items() yields a key twice: {items}')
            elif plain is not None and [v for k, v in items] != plain:
                fails.append(f'{name} over {own}: items() values {items} differ from plain iteration {plain}')
    return fails


def multi_part_key_lookup(ld, r, count):
    """concatenations / interspersions / key-zips whose parts are stages of different classes (plain, mapped, selected, sorted, cached,
    disk-cached, items(), catching): every key that keys() lists is served by ds[key] with its own example - whichever part holds it -
    and an absent key is refused"""
    import tempfile, shutil
    fails = []
    KINDS = ['plain', 'map', 'slice', 'sort', 'cache', 'cache_map', 'items_values', 'catch', 'prefetch1', 'diskcache']
    tmp = tempfile.mkdtemp(prefix='c03_')
    try:
        with warnings.catch_warnings():
            warnings.simplefilter('ignore')
            for ci in range(count):
                nparts = r.choice([2, 2, 3])
                parts, own, allkeys = [], {}, []
                for pi in range(nparts):
                    m = r.randint(1, 3)
                    ks = [f'p{pi}_{j}' + ('x' * r.randint(0, 2)) for j in range(m)]
                    vs = [r.choice([None, 0, 7, 'v', (1,)]) if r.random() < 0.3 else 100 * pi + j for j in range(m)]
                    base = ld.new(dict(zip(ks, vs)))
                    kind = r.choice(KINDS)
                    if kind == 'plain': d = base
                    elif kind == 'map': d = base.map(_same03)
                    elif kind == 'slice': d = base[::-1]; ks, vs = ks[::-1], vs[::-1]
                    elif kind == 'sort': d = base.sort()
                    elif kind == 'cache': d = base.cache()
                    elif kind == 'cache_map': d = base.cache().map(_same03)
                    elif kind == 'items_values': d = base.items().map(_second03)
                    elif kind == 'catch': d = base.catch()
                    elif kind == 'prefetch1': d = base.prefetch(1, 2)
                    else: d = base.diskcache(cache_dir=os.path.join(tmp, f'd{ci}_{pi}'))
                    parts.append((kind, d))
                    own.update(zip(ks, vs))
                    allkeys += ks
                comb = r.choice(['concatenate', 'intersperse'])
                try:
                    ds = ld.concatenate(*[d for _k, d in parts]) if comb == 'concatenate' else ld.intersperse(*[d for _k, d in parts])
                    listed = list(ds.keys())
                except Exception:
                    continue            # a combination that has no key view (e.g. a part without keys()) is refused loudly: fine
                what = f'{comb} of parts {[k for k, _d in parts]} with keys {allkeys}'
                if sorted(listed) != sorted(allkeys):
                    fails.append(f'{what}: keys() = {listed}')
                    continue
                for k in listed:
                    try:
                        v = ds[k]
                    except Exception as e:
                        fails.append(f'{what}: ds[{k!r}] raised {type(e).__name__}: {e} although keys() lists the key'[:500])
                        break
                    if repr(v) != repr(own[k]):
                        fails.append(f'{what}: ds[{k!r}] = {v!r}, the example stored under that key is {own[k]!r}')
                        break
                else:
                    for k in ('zz9', 'p0_'):
                        try:
                            v = ds[k]
                            fails.append(f'{what}: ds[{k!r}] returned {v!r} although the key is absent')
                        except Exception:
                            pass
                del ds, parts
    finally:
        import gc
        gc.collect()
        shutil.rmtree(tmp, ignore_errors=True)
    return fails


def _second03(kv):
    return kv[1]


def frozen_copy_keys(ld, r, count):
    """a frozen copy of a per-epoch reshuffle (explicit, or behind a mapped stage) has keys(): they stay in the order of its iteration,
    items() pairs them with their own examples and ds[key] / ds[i] agree - also after the SOURCE went through further epochs and
    further freezes"""
    import numpy as np
    fails = []
    for _ in range(count):
        n = r.randint(2, 7)
        own = {f'key_{i}': 10 * i for i in range(n)}
        rs = ld.new(own).shuffle(True, rng=np.random.RandomState(r.randint(0, 10 ** 6)))
        top = r.choice(['plain', 'map', 'slice'])
        src = rs if top == 'plain' else rs.map(_same03) if top == 'map' else rs
        try:
            fz = src.copy(freeze=True)
            if top == 'slice':
                fz = fz[::1]
            k0 = list(fz.keys())
            for _e in range(r.randint(1, 3)):
                list(src)
                src.copy(freeze=True)
            k1, it, vals = list(fz.keys()), list(fz.items()), list(fz)
            byi = [fz[i] for i in range(n)]
            byk = [fz[k] for k in k1]
            ok = k1 == k0 and [k for k, _v in it] == k1 and all(own[k] == v for k, v in it) and vals == [v for _k, v in it] and byi == vals and byk == vals
            if not ok:
                fails.append(f'frozen copy ({top}) of a reshuffle over {own}: keys() {k0} before and {k1} after the source went on; items() {it}; iteration {vals}; by position {byi}; by key {byk} - they must all describe one order')
        except Exception as e:
            fails.append(f'frozen copy ({top}) of a keyed reshuffle raised {type(e).__name__}: {e}'[:300])
    return fails


def key_source_history(ld, r, count):
    """dict-backed sources of every immutability mode built from a plain dict, a defaultdict, a Counter or an OrderedDict: keys(),
    items(), len and key lookup stay aligned - an absent key is refused (also by a source mapping that would invent a value for it),
    and later changes of the caller's mapping do not show"""
    import collections
    fails = []
    for _ in range(count):
        n = r.randint(0, 5)
        mode = r.choice(['pickle', 'copy', None])
        kind = r.choice(['dict', 'defaultdict', 'Counter', 'OrderedDict'])
        pairs = [(f'k{i}', i + 1) for i in range(n)]
        src = dict(pairs) if kind == 'dict' else collections.defaultdict(int, pairs) if kind == 'defaultdict' else collections.Counter(dict(pairs)) if kind == 'Counter' else collections.OrderedDict(pairs)
        try:
            ds = ld.new(src) if mode is None else ld.new(src, immutable_warranty=mode)
        except Exception:
            continue
        stack = r.choice(['plain', 'map', 'slice'])
        top = ds if stack == 'plain' else ds.map(_same03) if stack == 'map' else ds[:]

        def view():
            out = []
            for f in (lambda: list(top.keys()), lambda: list(top.items()), lambda: len(top), lambda: [top[k] for k, _ in pairs], lambda: list(top)):
                try:
                    out.append(f())
                except Exception as e:
                    out.append(('raised', type(e).__name__))
            for k in ('zz9', 'nope'):
                try:
                    out.append(('absent key served', k, top[k]))
                except Exception:
                    out.append('refused')
            return out
        before = view()
        what = r.choice(['add', 'remove', 'none'])
        if what == 'add': src['zz9'] = 99
        elif what == 'remove' and src: src.pop(next(iter(src)))
        after = view()
        want = [[k for k, _ in pairs], pairs, n, [v for _, v in pairs], [v for _, v in pairs], 'refused', 'refused']
        if before != want or after != want:
            fails.append(f'new({kind} of {n}, immutable_warranty={mode!r}) [{stack}], caller then does "{what}" on its mapping: keys / items / len / lookups / values / absent keys '
                         f'= {before} then {after}; expected {want} both times')
    return fails


def _same03(x):
    return x


def gen_a_keys():
    from .. import gen_a
    return gen_a.KEYS


def run(tier):
    from .. import common
    res = model_a.run_a('C03', tier, WANT, n_quick=1500, n_thorough=40000, direct=direct,
                        gen_kwargs=dict(structured=0.1))
    res.pop('cases', None)
    cnt = 200 if tier == 'quick' else 3000
    for msg in own_key_checks(common.import_impl(), common.rng_for('C03own'), cnt)[:5]:
        res['failures'].append(dict(kind='program', summary=msg[:700]))
    res['coverage']['own_key_pipelines'] = cnt * 14
    for msg in key_source_history(common.import_impl(), common.rng_for('C03src'), cnt)[:5]:
        res['failures'].append(dict(kind='program', summary=msg[:800]))
    res['coverage']['key_source_histories'] = cnt
    for msg in multi_part_key_lookup(common.import_impl(), common.rng_for('C03parts'), cnt)[:5]:
        res['failures'].append(dict(kind='program', summary=msg[:800]))
    res['coverage']['multi_part_key_lookups'] = cnt
    for msg in frozen_copy_keys(common.import_impl(), common.rng_for('C03frozen'), cnt)[:5]:
        res['failures'].append(dict(kind='program', summary=msg[:800]))
    res['coverage']['frozen_copy_key_histories'] = cnt
    return res


def replay(payload):
    return model_a.replay_a(payload)
