"""C16 - combinators obey their algebraic laws (Laws.v): every law instantiated on generated pipelines;
both sides are compared on the implementation (direct) and each side with the model (tie)."""
import collections
from .. import common, model_a, gen_a, fnlib as F
from ..gen_a import Node

PROP_FILE = 'props/C16.v'


def clone(n):
    return Node.from_json(n.to_json())


def law_pairs(r, base, obj, caps, base_vals):
    """(law name, lhs Node, rhs Node | python reference callable)"""
    out = []
    n = caps['n']
    idx_ok = caps['indexable'] and n is not None
    f = ('FAdd', r.randint(1, 3))
    g = ('FAdd', r.randint(1, 3))
    bsz = r.randint(1, 4)
    out.append(('batch_unbatch', Node('unbatch', (), [Node('batch', (bsz, False), [clone(base)])]), clone(base)))
    out.append(('map_map', Node('map', (g,), [Node('map', (f,), [clone(base)])]), Node('map', (('FAdd', f[1] + g[1]),), [clone(base)])))
    out.append(('map_batch', Node('batch', (bsz, r.random() < 0.3), [Node('map', (f,), [clone(base)])]),
                None))
    out[-1] = ('map_batch', out[-1][1], Node('batchmap', (f,), [Node('batch', (bsz, out[-1][1].a[1]), [clone(base)])]))
    other, _ = (None, None)
    out.append(('map_concat', Node('map', (f,), [Node('concat', (), [clone(base), clone(base)])]),
                Node('concat', (), [Node('map', (f,), [clone(base)]), Node('map', (f,), [clone(base)])])))
    rr = r.randint(1, 3)
    out.append(('tile', Node('tile', (rr,), [clone(base)]),
                clone(base) if rr == 1 else Node('concat', (), [clone(base) for _ in range(rr)])))
    # Laws2.v: filters compose, filter distributes over concatenation, nested concatenations flatten, selections compose
    p1 = r.choice([('PModEq', 2, 0), ('PLt', 4), ('PModEq', 3, 1), ('PModEq', 2, 1)])
    p2 = r.choice([('PModEq', 2, 0), ('PLt', 6), ('PModEq', 3, 2), ('PModEq', 3, 0)])
    out.append(('filter_filter', Node('filter', (('QP', p1), True), [Node('filter', (('QP', p2), True), [clone(base)])]),
                lambda vals, p1=p1, p2=p2: [v for v in vals if F.py_p(p2)(v) and F.py_p(p1)(v)]))
    out.append(('filter_concat', Node('filter', (('QP', p1), True), [Node('concat', (), [clone(base), clone(base)])]),
                Node('concat', (), [Node('filter', (('QP', p1), True), [clone(base)]), Node('filter', (('QP', p1), True), [clone(base)])])))
    out.append(('concat_flatten', Node('concat', (), [clone(base), Node('concat', (), [clone(base), clone(base)])]),
                Node('concat', (), [clone(base), clone(base), clone(base)])))
    b2 = r.randint(1, 3)
    out.append(('unbatch_concat', Node('unbatch', (), [Node('concat', (), [Node('batch', (bsz, False), [clone(base)]), Node('batch', (b2, False), [clone(base)])])]),
                Node('concat', (), [Node('unbatch', (), [Node('batch', (bsz, False), [clone(base)])]), Node('unbatch', (), [Node('batch', (b2, False), [clone(base)])])])))
    if idx_ok and n >= 1:
        jx = [r.randint(-n, n - 1) for _ in range(r.randint(1, n + 1))]
        ix = [r.randint(-len(jx), len(jx) - 1) for _ in range(r.randint(1, len(jx) + 1))]
        jj = [jx[x] for x in ix]
        fm = lambda: r.choice(['list', 'tuple', 'array'])
        out.append(('slice_slice', Node('get', (('ints', tuple(ix), fm()),), [Node('get', (('ints', tuple(jx), fm()),), [clone(base)])]),
                    Node('get', (('ints', tuple(jj), fm()),), [clone(base)])))
        out.append(('slice_all', Node('get', (('ints', tuple(range(n)), fm()),), [clone(base)]), clone(base)))
    if idx_ok:
        o = lambda: r.choice([None, None] + list(range(-n - 1, n + 2)))
        st = lambda: r.choice([None, 1, 2, -1, -2, 3])
        s1 = ('slice', o(), o(), st())
        s2 = ('slice', o(), o(), st())
        out.append(('nested_slices', Node('get', (s2,), [Node('get', (s1,), [clone(base)])]),
                    lambda vals, s1=s1, s2=s2: vals[slice(*s1[1:])][slice(*s2[1:])]))
        out.append(('map_slice', Node('get', (s1,), [Node('map', (f,), [clone(base)])]), Node('map', (f,), [Node('get', (s1,), [clone(base)])])))
        # ... also for a PARTIAL function: both sides evaluate exactly the selected examples, so an example outside the selection on
        # which the function raises shows on neither side
        ints = [v for v in base_vals if isinstance(v, int) and not isinstance(v, bool)]
        if ints:
            bad = tuple(sorted(set(r.sample(ints, r.randint(1, min(3, len(ints)))))))
            pf = ('FRaiseIf', ('PIn', bad), r.choice(['EFilter', 'EValue', '(EUser 0)']), 5, f)
            s4 = ('slice', r.choice([None, 1, 2, 3, -2]), r.choice([None, None, -1, n]), r.choice([None, 1, 1, 1, 2]))
            out.append(('map_slice_partial', Node('get', (s4,), [Node('map', (pf,), [clone(base)])]), Node('map', (pf,), [Node('get', (s4,), [clone(base)])])))
        seed = r.randint(0, 10 ** 6)
        out.append(('map_shuffle', Node('shuffle', (seed,), [Node('map', (f,), [clone(base)])]), Node('map', (f,), [Node('shuffle', (seed,), [clone(base)])])))
        rev = r.random() < 0.5
        # key o f orders like key only when every example is an int (f = +c is monotone on the sort key)
        if all(isinstance(v, int) for v in base_vals):
          out.append(('map_sort', Node('sort', (('FKeyInt',), rev), [Node('map', (f,), [clone(base)])]),
                      Node('map', (f,), [Node('sort', (('FKeyInt',), rev), [clone(base)])])))
        out.append(('map_cache', Node('cache', (True,), [Node('map', (f,), [clone(base)])]), Node('map', (f,), [Node('cache', (True,), [clone(base)])])))
        out.append(('map_cache_eager', Node('cache', (False,), [Node('map', (f,), [clone(base)])]), Node('map', (f,), [Node('cache', (False,), [clone(base)])])))
        out.append(('cache_eager_identity', Node('cache', (False,), [clone(base)]), clone(base)))
        if n >= 1:
            k = r.randint(1, n)
            out.append(('concat_split', Node('concat', (), [Node('shard', (k, i), [clone(base)]) for i in range(k)]), clone(base)))
        p = r.choice([('PModEq', 2, 0), ('PLt', 4), ('PModEq', 3, 1)])
        s3 = ('slice', o(), o(), r.choice([None, 1, 2, 3]))
        out.append(('filter_select', Node('filter', (('QP', p), True), [Node('get', (s3,), [clone(base)])]),
                    lambda vals, s3=s3, p=p: [v for v in vals[slice(*s3[1:])] if F.py_p(p)(v)]))
    return out


KEY_LAWS = {'map_map', 'map_concat', 'nested_slices', 'map_slice', 'map_shuffle', 'map_sort', 'map_cache', 'concat_split', 'slice_slice', 'slice_all', 'concat_flatten'}


def key_obs(o):
    try:
        k = list(o.keys())
    except Exception as e:
        k = 'refused'
    try:
        it = [(a, repr(b)) for a, b in o.items()]
    except Exception as e:
        it = 'refused'
    return k, it


def run(tier):
    ld = common.import_impl()
    r = common.rng_for('C16')
    g = gen_a.Gen(r, ld, err_rate=0.0, malformed=0.0, structured=0.15)
    nbase = 160 if tier == 'quick' else 1800
    nodes, pairs, failures = [], [], []
    laws = collections.Counter()
    for _ in range(nbase):
        common.tick()
        base, obj = g.grow(r.choice([0, 1, 2, 3, 4]))
        if obj is None or base.op == 'cycle' or 'cycle' in set(base.ops()):
            continue
        try:
            base_vals = list(obj)
        except Exception:
            continue
        caps = g.caps(obj)
        # a base that already carries duplicate keys (e.g. a selection naming one key twice) is outside the key laws:
        # concatenate documents that keys() needs unique keys
        bk0, bi0 = key_obs(obj)
        if bk0 == 'refused' and bi0 != 'refused':
            bk0 = [k for k, _ in bi0]
        has_dict = any(nd.op == 'dict' for nd in model_a._walk(base))
        base_keys_unique = (bk0 == 'refused' and not has_dict) or (bk0 != 'refused' and len(set(bk0)) == len(bk0))
        for (law, lhs, rhs) in law_pairs(r, base, obj, caps, base_vals):
            if law in ('map_cache_eager', 'cache_eager_identity') and not base_keys_unique:
                continue          # eager caching goes through items(): duplicate keys are outside the law (cf. known finding F15)
            laws[law] += 1
            try:
                lo = gen_a.build_impl(lhs, ld)
                lv = gen_a.obs_iter(lo, False)
            except Exception as e:
                lv = ('refused', type(e).__name__)
                lo = None
            if callable(rhs):
                try:
                    rv = (rhs(base_vals), None)
                except Exception as e:
                    rv = ('refused', type(e).__name__)
                ro = None
            else:
                try:
                    ro = gen_a.build_impl(rhs, ld)
                    rv = gen_a.obs_iter(ro, False)
                except Exception as e:
                    rv = ('refused', type(e).__name__)
                    ro = None
                nodes.append(rhs)
            nodes.append(lhs)
            ok = repr(lv) == repr(rv) or (lv[0] == 'refused' and rv[0] == 'refused')
            if ok and lo is not None and ro is not None:
                try:
                    if lo.indexable and ro.indexable and len(lo) == len(ro):
                        nn = len(lo)
                        ok = all(repr(lo[i]) == repr(ro[i]) for i in range(-nn, nn))
                except Exception:
                    pass
            # keys / items: for the laws whose two sides both keep the example keys the key view must agree as well
            # (same keys in the same order, or both refuse)
            if ok and law in KEY_LAWS and lo is not None and (ro is not None or law == 'nested_slices') and base_keys_unique:
                lk, li = key_obs(lo)
                if ro is not None:
                    rk, ri = key_obs(ro)
                else:
                    bk, bi = key_obs(obj)
                    s1, s2 = lhs.kids[0].a[0], lhs.a[0]
                    cut = lambda xs: xs if isinstance(xs, str) else xs[slice(*s1[1:])][slice(*s2[1:])]
                    rk, ri = cut(bk), cut(bi)
                if repr(lk) != repr(rk) or repr(li) != repr(ri):
                    ok = False
                    lv, rv = ('keys', lk, 'items', li), ('keys', rk, 'items', ri)
            if not ok and not base_keys_unique and 'items' in set(base.ops()) and any(isinstance(x, tuple) and x[0] == 'refused' and x[1] in ('AssertionError', 'NotImplementedError') or
                                                                                   (isinstance(x, tuple) and len(x) > 1 and isinstance(x[1], tuple) and x[1] and x[1][0] in ('EAssert', 'ENotImpl')) for x in (lv, rv)):
                # known finding F15 (items() over duplicate keys cannot be indexed): a law instance built on such a base inherits it
                failures.append(dict(kind='program', finding_id='F15', summary='items() over duplicate / undefined keys: indexable is True but an integer index raises AssertionError / NotImplementedError (keys() is needed)',
                                     program=lhs.to_json(), coq_prog=gen_a.coq_prog(lhs), want=['iter'], law=law))
                continue
            if not ok:
                failures.append(dict(kind='program', summary=f'law {law} fails on the implementation: lhs={gen_a.coq_prog(lhs)[:200]} -> {lv!r} ; rhs -> {rv!r}'[:600],
                                     program=lhs.to_json(), coq_prog=gen_a.coq_prog(lhs), want=['iter', 'index'], law=law))
        # tile(r, shuffle=True) = concatenation of r independently shuffled copies (same global numpy state on both sides)
        if caps['indexable'] and caps['n']:
            import numpy as np
            reps, sd = r.randint(2, 3), r.randint(0, 10 ** 6)
            laws['tile_shuffle'] += 1
            try:
                np.random.seed(sd)
                lv = gen_a.obs_iter(obj.tile(reps, shuffle=True), False)
            except Exception as e:
                lv = ('refused', type(e).__name__)
            try:
                np.random.seed(sd)
                rv = gen_a.obs_iter(ld.concatenate(*[obj.shuffle() for _ in range(reps)]), False)
            except Exception as e:
                rv = ('refused', type(e).__name__)
            if repr(lv) != repr(rv) and not (lv[0] == 'refused' and rv[0] == 'refused'):
                failures.append(dict(kind='program', summary=f'law tile_shuffle fails on the implementation: tile({reps}, shuffle=True) of {gen_a.coq_prog(base)[:200]} under numpy seed {sd} -> {lv!r} ; concatenation of {reps} shuffles -> {rv!r}'[:700],
                                     program=base.to_json(), coq_prog=gen_a.coq_prog(base), want=['iter'], law='tile_shuffle'))
    res = model_a.run_a('C16', tier, {'iter', 'index', 'keys'}, n_quick=0, n_thorough=0, extra_nodes=nodes)
    res.pop('cases', None)
    res['failures'] = failures + res['failures']
    res['coverage'].update(law_instances=dict(laws), base_pipelines=nbase)
    return res


def replay(payload):
    return model_a.replay_a(payload)
