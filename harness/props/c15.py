"""C15 - shards partition the dataset (PySlice.array_split + Model A's PShard)."""
import os, re, collections
import numpy as np
from .. import common, model_a, gen_a
from ..gen_a import Node

PROP_FILE = 'props/C15.v'
TRUSTED = ['np.array_split is modelled (PySlice.array_split) and tied by an exhaustive sweep']


def direct_sweep(ld, N):
    """the property evaluated on the implementation for ALL (n, k), 0 <= n <= N, -1 <= k <= n + 2"""
    fails, count = [], 0
    for n in range(0, N + 1):
        ds = ld.new(list(range(n)))
        step = 1 if n <= 60 else max(1, n // 25)
        for k in list(range(-1, min(n, 60) + 3)) + list(range(60, n + 3, step)):
            count += 1
            try:
                shards = ds.split(k)
            except ValueError:
                if 1 <= k <= n:
                    fails.append((n, k, None, 'split refused a valid shard count'))
                continue
            except Exception as e:
                fails.append((n, k, None, f'split raised {type(e).__name__}'))
                continue
            if not (1 <= k <= n):
                fails.append((n, k, None, 'split accepted an invalid shard count'))
                continue
            parts = [list(s) for s in shards]
            sizes = [len(p) for p in parts]
            if len(parts) != k or sum(parts, []) != list(range(n)) or max(sizes) - min(sizes) > 1:
                fails.append((n, k, None, f'shards {parts if n < 12 else sizes} do not partition range({n}) evenly'))
                continue
            q, r = divmod(n, k)
            if sizes != [q + 1] * r + [q] * (k - r):
                fails.append((n, k, None, f'sizes {sizes} differ from the modelled np.array_split sizes'))
            if n <= 30 or k in (1, 2, n):
                for i in {0, k - 1, k // 2}:
                    if list(ds.shard(k, i)) != parts[i]:
                        fails.append((n, k, i, f'shard({k},{i}) != split({k})[{i}]'))
                # the shard count / index may be any integer type (numpy scalars as produced by np.prod, len // np.int64(..), ...)
                import numpy as np
                for ty in (np.int64, np.int32, np.uint8, np.intp):
                    if k > 200:
                        continue
                    try:
                        alt = [list(x) for x in ds.split(ty(k))]
                        alt_sh = list(ds.shard(ty(k), ty(k - 1)))
                    except Exception as e:
                        fails.append((n, k, None, f'split / shard with the valid shard count {ty.__name__}({k}) raised {type(e).__name__}: {e}'[:300]))
                        break
                    if alt != parts or alt_sh != parts[k - 1]:
                        fails.append((n, k, None, f'split({ty.__name__}({k})) differs from split({k})'))
                        break
                # the returned list belongs to the caller: whatever the caller does with it, later calls on the same dataset object
                # still return the k shards
                shards.reverse()
                del shards[:1]
                again = [list(x) for x in ds.split(k)]
                if again != parts:
                    fails.append((n, k, None, f'after the caller modified the list returned by split({k}), split({k}) on the same dataset returns {again if n < 12 else len(again)} instead of {parts if n < 12 else k} shards'))
                elif list(ds.shard(k, k - 1)) != parts[k - 1]:
                    fails.append((n, k, k - 1, f'after the caller modified the list returned by split({k}), shard({k},{k - 1}) changed'))
    # shards of BATCHED datasets whose element indices get large (index * batch_size beyond 255 and beyond 65535): every example
    # exactly once, shards reassemble to the dataset
    for (n, B, ks) in ([(800, 8, (2, 3)), (70000, 100, (3,))] + ([(3000, 7, (4, 9)), (66000, 2, (2,))] if N > 300 else [])):
        base = ld.new(list(range(n))).batch(B)
        whole = [list(b) for b in base]
        for k in ks:
            count += 1
            try:
                parts = [[list(b) for b in sh] for sh in base.split(k)]
                sh1 = [list(b) for b in base.shard(k, k - 1)]
            except Exception as e:
                fails.append((n, k, None, f'new(range({n})).batch({B}).split({k}) raised {type(e).__name__}: {e}'[:300]))
                continue
            flat = [b for p in parts for b in p]
            if flat != whole:
                bad = next((i for i, (a, c) in enumerate(zip(flat, whole)) if a != c), min(len(flat), len(whole)))
                fails.append((n, k, None, f'new(range({n})).batch({B}).split({k}): the concatenated shards differ from the dataset, first at batch {bad}: got {flat[bad][:3] if bad < len(flat) else None}.., expected {whole[bad][:3] if bad < len(whole) else None}..'))
            elif sh1 != parts[-1]:
                fails.append((n, k, k - 1, f'new(range({n})).batch({B}).shard({k},{k - 1}) != split({k})[{k - 1}]'))
    # shards of DERIVED datasets (batches with and without drop_last, selections, concatenations, maps, items): the reference is what
    # iterating the dataset delivers - every delivered example lands in exactly one shard, valid counts 1..n are accepted, others refused
    for m in range(0, 13 if N <= 300 else 26):
        for make, what in ((lambda d: d.batch(2), 'batch(2)'), (lambda d: d.batch(3, drop_last=True), 'batch(3, drop_last=True)'),
                           (lambda d: d.batch(2, drop_last=True), 'batch(2, drop_last=True)'), (lambda d: d.batch(4, drop_last=True), 'batch(4, drop_last=True)'),
                           (lambda d: d[1:], 'ds[1:]'), (lambda d: d.concatenate(d), 'concatenate(ds, ds)'), (lambda d: d.concatenate(d[:2], d.map(_same15)), 'concatenate(ds, ds[:2], ds.map)'),
                           (lambda d: d.tile(3), 'tile(3)'), (lambda d: d.cache().batch(3), 'cache().batch(3)'), (lambda d: d.map(_same15).cache().batch(2), 'map.cache().batch(2)'),
                           (lambda d: d[::-1].batch(2), 'ds[::-1].batch(2)'), (lambda d: d.sort(_same15).batch(3), 'sort.batch(3)'), (lambda d: d.concatenate(d).batch(4), 'concatenate(ds, ds).batch(4)'), (lambda d: d[:1].concatenate(d, d[1:], d[:0], d), 'concatenate of five'), (lambda d: d.map(_same15), 'map'),
                           (lambda d: d.batch(2).map(_same15), 'batch(2).map'), (lambda d: d.batch(5, drop_last=True).map(_same15)[::-1], 'batch(5, drop_last=True).map[::-1]')):
            try:
                ds = make(ld.new(list(range(m))))
                whole = [repr(x) for x in ds]
            except Exception:
                continue
            n = len(whole)
            for k in range(-1, n + 3):
                count += 1
                try:
                    parts = [[repr(x) for x in sh] for sh in ds.split(k)]
                    refused = False
                except ValueError:
                    refused = True
                except Exception as e:
                    fails.append((m, k, None, f'new(range({m})).{what} ({n} examples).split({k}) raised {type(e).__name__}: {e}'[:300]))
                    continue
                if refused != (not 1 <= k <= n):
                    fails.append((m, k, None, f'new(range({m})).{what} delivers {n} examples: split({k}) was {"refused" if refused else "accepted"}'))
                    continue
                if refused:
                    continue
                sizes = [len(p) for p in parts]
                if [x for p in parts for x in p] != whole or len(parts) != k or max(sizes) - min(sizes) > 1:
                    fails.append((m, k, None, f'new(range({m})).{what}.split({k}): shards {parts} do not partition the {n} delivered examples {whole} evenly'[:500]))
                    continue
                try:
                    sh = [repr(x) for x in ds.shard(k, k - 1)]
                except Exception as e:
                    sh = f'raised {type(e).__name__}'
                if sh != parts[-1]:
                    fails.append((m, k, k - 1, f'new(range({m})).{what}.shard({k},{k - 1}) = {sh}, split({k})[{k - 1}] = {parts[-1]}'[:400]))
    return fails, count


def _same15(x):
    return x


def coq_sweep(N):
    """model vs numpy: split_sizes and array_split contents for all n <= N, all valid k, inside Coq"""
    d = common.fresh_dir('C15_sweep')
    f = os.path.join(d, 'sweep.v')
    rows = []
    for n in range(0, N + 1):
        for k in range(1, n + 1):
            parts = [list(map(int, p)) for p in np.array_split(np.arange(n), k)]
            rows.append('(%d, %d, [%s])' % (n, k, '; '.join('[' + '; '.join(map(str, p)) + ']' for p in parts)))
    with open(f, 'w') as fh:
        fh.write('From Coq Require Import List Arith Bool.\nImport ListNotations.\nRequire Import LD.Base LD.PySlice.\n')
        fh.write('Definition rows : list (nat * nat * list (list nat)) := [\n' + ';\n'.join(rows) + '].\n')
        fh.write('Eval vm_compute in (length (filter (fun r => negb (list_eqb (list_eqb Nat.eqb) (array_split (fst (fst r)) (snd (fst r))) (snd r))) rows)).\n')
    out = common.run_case_files([f])[f]
    m = re.search(r'=\s*(\d+)', out)
    return int(m.group(1)), len(rows)


def shard_nodes(r, count):
    out = []
    for _ in range(count):
        n = r.randint(0, 9)
        keyed = r.random() < 0.5
        src = Node('dict', (tuple((gen_a.KEYS[i], r.randint(-3, 9)) for i in range(n)), 'pickle')) if keyed else \
            Node('list', (tuple(r.randint(-3, 9) for _ in range(n)), r.choice(['pickle', 'wu'])))
        base = src
        if r.random() < 0.5:
            base = Node('map', (('FAdd', r.randint(1, 3)),), [base])
        w = r.random()
        m = n
        if w < 0.25:
            base = Node('get', (('slice', None, None, r.choice([2, -1])),), [base])
            m = len(range(n)[::base.a[0][3]])
        elif w < 0.45 and keyed and n:
            # the dataset being sharded is itself a selection by example keys / by positions / a sorted or concatenated one
            sel = r.sample(gen_a.KEYS[:n], r.randint(1, n))
            base = Node('get', (('keys', tuple(sel), r.choice(['list', 'tuple'])),), [base])
            m = len(sel)
        elif w < 0.6 and n:
            idx = [r.randrange(n) for _ in range(r.randint(1, n + 1))]
            base = Node('get', (('ints', tuple(idx), r.choice(['list', 'array'])),), [base])
            m = len(idx)
        elif w < 0.7:
            base = Node('sort', (('FKeyInt',), r.random() < 0.5), [base])
        elif w < 0.8 and not keyed:
            base = Node('concat', (), [base, Node('list', (tuple(range(3)), 'pickle'))])
            m = n + 3
        elif w < 0.92 and keyed and n:
            # a key_zip whose parts list the keys in different (rotated / randomly permuted) orders: positions resolve through the
            # key order of the first part
            ks = list(gen_a.KEYS[:n])
            rot = r.randrange(n)
            ks2 = ks[rot:] + ks[:rot] if r.random() < 0.5 else r.sample(ks, n)
            other = Node('dict', (tuple((kk, r.randint(10, 30)) for kk in ks2), 'pickle'))
            base = Node('keyzip', (), [base, other] + ([Node('dict', (tuple((kk, r.randint(40, 60)) for kk in r.sample(ks, n)), 'pickle'))] if r.random() < 0.3 else []))
        k = r.randint(-1, m + 2)
        out.append(Node('shard', (k, r.randint(-k - 1, k + 1) if k > 0 else 0), [base]))
    return out


def run(tier):
    ld = common.import_impl()
    r = common.rng_for('C15')
    N = 300 if tier == 'quick' else 1200
    fails, count = direct_sweep(ld, N)
    nbad, nrows = coq_sweep(40 if tier == 'quick' else 90)
    res = model_a.run_a('C15', tier, {'iter', 'index', 'keys'}, n_quick=0, n_thorough=0,
                        extra_nodes=shard_nodes(r, 400 if tier == 'quick' else 4000))
    for (n, k, i, msg) in fails[:20]:
        res['failures'].append(dict(kind='input', summary=f'n={n} k={k} i={i}: {msg}', config=dict(n=n, k=k, i=i)))
    if nbad:
        res['failures'].append(dict(kind='input', summary=f'PySlice.array_split differs from np.array_split on {nbad} of {nrows} (n, k) pairs', config={}))
    c = res['coverage']
    c.update(direct_nk_pairs=count, N=N, model_vs_numpy_pairs=nrows, model_vs_numpy_disagreements=nbad,
             exhaustive=True, explanation=f'all n <= {N}: every k in [-1, n+2] for n <= 60, all k <= 62 plus a stride above for larger n (direct predicate on the implementation); '
             f'array_split contents model vs numpy for all n <= {40 if tier == "quick" else 90}, all k')
    c['evaluations'] = c['programs'] + count + nrows
    return res


def replay(payload):
    if 'program' in payload:
        return model_a.replay_a(payload)
    ld = common.import_impl()
    c = payload['config']
    fails, _ = direct_sweep(ld, c['n']) if c.get('n') is not None else ([], 0)
    fails = [f for f in fails if f[0] == c.get('n') and f[1] == c.get('k')]
    print('  ', fails)
    return bool(fails)
