"""C18 - sorting and grouping reorder without losing or inventing examples (Model A + SortProofs.v)."""
import os, re, collections
from .. import common, model_a, gen_a, fnlib as F
from ..gen_a import Node

PROP_FILE = 'props/C18.v'

HEADER = gen_a.HEADER + "Require Import LD.BuildExtra LD.GroupTie.\n"


def payload(r, i):
    k = r.choice(['int', 'dict', 'tuple', 'list'])
    v = r.randint(0, 4)
    if k == 'int': return v
    if k == 'dict': return {'u': v, 'w': i}          # dicts are not comparable: sort must never compare examples
    if k == 'tuple': return (v, {'w': i})
    return [v, None]


def sort_nodes(r, count):
    out = []
    for _ in range(count):
        n = r.choice([0, 1, 2, 3, 4, 5, 6, 7, 8, 9])
        vals = [payload(r, i) for i in range(n)]
        keyed = r.random() < 0.6
        keys = r.sample(gen_a.KEYS, n)
        src = Node('dict', (tuple(zip(keys, vals)), 'pickle')) if keyed else Node('list', (tuple(vals), 'pickle'))
        d = src
        if r.random() < 0.3:
            d = Node('map', (('FAdd', r.randint(0, 2)),), [d])
        if r.random() < 0.25 and n:
            d = Node('get', (('ints', tuple(r.randint(0, n - 1) for _ in range(r.randint(1, n + 1))), 'list'),), [d])
        kf = r.choice([('FKeyInt',), ('FKeyNeg',), ('FKeyMod', 2), ('FKeyMod', 3), None, None])
        d = Node('sort', (kf, r.random() < 0.5), [d])
        if r.random() < 0.3:
            d = Node('sort', (r.choice([('FKeyMod', 2), None]), r.random() < 0.5), [d])
        out.append(d)
    return out


def sort_direct(c):
    """on the implementation alone: result is a permutation, sort keys monotone, keys stay attached"""
    if c.refused is not None or c.prog.op != 'sort':
        return []
    e = {}
    for (q, qt, kind, res) in c.entries:
        e.setdefault(q, res)
    it = e.get(('iter', False))
    if it is None or it[1] is not None:
        return []
    kf, rev = c.prog.a
    out = []
    if kf is not None:
        ks = [F.apply_f(kf, v) for v in it[0]]
        if any((a > b) if not rev else (a < b) for a, b in zip(ks, ks[1:])):
            out.append(dict(summary=f'sort keys not monotone (reverse={rev}): {ks}', got_from_impl=repr(it)))
    else:
        kk = e.get(('keys',))
        if kk and kk[0] == 'ok':
            ks = kk[1]
            if list(ks) != sorted(ks, reverse=rev):
                out.append(dict(summary=f'sort() by example keys (reverse={rev}) gave key order {ks}', got_from_impl=repr(ks)))
    return out


def group_cases(ld, r, count):
    cases = []
    for _ in range(count):
        n = r.randint(0, 8)
        vals = [payload(r, i) for i in range(n)]
        keyed = r.random() < 0.5
        src = Node('dict', (tuple(zip(gen_a.KEYS[:n], vals)), 'pickle')) if keyed else Node('list', (tuple(vals), 'pickle'))
        d = src
        if r.random() < 0.3:
            d = Node('map', (('FAdd', 1),), [d])
        if r.random() < 0.2:
            d = Node('filter', (('QP', ('PTrue',)), True), [d])      # not indexable: groupby must refuse
        gf = r.choice([('FKeyMod', 2), ('FKeyMod', 3), ('FKeyInt',), ('FRaiseIf', ('PEq', 2), 'EValue', 5, ('FKeyMod', 2))])
        try:
            obj = gen_a.build_impl(d, ld)
            groups = obj.groupby(F.PyF(gf))
            seen = [(k, gen_a.obs_iter(g, False)) for k, g in groups.items()]
        except Exception:
            seen = None
        cases.append((d, gf, seen))
    return cases


def group_direct(d, gf, seen, ld):
    if seen is None:
        return []
    try:
        allv = list(gen_a.build_impl(d, ld))
    except Exception:
        return []
    fails = []
    flat = [v for k, (vals, end) in seen for v in vals]
    if sorted(map(repr, flat)) != sorted(map(repr, allv)):
        fails.append(f'groups {seen} do not partition the dataset {allv}')
    for k, (vals, end) in seen:
        if end is not None or any(F.apply_f(gf, v) != k for v in vals):
            fails.append(f'group {k!r} holds {vals}')
        exp = [v for v in allv if F.apply_f(gf, v) == k]
        if list(map(repr, vals)) != list(map(repr, exp)):
            fails.append(f'group {k!r}: {vals} is not the dataset order {exp}')
    return fails


def coq_gcase(d, gf, seen):
    if seen is None:
        e = 'None'
    else:
        e = '(Some %s)' % F.coq_list(['(KInt %s, %s)' % (F.z(k), F.coq_trace(t)) for k, t in seen])
    return f'({gen_a.coq_prog(d)}, {F.coq_f(gf)}, {e})'


def eval_groups(cases, tag):
    d = common.fresh_dir(tag)
    f = os.path.join(d, 'g.v')
    with open(f, 'w') as fh:
        fh.write(HEADER)
        fh.write('Definition cases : list gcase := [\n' + ';\n'.join(coq_gcase(*c) for c in cases) + '\n].\n')
        fh.write('Definition bad := Eval vm_compute in gbad 0 cases.\nEval vm_compute in (map fst bad).\nPrint bad.\n')
    out = common.run_case_files([f])[f]
    head = out.split('bad =')[0]
    ids = [int(x) for x in re.findall(r'\d+', head[head.index('=') + 1:head.rindex(':')])] if '=' in head else []
    return ids, re.sub(r'\s+', ' ', out.split('bad =')[1])[:1500] if 'bad =' in out else ''


def group_ids_family(ld, r, count):
    """groupby with arbitrary hashable group ids - None, 0, '', (), strings, tuples, also for the very first example: every example
    lands in exactly the group of its id, groups keep the dataset order"""
    fails = []
    IDS = [None, None, 0, '', (), 'spk', 1, (1, 2), -1, 'None']
    for _ in range(count):
        n = r.randint(0, 8)
        ids = [r.choice(IDS) for _ in range(n)]
        if n and r.random() < 0.4:
            ids[0] = None                         # unannotated examples first
        keyed = r.random() < 0.5
        base = ld.new({f'key{i}': i for i in range(n)} if keyed else list(range(n)))
        stack = r.choice(['plain', 'map', 'slice'])
        d = base if stack == 'plain' else base.map(_same18) if stack == 'map' else base[::1]
        want = {}
        for i, g in enumerate(ids):
            want.setdefault(g, []).append(i)
        try:
            groups = d.groupby(lambda x, ids=ids: ids[x])
            got = {k: list(v) for k, v in groups.items()}
        except Exception as e:
            fails.append(f'groupby over {n} examples with group ids {ids!r} raised {type(e).__name__}: {e}'[:300])
            continue
        if got != want:
            fails.append(f'groupby over {n} examples ({"dict" if keyed else "list"} source, {stack}) with group ids {ids!r}: groups {got!r}, expected {want!r}'[:600])
    return fails


def _same18(x):
    return x


def intlike_key_family(ld, r, count):
    """sort() without a key function sorts by the example KEYS as strings - also when the keys look like integers ('2', '0', '-1',
    '10'); a selection by such keys selects by key, not by position"""
    fails = []
    for _ in range(count):
        n = r.randint(1, 7)
        pool = [str(x) for x in r.sample(range(-2, 12), n)]
        vals = {k: 100 + i for i, k in enumerate(pool)}
        ds = ld.new(dict(vals))
        rev = r.random() < 0.4
        stack = r.choice(['plain', 'map', 'sorted_first'])
        d = ds if stack == 'plain' else ds.map(_same18) if stack == 'map' else ds.sort(lambda v: -v)
        try:
            s_ = d.sort(reverse=rev)
            got = (list(s_.keys()), list(s_))
            want_keys = sorted(pool, reverse=rev)
            sel_keys = r.sample(pool, r.randint(1, n))
            sel = d[sel_keys]
            got_sel = (list(sel.keys()), list(sel))
        except Exception as e:
            fails.append(f'sort() / selection by keys over the integer-like keys {pool} raised {type(e).__name__}: {e}'[:300])
            continue
        if got != (want_keys, [vals[k] for k in want_keys]):
            fails.append(f'sort(reverse={rev}) by example keys over {vals} ({stack}): keys {got[0]}, examples {got[1]}; expected the keys in string order {want_keys}')
        elif got_sel != (sel_keys, [vals[k] for k in sel_keys]):
            fails.append(f'selection by the keys {sel_keys} over {vals} ({stack}): keys {got_sel[0]}, examples {got_sel[1]}')
    return fails


class _FalsyKey:
    """a key function object whose truth value is False (a memoising callable whose len() is the size of its still empty memo, a
    callable with __bool__): it is still THE key function"""
    def __init__(self, table, style):
        self.table, self.style, self.memo = table, style, {}

    def __call__(self, x):
        return self.table[x]

    def __len__(self):
        if self.style == 'len0':
            return 0
        raise TypeError('no len')

    def __bool__(self):
        return False


def falsy_key_fn_family(ld, r, count):
    fails = []
    for _ in range(count):
        n = r.randint(2, 7)
        table = {i: r.randint(0, 4) for i in range(n)}
        keyed = r.random() < 0.6
        rev = r.random() < 0.4
        base = ld.new({f'key{n - i}': i for i in range(n)} if keyed else list(range(n)))
        try:
            want = list(base.sort(lambda x: table[x], reverse=rev))
            got = list(base.sort(_FalsyKey(table, r.choice(['len0', 'bool'])), reverse=rev))
        except Exception as e:
            fails.append(f'sort with a key function object whose truth value is False raised {type(e).__name__}: {e}'[:300])
            continue
        if got != want:
            fails.append(f'sort(key_fn=<callable object with a false truth value>, reverse={rev}) over {"dict" if keyed else "list"} source with sort values {table}: {got}; the same key function as a plain function gives {want}')
    return fails


def custom_sort_fn(ld, r, count):
    """a custom sort_fn returning a sorted permutation must give the same result as the default"""
    fails = []
    for _ in range(count):
        n = r.randint(0, 7)
        vals = [r.randint(0, 4) for _ in range(n)]
        ds = ld.new({gen_a.KEYS[i]: {'v': v} for i, v in enumerate(vals)})
        rev = r.random() < 0.5
        mine = lambda it, reverse=False: list(reversed(sorted(it, reverse=not reverse)))
        try:
            a = list(ds.sort(lambda e: e['v'], reverse=rev).items())
            b = list(ds.sort(lambda e: e['v'], sort_fn=mine, reverse=rev).items())
        except Exception as e:
            fails.append(f'sort(key_fn, reverse={rev}) of a dataset of {n} examples with sort values {vals} raised {type(e).__name__}: {e}'[:300])
            continue
        if [x[1] for x in a] != [x[1] for x in b] and sorted(vals, reverse=rev) != [x[1]['v'] for x in b]:
            fails.append(f'custom sort_fn: {b} vs default {a}')
        # a sort_fn whose order differs from the builtin one decides the result: without key_fn it is applied to the example keys
        # (natural order: shorter keys first), with key_fn to the (sort value, position) pairs
        calls = []

        def natural(it, reverse=False):
            calls.append(1)
            return sorted(it, key=lambda k: (len(k), k) if isinstance(k, str) else (-k[0], k[1]), reverse=reverse)
        keys = list(ds.keys())
        want = natural(keys, reverse=rev)
        try:
            got = list(ds.sort(sort_fn=natural, reverse=rev).keys())
        except Exception as e:
            got = f'raised {type(e).__name__}'
        if got != want:
            fails.append(f'sort(sort_fn=natural order, reverse={rev}) over keys {keys}: result keys {got}, sort_fn orders them {want}')
        elif len(calls) < 2 and n:
            fails.append('sort(sort_fn=...) without key_fn never called the given sort_fn')
        import itertools
        wantv = [keys[i] for _, i in natural(list(zip(vals, itertools.count())), reverse=rev)]
        try:
            gotv = list(ds.sort(lambda e: e['v'], sort_fn=natural, reverse=rev).keys())
        except Exception as e:
            gotv = f'raised {type(e).__name__}'
        if gotv != wantv:
            fails.append(f'sort(key_fn, sort_fn=custom order, reverse={rev}) over values {vals}: result keys {gotv}, sort_fn orders them {wantv}')
    return fails


def run(tier):
    ld = common.import_impl()
    r = common.rng_for('C18')
    big = tier != 'quick'
    res = model_a.run_a('C18', tier, {'iter', 'index', 'keys'}, n_quick=300, n_thorough=6000, direct=sort_direct,
                        gen_kwargs=dict(structured=0.4, ops={'map', 'sort', 'sortkeys', 'slice', 'ints', 'keys', 'concat', 'items', 'filter_eager', 'tile', 'shuffle'}),
                        extra_nodes=sort_nodes(r, 6000 if big else 600))
    res.pop('cases', None)
    gc = group_cases(ld, r, 3000 if big else 300)
    bad, dump = eval_groups(gc, f'C18g_{tier}')
    for i in bad:
        res['failures'].append(dict(kind='program', summary=f'groupby: model and implementation disagree on {gen_a.coq_prog(gc[i][0])[:200]} group_fn={gc[i][1]} impl={gc[i][2]!r}'[:500],
                                    model_says=dump[:600], got_from_impl=repr(gc[i][2])[:500]))
    for (d, gf, seen) in gc:
        for msg in group_direct(d, gf, seen, ld):
            res['failures'].append(dict(kind='program', summary='groupby: ' + msg[:400], coq_prog=gen_a.coq_prog(d)))
            break
    for msg in custom_sort_fn(ld, r, 400 if big else 60):
        res['failures'].append(dict(kind='program', summary=msg[:400]))
    for msg in group_ids_family(ld, common.rng_for('C18-gids'), 3000 if big else 300):
        res['failures'].append(dict(kind='program', summary=msg[:600]))
    res['coverage']['groupby_arbitrary_id_cases'] = 3000 if big else 300
    for msg in falsy_key_fn_family(ld, common.rng_for('C18-falsykey'), 600 if big else 60):
        res['failures'].append(dict(kind='program', summary=msg[:600]))
    for msg in intlike_key_family(ld, common.rng_for('C18-intkeys'), 1500 if big else 150):
        res['failures'].append(dict(kind='program', summary=msg[:600]))
    res['coverage'].update(groupby_cases=len(gc), groupby_disagreements=len(bad),
                           groupby_refused=sum(1 for c in gc if c[2] is None))
    res['coverage']['evaluations'] = res['coverage']['programs'] + len(gc)
    return res


def replay(payload):
    if 'program' in payload:
        return model_a.replay_a(payload)
    return True
