"""C12 - every shuffle is a permutation, for every iterator in flight (Model F, Shuffle.v).
The random generator is an oracle: what numpy produced is recorded and fed to the model."""
import os, re, itertools, collections
import numpy as np
from .. import common

PROP_FILE = 'props/C12.v'
TRUSTED = ['numpy RNG contract only: rng.shuffle permutes in place, rng.choice(B) returns an int below B, '
           'choice(n, size, replace=False) returns distinct indices']

HEADER = """From Coq Require Import List Arith Bool.
Import ListNotations.
Require Import LD.Shuffle LD.ShuffleTie LD.ShuffleFreeze LD.ShuffleCopies LD.LocalIter.
"""


class _Skip(Exception):
    pass


class RecRng:
    """wraps a RandomState and records, for every draw, the oracle value the model needs"""
    def __init__(self, seed):
        self.r = np.random.RandomState(seed)
        self.draws = []

    def shuffle(self, x):
        old = list(x)
        self.r.shuffle(x)
        new = list(x)
        # new[i] = old[sigma[i]]; buffers may hold duplicate values: match positions greedily
        used, sigma = set(), []
        for v in new:
            for j, w in enumerate(old):
                if j not in used and (w is v or w == v):
                    used.add(j); sigma.append(j)
                    break
        self.draws.append(('shuffle', sigma))

    def choice(self, a, size=None, replace=True):
        c = self.r.choice(a, size=size, replace=replace)
        self.draws.append(('choice', int(c) if size is None else [int(x) for x in np.atleast_1d(c)]))
        return c


def nl(xs):
    return '[' + '; '.join(f'{x}%nat' for x in xs) + ']'


def reshuffle_case(ld, n, seed, script):
    """script: list of iterator numbers; the k-th occurrence of a number is that iterator's k-th next().
    Returns (model ops, observed outputs per iterator, per-iterator completed?)"""
    rng = RecRng(seed)
    ds = ld.new(list(range(n))).shuffle(True, rng=rng)
    its, outs, done, ops = {}, {}, {}, []
    order = []
    for it in script:
        if it not in its:
            its[it] = iter(ds)
            outs[it] = []
            done[it] = False
            order.append(it)
            nd = len(rng.draws)
            try:
                v = next(its[it])
            except StopIteration:
                v = None
                done[it] = True
            assert len(rng.draws) == nd + 1, 'the first next() must shuffle exactly once'
            ops.append('RStart ' + nl(rng.draws[-1][1]))
            ops.append(f'RNext {order.index(it)}%nat')
            if v is not None:
                outs[it].append(int(v))
        else:
            try:
                outs[it].append(int(next(its[it])))
            except StopIteration:
                done[it] = True
            ops.append(f'RNext {order.index(it)}%nat')
    return ops, [outs[i] for i in order], [done[i] or len(outs[i]) == n for i in order], order


def interleaved(script):
    """did some iterator start while another was still in flight?"""
    started, seen = [], collections.Counter()
    return len(set(script)) > 1


def local_case(ld, n, B, seed, with_key=False):
    rng = RecRng(seed)
    ds = ld.new({f'k{i}': i for i in range(n)}).shuffle(True, rng=rng, buffer_size=B)
    if with_key:
        out = [int(v) for k, v in ds.items()]
    else:
        out = [int(x) for x in ds]
    choices = [d[1] for d in rng.draws if d[0] == 'choice']
    sig = [d[1] for d in rng.draws if d[0] == 'shuffle']
    return choices, sig[-1] if sig else [], out


def run(tier):
    ld = common.import_impl()
    r = common.rng_for('C12')
    failures, known = [], []
    rcases, rmeta = [], []
    # (a) reshuffle: interleavings of next() of 1..3 iterators over one object
    scripts = []
    big = tier != 'quick'
    for n in range(0, 4):
        for k in (1, 2, 3):
            base = [i for i in range(k) for _ in range(n + 1)]
            perms = set(itertools.permutations(base)) if len(base) <= (8 if big else 6) else None
            if perms is None:
                perms = set()
                for _ in range(400 if big else 40):
                    b = base[:]
                    r.shuffle(b)
                    perms.add(tuple(b))
            perms = sorted(perms)
            if not big and len(perms) > 60:
                perms = r.sample(perms, 60)
            for s in perms:
                scripts.append((n, list(s)))
    for _ in range(2000 if big else 150):
        n = r.randint(0, 9)
        k = r.choice([1, 1, 2, 3])
        base = [i for i in range(k) for _ in range(n + 1)]
        r.shuffle(base)
        scripts.append((n, base[:r.randint(0, len(base))]))
    f9_seen = False
    for (n, script) in scripts:
        common.tick()
        ops, outs, complete, order = reshuffle_case(ld, n, r.randint(0, 10 ** 6), script)
        rcases.append(f'({n}%nat, [{"; ".join(ops)}], [{"; ".join(nl(o) for o in outs)}])')
        rmeta.append((n, script, outs))
        for o, c in zip(outs, complete):
            if len(set(o)) != len(o) or (c and sorted(o) != list(range(n))):
                # not a permutation: genuine violation unless another iterator started in between (F9)
                f = dict(kind='history', summary=f'reshuffle n={n} next()-script {script}: an iterator yielded {o}, not a permutation of range({n})',
                         config=dict(kind='reshuffle', n=n, script=script), got_from_impl=repr(outs))
                if len(set(script)) > 1:
                    f['finding_id'] = 'F9'
                    f['summary'] = ('two iterators over one shuffle(reshuffle=True) object: the second start reshuffles the shared index array in place, '
                                    f'outputs are not permutations (e.g. n={n}, script {script} -> {outs})')
                failures.append(f)
                break
    # the self-zip composition creates exactly such an interleaving
    rs = ld.new(list(range(4))).shuffle(True, rng=np.random.RandomState(3))
    z = [tuple(int(a) for a in p) for p in ld.zip(rs, rs)]
    if sorted(a for a, b in z) != [0, 1, 2, 3] or sorted(b for a, b in z) != [0, 1, 2, 3]:
        failures.append(dict(kind='history', finding_id='F9', summary=f'zip(rs, rs) of one reshuffle object yields {z}: columns are not permutations',
                             config=dict(kind='selfzip')))
    # a plain copy() of a pipeline that names one reshuffle object several times (zip, intersperse, key_zip, concatenate) holds a copy
    # of its own per position: its iterations are permutations again (the uncopied self-zip above is the known finding F9)
    for _ in range(300 if big else 40):
        n = r.randint(1, 6)
        rs = ld.new({f'key{i}': i for i in range(n)}).shuffle(True, rng=np.random.RandomState(r.randint(0, 10 ** 6)))
        how = r.choice(['zip', 'intersperse', 'zip3', 'zip_map', 'key_zip?'])
        try:
            if how == 'zip': c = ld.zip(rs, rs).copy()
            elif how == 'zip3': c = ld.zip(rs, rs, rs).copy()
            elif how == 'zip_map': c = ld.zip(rs, rs).map(lambda t: t).copy()
            elif how == 'intersperse': c = ld.intersperse(rs, rs).copy()
            else: c = ld.zip(rs.map(int), rs).copy()
            for epoch in range(2):
                out = list(c)
                if how == 'intersperse':
                    ok = collections.Counter(int(x) for x in out) == collections.Counter(list(range(n)) * 2)
                else:
                    ok = all(sorted(int(t[j]) for t in out) == list(range(n)) for j in range(len(out[0]) if out else 0)) and len(out) == n
                if not ok:
                    failures.append(dict(kind='history', summary=f'copy() of {how} over ONE reshuffle object named several times (n={n}), epoch {epoch + 1}: {out} - every position must contribute a permutation of the {n} examples'[:500],
                                         config=dict(kind='selfcopy', n=n, how=how)))
                    break
        except Exception as e:
            failures.append(dict(kind='history', summary=f'copy() of {how} over one reshuffle object raised {type(e).__name__}: {e}'[:300], config=dict(kind='selfcopy', n=n, how=how)))
    # two iterations IN FLIGHT over one multi-worker prefetch object above a per-epoch reshuffle (each iteration works on a frozen copy of
    # its own): the one that was started first, interrupted by a complete second one, still delivers a permutation
    for _ in range(60 if big else 10):
        n = r.randint(4, 9)
        w, b = r.choice([(2, 2), (2, 3), (3, 3)])
        how = r.choice(['values', 'values', 'selfzip'])
        try:
            p = ld.new(list(range(n))).shuffle(True, rng=np.random.RandomState(r.randint(0, 10 ** 6))).prefetch(w, b)
            if how == 'selfzip':
                cols = list(zip(*[(int(a), int(c)) for a, c in zip(p, p)]))
                outs_p = [list(c) for c in cols]
            else:
                it1 = iter(p)
                first = [int(next(it1)) for _k in range(r.randint(1, 2))]
                second = [int(x) for x in p]
                first += [int(x) for x in it1]
                outs_p = [first, second]
            if any(sorted(o) != list(range(n)) for o in outs_p):
                failures.append(dict(kind='history', summary=f'prefetch({w}, {b}) above a reshuffle of {n} examples, two iterations in flight over the same prefetch object ({how}): {outs_p} - each must be a permutation'[:500],
                                     config=dict(kind='prefetch2', n=n, w=w, b=b, how=how)))
        except Exception as e:
            failures.append(dict(kind='history', summary=f'two iterations in flight over prefetch({w}, {b}) above a reshuffle raised {type(e).__name__}: {e}'[:300], config=dict(kind='prefetch2', n=n)))
    # shuffles of examples that include None / other falsy values, read through the compositions that put two iterations in flight
    # (self-intersperse, self-zip): every example - the falsy ones too - is delivered once per position
    for _ in range(200 if big else 30):
        vals = [r.choice([None, 0, '', (), 7, 'x', False]) for _i in range(r.randint(1, 6))]
        vals = [(i, v) if r.random() < 0.0 else v for i, v in enumerate(vals)]
        kind = r.choice(['local', 'once', 'local_big'])
        seed = r.randint(0, 10 ** 6)
        base = ld.new(list(vals))
        try:
            sh = base.shuffle(True, rng=np.random.RandomState(seed), buffer_size=3) if kind == 'local' else \
                base.shuffle(False, rng=np.random.RandomState(seed)) if kind == 'once' else base.shuffle(True, rng=np.random.RandomState(seed), buffer_size=50)
            out_i = [repr(x) for x in ld.intersperse(sh, sh)]
            out_z = [tuple(repr(y) for y in t) for t in ld.zip(sh, sh)]
            want = collections.Counter(repr(v) for v in vals)
            ok = collections.Counter(out_i) == collections.Counter({k: 2 * c for k, c in want.items()}) and \
                all(collections.Counter(col) == want for col in (zip(*out_z) if out_z else [[], []])) and len(out_z) == len(vals)
            if not ok:
                failures.append(dict(kind='history', summary=f'{kind} shuffle of {vals!r}: self-intersperse delivers {out_i}, self-zip {out_z} - every example must appear once per position'[:500],
                                     config=dict(kind='falsy_shuffle', vals=[repr(v) for v in vals], how=kind)))
        except Exception as e:
            failures.append(dict(kind='history', summary=f'{kind} shuffle of {vals!r} in a self-intersperse / self-zip raised {type(e).__name__}: {e}'[:300], config=dict(kind='falsy_shuffle')))
    # (b) local shuffle
    lcases, lmeta = [], []
    for _ in range(3000 if big else 300):
        common.tick()
        n = r.randint(0, 9)
        B = r.randint(1, n + 1)
        wk = r.random() < 0.3
        ch, sg, out = local_case(ld, n, B, r.randint(0, 10 ** 6), wk)
        lcases.append(f'({B}%nat, {nl(ch)}, {nl(sg)}, {n}%nat, {nl(out)})')
        lmeta.append((n, B, out))
        if sorted(out) != list(range(n)):
            failures.append(dict(kind='history', summary=f'local shuffle n={n} B={B}: {out} is not a permutation', config=dict(kind='local', n=n, B=B)))
        elif any(j > i + B - 1 for i, j in enumerate(out)):
            failures.append(dict(kind='history', summary=f'local shuffle n={n} B={B}: {out} emits an example more than B-1 positions early', config=dict(kind='local', n=n, B=B)))
    # copies of a local shuffle (explicit, frozen, behind a mapped stage, through a lazy apply) keep its window: permutation + locality
    for _ in range(600 if big else 80):
        common.tick()
        n, B = r.randint(0, 9), r.randint(1, 5)
        seed = r.randint(0, 10 ** 6)
        base = ld.new(list(range(n))).shuffle(True, rng=np.random.RandomState(seed), buffer_size=B)
        how = r.choice(['copy', 'freeze', 'map_copy', 'lazyapply', 'copy_copy'])
        try:
            if how == 'copy': c = base.copy()
            elif how == 'freeze': c = base.copy(freeze=True)
            elif how == 'map_copy': c = base.map(int).copy()
            elif how == 'copy_copy': c = base.copy().copy(freeze=True)
            else: c = ld.new(list(range(n))).apply(lambda d, s=seed, b=B: d.shuffle(True, rng=np.random.RandomState(s), buffer_size=b), lazy=True)
            out = [int(x) for x in c]
        except Exception as e:
            failures.append(dict(kind='history', summary=f'{how} of a local shuffle (n={n}, buffer_size={B}) raised {type(e).__name__}: {e}', config=dict(kind='localcopy', n=n, B=B, how=how)))
            continue
        if sorted(out) != list(range(n)):
            failures.append(dict(kind='history', summary=f'{how} of a local shuffle n={n} buffer_size={B}: {out} is not a permutation', config=dict(kind='localcopy', n=n, B=B, how=how)))
        elif any(j > i + B - 1 for i, j in enumerate(out)):
            failures.append(dict(kind='history', summary=f'{how} of a local shuffle n={n} buffer_size={B}: {out} emits an example more than buffer_size - 1 positions early', config=dict(kind='localcopy', n=n, B=B, how=how)))
    licases, limeta = [], []
    # two or three local-shuffle iterators in flight over one object, started at different times and advanced in any order
    # (random next()-scripts, plus the staggered ones in which an iterator makes its first step while another one is in its tail
    # phase): buffers are per iterator, so every iterator yields a permutation within its window
    for _ in range(600 if big else 120):
        n, B = r.randint(1, 6), r.randint(1, 7)
        k = r.choice([2, 2, 3])
        lrng = RecRng(r.randint(0, 999))
        ds = ld.new(list(range(n))).shuffle(True, rng=lrng, buffer_size=B)
        script = [i for i in range(k) for _j in range(n + 1)]
        mode = r.random()
        if mode < 0.5:
            r.shuffle(script)
        elif mode < 0.8:
            # iterator 0 runs until only t items of its tail are left, then the others run, then it finishes
            t = r.randint(0, min(n, B))
            script = [0] * (n - t) + [i for i in range(1, k) for _j in range(n + 1)] + [0] * (t + 1)
        else:
            cut = r.randint(0, n)
            script = [0] * cut + [1] * (n + 1) + [0] * (n + 1 - cut) + [2] * (n + 1 if k == 3 else 0)
        its, outs2 = {}, {}
        lops, order2 = [], []
        try:
            for i in script:
                if i not in its:
                    its[i] = iter(ds); outs2[i] = []
                    order2.append(i)
                    lops.append('LStart')
                nd = len(lrng.draws)
                try:
                    outs2[i].append(int(next(its[i])))
                except StopIteration:
                    pass
                new = lrng.draws[nd:]
                # one next() draws at most once: the choice of the element to pop, or the final shuffle of the left-overs
                cdraw = [d[1] for d in new if d[0] == 'choice']
                sdraw = [d[1] for d in new if d[0] == 'shuffle']
                if len(new) > 1:
                    failures.append(dict(kind='history', summary=f'one next() of a local-shuffle iterator drew {len(new)} times from the generator: {new}', config=dict(kind='local2', n=n, B=B, script=script)))
                sig = f'(fun m => if Nat.eqb m {len(sdraw[0])} then {nl(sdraw[0])} else seq 0 m)' if sdraw else '(fun m => seq 0 m)'
                lops.append(f'LNext {order2.index(i)}%nat {cdraw[0] if cdraw else 0}%nat {sig}')
        except Exception as e:
            failures.append(dict(kind='history', summary=f'local-shuffle iterators in flight (n={n}, buffer_size={B}, script {script}) raised {type(e).__name__}: {e}'[:400], config=dict(kind='local2', n=n, B=B, script=script)))
            continue
        licases.append(f'({B}%nat, {nl(range(n))}, [{"; ".join(lops)}], [{"; ".join(nl(outs2[i]) for i in order2)}])')
        limeta.append((n, B, script, [outs2[i] for i in order2]))
        for i, o in outs2.items():
            if sorted(o) != list(range(n)) or any(j > p + B - 1 for p, j in enumerate(o)):
                failures.append(dict(kind='history', summary=f'local shuffle n={n} buffer_size={B}, iterators in flight advanced by the next()-script {script}: iterator {i} yielded {o} - '
                                     f'not a permutation of range({n}) within its window'[:600], config=dict(kind='local2', n=n, B=B, script=script)))
                break
    # (a'') plain (non-frozen) copies of a reshuffle object - explicit copy(), copy of a copy, a copy taken through a mapped
    #       stage, the copy the profiling wrapper takes - are objects of their own: with at most ONE iterator in flight per object,
    #       interleaved with epochs of the original and of the other copies, every iterator yields a permutation
    ncopyobj = 0
    ccases, cmeta = [], []
    for _ in range(1500 if big else 200):
        common.tick()
        n = r.randint(0, 6)
        seed = r.randint(0, 10 ** 6)
        rng = RecRng(seed)
        rs = ld.new(list(range(n))).shuffle(True, rng=rng)
        objs, cops = [rs], []
        for _c in range(r.choice([1, 1, 2])):
            how = r.choice(['copy', 'copy_copy', 'map_copy', 'profile', 'copy_of_other'])
            try:
                if how == 'copy': objs.append(rs.copy()); cops.append('CCopy 0%nat')
                elif how == 'copy_copy':
                    # the intermediate copy is an object as well (never iterated)
                    mid = rs.copy(); cops.append('CCopy 0%nat')
                    objs.append(mid); objs.append(mid.copy()); cops.append(f'CCopy {len(objs) - 2}%nat')
                elif how == 'map_copy': objs.append(rs.map(int).copy()); cops.append('CCopy 0%nat')
                elif how == 'profile': objs.append(ld.core.ProfilingDataset(rs)); cops.append('CCopy 0%nat')
                else: objs.append(objs[-1].copy()); cops.append(f'CCopy {len(objs) - 2}%nat')
            except Exception as e:
                failures.append(dict(kind='history', summary=f'{how} of a reshuffle dataset raised {type(e).__name__}: {e}'[:300], config=dict(kind='copyobj', n=n)))
        if rng.draws:
            failures.append(dict(kind='history', summary=f'copying a reshuffle dataset consumed random numbers: {rng.draws[:2]}', config=dict(kind='copyobj', n=n)))
            continue
        ncopyobj += 1
        script = [i for i in range(len(objs)) for _ in range(2 * (n + 1))]       # two epochs per object, one iterator in flight per object
        r.shuffle(script)
        its, cur, done = {}, {}, []
        started = collections.Counter()
        per_obj = {o: [] for o in range(len(objs))}
        try:
            for o in script:
                if o not in its:
                    nd = len(rng.draws)
                    its[o] = iter(objs[o]); cur[o] = []
                    try:
                        first = next(its[o])
                    except StopIteration:
                        first = StopIteration
                    new = rng.draws[nd:]
                    if len(new) != 1:
                        failures.append(dict(kind='history', summary=f'start of an epoch over a reshuffle dataset / a plain copy drew {len(new)} times from the generator (expected once)', config=dict(kind='copyobj', n=n, script=script)))
                        raise _Skip()
                    cops.append(f'COn {o}%nat (RStart {nl(new[0][1])})')
                    cops.append(f'COn {o}%nat (RNext {started[o]}%nat)')
                    per_obj[o].append(cur[o])
                    started[o] += 1
                    if first is StopIteration:
                        done.append((o, cur[o])); del its[o]
                    else:
                        cur[o].append(int(first))
                    continue
                cops.append(f'COn {o}%nat (RNext {started[o] - 1}%nat)')
                try:
                    cur[o].append(int(next(its[o])))
                except StopIteration:
                    done.append((o, cur[o]))
                    del its[o]
        except _Skip:
            continue
        except Exception as e:
            failures.append(dict(kind='history', summary=f'interleaved epochs over a reshuffle dataset and its copies raised {type(e).__name__}: {e}'[:300], config=dict(kind='copyobj', n=n, script=script)))
            continue
        bad = [(o, out) for o, out in done if sorted(out) != list(range(n))] + [(o, out) for o, out in cur.items() if o in its and len(set(out)) != len(out)]
        if bad:
            failures.append(dict(kind='history', summary=f'reshuffle dataset (n={n}) and {len(objs) - 1} plain copies, one iterator in flight per object, next()-script {script}: '
                                 f'object {bad[0][0]} yielded {bad[0][1]}, not a permutation of range({n})'[:600], config=dict(kind='copyobj', n=n, script=script)))
        exp = '[' + '; '.join('[' + '; '.join(nl(x) for x in per_obj[o]) + ']' for o in range(len(objs))) + ']'
        ccases.append(f'({n}%nat, [{"; ".join(cops)}], {exp})')
        cmeta.append((n, seed, script, {o: per_obj[o] for o in per_obj}))
    # (a') frozen copies of a reshuffle object in flight (explicit copy(freeze=True), and the implicit ones taken by catch / lazy apply
    #      at the start of every iteration): later epochs of the same object must not disturb them.  Tied to ShuffleFreeze.v:
    #      every draw of the generator is recorded and fed to the model as the oracle of FFreeze / RStart.
    nfrozen = 0
    fcases, fmeta = [], []
    for _ in range(1500 if big else 200):
        common.tick()
        n = r.randint(0, 7)
        seed = r.randint(0, 10 ** 6)
        rng = RecRng(seed)
        rs = ld.new(list(range(n))).shuffle(True, rng=rng)
        kind = r.choice(['freeze', 'catch', 'lazyapply', 'freeze_catch'])
        ops = []
        ncopies = 0
        if kind == 'freeze':
            mk = lambda: iter(rs.copy(freeze=True))
        elif kind == 'catch':
            c = rs.catch()
            mk = lambda: iter(c)
        elif kind == 'lazyapply':
            c = rs.apply(lambda d: d, lazy=True)
            mk = lambda: iter(c)
        else:
            c = rs.copy(freeze=True).catch()
            mk = lambda: iter(c)
        for d in rng.draws:
            ops.append('FFreeze ' + nl(d[1])); ncopies += 1
        k = r.choice([2, 2, 3])
        script = [i for i in range(k) for _ in range(n + 1)]
        r.shuffle(script)
        if r.random() < 0.3:
            script.insert(r.randint(0, len(script)), 'epoch')      # a complete epoch of the bare reshuffle object in between
        its, outs, mit = {}, {}, {}
        try:
            for st in script:
                nd = len(rng.draws)
                if st == 'epoch':
                    list(rs)
                    for d in rng.draws[nd:]:
                        ops.append('FSrc (RStart ' + nl(d[1]) + ')')
                    continue
                if st not in its:
                    its[st] = mk(); outs[st] = []
                    for d in rng.draws[nd:]:
                        ops.append('FFreeze ' + nl(d[1])); ncopies += 1
                    if kind == 'freeze_catch' or len(rng.draws) > nd:
                        mit[st] = len(mit)
                        ops.append(f'FStart {0 if kind == "freeze_catch" else ncopies - 1}%nat')
                    nd = len(rng.draws)
                try:
                    outs[st].append(int(next(its[st])))
                except StopIteration:
                    pass
                for d in rng.draws[nd:]:
                    ops.append('FFreeze ' + nl(d[1])); ncopies += 1
                if st not in mit:
                    mit[st] = len(mit)
                    ops.append(f'FStart {ncopies - 1}%nat')
                ops.append(f'FNext {mit[st]}%nat')
        except Exception as e:
            failures.append(dict(kind='history', summary=f'{kind} over reshuffle n={n} seed={seed} script={script}: raised {type(e).__name__}: {e}', config=dict(kind='frozen', n=n, seed=seed, script=script, how=kind)))
            continue
        nfrozen += 1
        order = sorted(mit, key=lambda x: mit[x])
        fcases.append(f'({n}%nat, [{"; ".join(ops)}], [{"; ".join(nl(outs[i]) for i in order)}])')
        fmeta.append((kind, n, seed, script, [outs[i] for i in order]))
        for i, o in outs.items():
            if sorted(o) != list(range(n)):
                failures.append(dict(kind='history', summary=f'{kind} over reshuffle n={n} seed={seed} next()-script {script}: iterator {i} yielded {o}, not a permutation of range({n})',
                                     config=dict(kind='frozen', n=n, seed=seed, script=script, how=kind), got_from_impl=repr(outs)))
                break
    # (c) one-time shuffle, shuffled tiling, sampling without replacement: permutation predicates
    nsel = 0
    for _ in range(1500 if big else 200):
        n = r.randint(0, 9)
        ds = ld.new({f'k{i}': i for i in range(n)})
        seed = r.randint(0, 10 ** 6)
        o = [int(x) for x in ds.shuffle(False, rng=np.random.RandomState(seed))]
        nsel += 1
        if sorted(o) != list(range(n)):
            failures.append(dict(kind='history', summary=f'one-time shuffle of range({n}) gave {o}', config=dict(kind='once', n=n, seed=seed)))
        if n:
            reps = r.randint(1, 3)
            np.random.seed(seed)
            t = [int(x) for x in ds.tile(reps, shuffle=True)]
            if sorted(t) != sorted(list(range(n)) * reps) or any(sorted(t[i * n:(i + 1) * n]) != list(range(n)) for i in range(reps)):
                failures.append(dict(kind='history', summary=f'tile({reps}, shuffle=True) of range({n}) gave {t}', config=dict(kind='tile', n=n, seed=seed)))
            size = r.randint(0, n)
            c = [int(x) for x in ds.random_choice(size, rng_state=np.random.RandomState(seed))]
            if len(c) != size or len(set(c)) != len(c) or not set(c) <= set(range(n)):
                failures.append(dict(kind='history', summary=f'random_choice({size}) without replacement of range({n}) gave {c}', config=dict(kind='choice', n=n, seed=seed)))
    # model side
    d = common.fresh_dir(f'C12_{tier}')
    f = os.path.join(d, 's.v')
    with open(f, 'w') as fh:
        fh.write(HEADER)
        fh.write('Definition rcases : list rcase := [\n' + ';\n'.join(rcases) + '\n].\n')
        fh.write('Definition lcases : list lcase := [\n' + ';\n'.join(lcases) + '\n].\n')
        fh.write('Definition fcases : list fcase := [\n' + ';\n'.join(fcases) + '\n].\n')
        fh.write('Definition ccases : list ccase := [\n' + ';\n'.join(ccases) + '\n].\n')
        fh.write('Definition licases : list licase := [\n' + ';\n'.join(licases) + '\n].\n')
        fh.write('Eval vm_compute in (bad rcase_ok 0 rcases).\nEval vm_compute in (bad lcase_ok 0 lcases).\nEval vm_compute in (fbad 0 fcases).\nEval vm_compute in (cbad 0 ccases).\nEval vm_compute in (libad 0 licases).\n')
    out = common.run_case_files([f])[f]
    parts = re.split(r'\n\s*=\s', '\n' + out)
    rb = [int(x) for x in re.findall(r'\d+', parts[1].split(':')[0])]
    lb = [int(x) for x in re.findall(r'\d+', parts[2].split(':')[0])]
    for i in [int(x) for x in re.findall(r'\d+', parts[3].split(':')[0])]:
        m = fmeta[i]
        failures.append(dict(kind='history', summary=f'frozen copies: model and implementation disagree on {m[0]} n={m[1]} seed={m[2]} script={m[3]} impl={m[4]}',
                             config=dict(kind='frozen', n=m[1], seed=m[2], script=m[3], how=m[0])))
    for i in [int(x) for x in re.findall(r'\d+', parts[4].split(':')[0])]:
        m = cmeta[i]
        failures.append(dict(kind='history', summary=f'plain copies of a reshuffle dataset: model (ShuffleCopies.v: every object has its own index array) and implementation disagree on n={m[0]} seed={m[1]} script={m[2]} impl={m[3]}'[:700],
                             config=dict(kind='copyobj', n=m[0], seed=m[1], script=m[2])))
    for i in [int(x) for x in re.findall(r'\d+', parts[5].split(':')[0])]:
        m = limeta[i]
        failures.append(dict(kind='history', summary=f'local-shuffle iterators in flight: model (LocalIter.v: every iterator owns its buffer) and implementation disagree on n={m[0]} buffer_size={m[1]} next()-script={m[2]} impl={m[3]}'[:700],
                             config=dict(kind='local2', n=m[0], B=m[1], script=m[2])))
    for i in rb:
        failures.append(dict(kind='history', summary=f'reshuffle: model and implementation disagree on n={rmeta[i][0]} script={rmeta[i][1]} impl={rmeta[i][2]}',
                             config=dict(kind='reshuffle', n=rmeta[i][0], script=rmeta[i][1])))
    for i in lb:
        failures.append(dict(kind='history', summary=f'local shuffle: model and implementation disagree on n={lmeta[i][0]} B={lmeta[i][1]} impl={lmeta[i][2]}',
                             config=dict(kind='local', n=lmeta[i][0], B=lmeta[i][1])))
    cov = dict(programs=len(rcases) + len(lcases) + nsel, evaluations=len(rcases) + len(lcases) + nsel,
               distinct=len(set(rcases)) + len(set(lcases)),
               distinct_nontrivial=len(set(c for c, m in zip(rcases, rmeta) if m[0] >= 2 and len(m[1]) >= 3)) + len(set(c for c, m in zip(lcases, lmeta) if m[0] >= 2)),
               rule='reshuffle: next()-interleavings of 1..3 iterators over one object (all interleavings for small n, random beyond, lengths 0..9); local shuffle: n 0..9, '
                    'buffer sizes 1..n+1, value and key iteration, two iterators in flight; one-time shuffle / shuffled tiling / sampling without replacement: permutation predicates; '
                    'every RNG draw is recorded from numpy and fed to the model; non-trivial = n >= 2 (and >= 3 next() calls for reshuffle)',
               reshuffle_histories=len(rcases), interleaved_histories=sum(1 for m in rmeta if len(set(m[1])) > 1),
               local_shuffle_cases=len(lcases), selection_cases=nsel, frozen_copy_histories=nfrozen, plain_copy_object_histories=ncopyobj, local_iterator_histories=len(licases),
               traces_validated_against_impl=len(rcases) + len(lcases), disagreements_checked=len(rb) + len(lb),
               samples=[dict(n=rmeta[i][0], script=rmeta[i][1], outs=rmeta[i][2]) for i in (0, len(rmeta) // 2, len(rmeta) - 1)],
               exhaustive=False)
    return dict(coverage=cov, failures=failures, assumptions=['numpy shuffle permutes; choice(B) < B'])


def replay(payload):
    ld = common.import_impl()
    c = payload.get('config', {})
    if c.get('kind') == 'reshuffle':
        ops, outs, complete, order = reshuffle_case(ld, c['n'], 0, c['script'])
        bad = any(len(set(o)) != len(o) or (d and sorted(o) != list(range(c['n']))) for o, d in zip(outs, complete))
        print('  outs', outs)
        return bad
    return True
