"""C09 - examples handed out are isolated from the stored data (Model H, Isolation.v)."""
import os, re, gc, copy, tempfile, shutil, warnings, collections
import numpy as np
from .. import common, gen_a

PROP_FILE = 'props/C09.v'
TRUSTED = ['pickle / deepcopy produce equal, unaliased values (modelled as "a fresh object with the stored content")']

HEADER = """From Coq Require Import List Arith Bool.
Import ListNotations.
Require Import LD.Isolation.
"""


def make_example(i, shape='dict', arrays=True):
    """nested example; the top-level container is a dict, a tuple (immutable only at the top) or a list; unless the source is a JSON
    file it also carries buffer payloads (a numpy array, a bytearray) that a consumer may write to in place"""
    inner = {'l': [{'x': [i, 0]}]}
    if arrays:
        inner['arr'] = np.zeros(3, dtype=np.int64)
        inner['raw'] = bytearray(2)
    if shape == 'dict':
        return {'id': i, 'ver': [0], 'deep': inner}
    body = [i, [0], inner]
    return tuple(body) if shape == 'tuple' else body


def content(ex):
    """the model's content of an example: its version marker (all nested markers must agree)"""
    if isinstance(ex, dict):
        a, inner = ex['ver'][0], ex['deep']
    else:
        a, inner = ex[1][0], ex[2]
    marks = [inner['l'][0]['x'][1]]
    if 'arr' in inner:
        marks += [int(inner['arr'][1]), int(inner['raw'][0])]
    return a if all(m == a for m in marks) else -1000 - a


def mutate(ex, k):
    inner = ex['deep'] if isinstance(ex, dict) else ex[2]
    if 'arr' in inner:
        inner['arr'][1] = k            # in-place writes into buffers (what `*=`, `.fill()` or a filter working in place do)
        inner['arr'][2] += 1
        inner['raw'][0] = k
    if isinstance(ex, dict):
        ex['ver'][0] = k
        ex['deep']['l'][0]['x'][1] = k
        ex['deep']['l'].append('junk')
        ex['new'] = k
    else:
        ex[1][0] = k
        ex[2]['l'][0]['x'][1] = k
        ex[2]['l'].append('junk')
        ex[2]['new'] = k
        if isinstance(ex, list):
            ex.append(k)


def build(ld, kind, n, keyed, tmp, shape='dict'):
    originals = [make_example(i, shape, arrays=kind != 'jsonfile') for i in range(n)]
    keys = [gen_a.KEYS[i] for i in range(n)]
    container = dict(zip(keys, originals)) if keyed else list(originals)
    with warnings.catch_warnings():
        warnings.simplefilter('ignore')
        if kind in ('pickle', 'copy'):
            ds = ld.new(container, immutable_warranty=kind)
        elif kind == 'wu':
            ds = ld.core.from_list(container, 'wu')
        elif kind in ('pickle_of_copy_ds', 'pickle_of_wu_ds', 'eager_cache_of_copy_ds', 'from_dataset_of_copy_ds'):
            # a DATASET as the source of new() / from_dataset() / cache(lazy=False): the result is a snapshot in pickle mode, whatever the
            # immutability mode of the source dataset is (a copy-mode source still references the caller's objects)
            inner = ld.core.from_list(container, 'wu') if kind == 'pickle_of_wu_ds' else ld.new(container, immutable_warranty='copy')
            if kind == 'eager_cache_of_copy_ds': ds = inner.cache(lazy=False)
            elif kind == 'from_dataset_of_copy_ds': ds = ld.core.from_dataset(inner)
            else: ds = ld.new(inner)
        elif kind == 'memcache':
            ds = ld.new(container).cache()
        elif kind == 'memcache_map':
            ds = ld.new(container).map(lambda e: e).cache()
        elif kind == 'diskcache':
            ds = ld.new(container).diskcache(cache_dir=os.path.join(tmp, 'dc'), reuse=False, clear=True)
        elif kind == 'jsonfile':
            # new(path): the container is read from a JSON file (the caller's objects are not even referenced)
            import json
            pth = os.path.join(tmp, 'src.json')
            with open(pth, 'w') as fh:
                json.dump(container, fh)
            ds = ld.new(pth if n % 2 else __import__('pathlib').Path(pth))
        elif kind == 'memcache_copy':
            # the memory cache in its second immutability mode (class-level API only)
            ds = ld.core.CacheDataset(ld.new(container), immutable_warranty='copy')
        elif kind == 'memcache_copy_shared':
            ds = ld.core.CacheDataset(ld.core.DictDataset(container) if keyed else ld.core.ListDataset(container), immutable_warranty='copy')
        elif kind == 'memcache_shared_pct':
            # memory guard spelled in percent, with plenty of memory (psutil is an oracle during this history: 2000 bytes in total,
            # 1500 available): the cache must store - and thereby isolate - every example
            up = ld.core.DictDataset(container) if keyed else ld.core.ListDataset(container)
            ds = up.cache(keep_mem_free='50%') if n % 2 else ld.core.CacheDataset(up, ' 25 %')
        elif kind == 'memcache_shared':
            # the upstream hands out SHARED objects: the cache is what provides the isolation
            ds = (ld.core.DictDataset(container) if keyed else ld.core.ListDataset(container)).cache()
        elif kind == 'diskcache_small_shared':
            # a re-used cache directory that was created with a tiny size limit: the disk cache must keep every snapshot all the same
            # (it switches eviction off), or a later access re-fetches the shared - possibly mutated - object from upstream
            import diskcache
            cdir = os.path.join(tmp, 'dc_small')
            shutil.rmtree(cdir, ignore_errors=True)
            c0 = diskcache.Cache(cdir, size_limit=1)
            c0.close()
            ds = (ld.core.DictDataset(container) if keyed else ld.core.ListDataset(container)).diskcache(
                cache_dir=cdir, reuse=True, clear=True)
        elif kind == 'diskcache_shared':
            ds = (ld.core.DictDataset(container) if keyed else ld.core.ListDataset(container)).diskcache(
                cache_dir=os.path.join(tmp, 'dc'), reuse=False, clear=True)
    return ds, originals, keys


def run_history(ld, kind, n, keyed, ops, tmp, shape='dict'):
    import psutil

    class Mem:
        total, available = 2000, 1500
    old_vm = psutil.virtual_memory
    if kind == 'memcache_shared_pct':
        psutil.virtual_memory = lambda: Mem
    try:
        return _run_history(ld, kind, n, keyed, ops, tmp, shape)
    finally:
        psutil.virtual_memory = old_vm


def _run_history(ld, kind, n, keyed, ops, tmp, shape='dict'):
    ds, originals, keys = build(ld, kind, n, keyed, tmp, shape)
    handles = []
    outs = []
    cp = None
    pcopy = [None]
    with warnings.catch_warnings():
        warnings.simplefilter('ignore')
        done_in_loop = set()
        for oi, op in enumerate(ops):
            k = op[0]
            if k == 'read':
                path, i = op[1], op[2]
                try:
                    if path in ('iterlive', 'itemslive'):
                        # a consumer that modifies the example in the BODY of its loop, before the iterator is advanced, and then
                        # finishes the pass: the modification is the `mut` operation that follows in the history
                        nxt = ops[oi + 1]
                        ex = None
                        for j, x in enumerate(ds.items() if path == 'itemslive' else ds):
                            if j == i:
                                ex = x[1] if path == 'itemslive' else x
                                handles.append(ex)
                                outs.append(('val', content(ex)))
                                mutate(ex, nxt[2])
                                done_in_loop.add(oi + 1)
                        if ex is None:
                            raise IndexError(i)
                        continue
                    if path == 'idx': ex = ds[i]
                    elif path == 'neg': ex = ds[i - n]
                    elif path == 'np': ex = ds[np.int64(i)]
                    elif path == 'key': ex = ds[keys[i]]
                    elif path == 'iter': ex = list(ds)[i]
                    elif path == 'items': ex = list(ds.items())[i][1]
                    elif path == 'slice': ex = list(ds[i:i + 1])[0]
                    elif path == 'copy':
                        cp = ds.copy()
                        ex = cp[i]
                    elif path == 'listidx': ex = list(ds[[i]])[0]
                    elif path in ('samecopy', 'samecopy_iter', 'samecopy_frozen'):
                        # ONE copy of the dataset that lives through the whole history and is read again and again
                        if pcopy[0] is None:
                            pcopy[0] = ds.copy(freeze=(path == 'samecopy_frozen'))
                        ex = pcopy[0][i] if path != 'samecopy_iter' else list(pcopy[0])[i]
                    handles.append(ex)
                    outs.append(('val', content(ex)))
                except (IndexError, KeyError):
                    outs.append(('none',))
            elif k == 'mut':
                if oi not in done_in_loop and op[1] < len(handles):
                    mutate(handles[op[1]], op[2])
                outs.append(('none',))
            elif k == 'mutorig':
                if op[1] < len(originals):
                    mutate(originals[op[1]], op[2])
                outs.append(('none',))
    del ds, cp, pcopy
    gc.collect()
    return outs


def coq_lcase(n, ops, outs):
    """cache over a shared upstream (LazyCache section): originals live at 0..n-1; a first read returns the original"""
    cops, couts = [], []
    heap = n
    first = set()
    handle_addr = []
    for op, o in zip(ops, outs):
        if op[0] == 'read':
            cops.append(f'LRead nat {op[2]}')
            if o[0] == 'val':
                if op[2] not in first:
                    first.add(op[2])
                    addr = op[2]
                else:
                    addr = heap
                    heap += 1
                handle_addr.append(addr)
                couts.append(f'LVal nat {addr} {o[1] if o[1] >= 0 else 999983}')       # torn content: well-typed, matches nothing
            else:
                couts.append('LNone nat')
        else:
            a = handle_addr[op[1]] if op[1] < len(handle_addr) else 10 ** 3
            cops.append(f'LMutate nat {a} {op[2]}')
            couts.append('LNone nat')
    return '(%d, [%s], [%s])' % (n, '; '.join(cops), '; '.join(couts))


def coq_case(kind, n, ops, outs):
    mode = {'copy': 'Copy', 'wu': 'Wu'}.get(kind, 'Pickle')
    cops, couts = [], []
    nh = 0
    for op, o in zip(ops, outs):
        if op[0] == 'read':
            cops.append(f'IRead nat {op[2]}')
            if o[0] == 'val':
                couts.append(f'IVal nat {n + nh} {o[1] if o[1] >= 0 else 999983}')
                nh += 1
            else:
                couts.append('INone nat')
        elif op[0] == 'mut':
            cops.append(f'IMutate nat {n + op[1]} {op[2]}')
            couts.append('INone nat')
        else:
            cops.append(f'IMutateOriginal nat {op[1]} {op[2]}')
            couts.append('INone nat')
    return '(%s, %d, [%s], [%s])' % (mode, n, '; '.join(cops), '; '.join(couts))


CHECK = """
Definition iout_eqb (a b : iout nat) : bool :=
  match a, b with IVal _ h v, IVal _ h' v' => Nat.eqb h h' && Nat.eqb v v' | INone _, INone _ => true | _, _ => false end.
Fixpoint leqb (l m : list (iout nat)) : bool :=
  match l, m with [], [] => true | x :: l', y :: m' => iout_eqb x y && leqb l' m' | _, _ => false end.
Definition case_ok (c : mode * nat * list (iop nat) * list (iout nat)) : bool :=
  let '(m, n, ops, exp) := c in leqb (snd (irun nat (iinit nat m (repeat 0 n)) ops)) exp.
Fixpoint bad (j : nat) (cs : list (mode * nat * list (iop nat) * list (iout nat))) : list nat :=
  match cs with [] => [] | c :: r => if case_ok c then bad (S j) r else j :: bad (S j) r end.
Definition lout_eqb (a b : lout nat) : bool :=
  match a, b with LVal _ h v, LVal _ h' v' => Nat.eqb h h' && Nat.eqb v v' | LNone _, LNone _ => true | _, _ => false end.
Fixpoint lleqb (l m : list (lout nat)) : bool :=
  match l, m with [], [] => true | x :: l', y :: m' => lout_eqb x y && lleqb l' m' | _, _ => false end.
Definition lcase_ok (c : nat * list (lop nat) * list (lout nat)) : bool :=
  let '(n, ops, exp) := c in lleqb (snd (lrun nat (linit nat (repeat 0 n)) ops)) exp.
Fixpoint lbad (j : nat) (cs : list (nat * list (lop nat) * list (lout nat))) : list nat :=
  match cs with [] => [] | c :: r => if lcase_ok c then lbad (S j) r else j :: lbad (S j) r end.
"""


def unserialisable_family(ld, r, count):
    """examples that the cache cannot snapshot (they carry a generator, a lambda, a lock): the access is refused loudly, or - if an
    example is handed out - it is isolated like any other: a consumer's modification never shows in a later access"""
    import threading
    fails = []
    with warnings.catch_warnings():
        warnings.simplefilter('ignore')
        for _ in range(count):
            n = r.randint(1, 4)
            bad = r.randrange(n)
            what = r.choice(['generator', 'lambda', 'lock'])
            raw = {}
            for i in range(n):
                ex = {'id': i, 'tags': []}
                if i == bad:
                    ex['x'] = (j for j in range(3)) if what == 'generator' else (lambda: 0) if what == 'lambda' else threading.Lock()
                raw[f'key{i}'] = ex
            mode = r.choice(['pickle', 'copy'])
            keyed = r.random() < 0.5
            up = ld.core.DictDataset(raw) if keyed else ld.core.ListDataset(list(raw.values()))
            try:
                d = ld.core.CacheDataset(up, immutable_warranty=mode) if r.random() < 0.6 else up.cache()
            except Exception:
                continue
            paths = [lambda: d[bad], lambda: d[bad - n], lambda: list(d)[bad], lambda: list(d[bad:bad + 1])[0]] + ([lambda: d[f'key{bad}'], lambda: list(d.items())[bad][1]] if keyed else [])
            seen_mutation = None
            for step in range(4):
                try:
                    ex = r.choice(paths)()
                except Exception:
                    continue                      # refused loudly: nothing was handed out
                if ex['tags']:
                    seen_mutation = (step, ex['tags'])
                    break
                ex['tags'].append(step + 1)      # the consumer modifies what it got
            if seen_mutation:
                fails.append(f'{mode}-mode memory cache over a shared upstream, example {bad} carries a {what}: access number {seen_mutation[0] + 1} returned an example with the '
                             f'consumer\'s earlier modification {seen_mutation[1]} (handed out without a snapshot)')
    return fails


def run(tier):
    ld = common.import_impl()
    r = common.rng_for('C09')
    big = tier != 'quick'
    tmp = tempfile.mkdtemp(prefix='c09_')
    kinds = ['pickle', 'copy', 'wu', 'memcache', 'memcache_map', 'diskcache', 'memcache_shared', 'diskcache_shared', 'diskcache_small_shared', 'memcache_copy', 'memcache_copy_shared', 'jsonfile', 'memcache_shared_pct',
             'pickle_of_copy_ds', 'pickle_of_wu_ds', 'eager_cache_of_copy_ds', 'from_dataset_of_copy_ds']
    cases, lcases, lmeta, meta, failures = [], [], [], [], []
    for ci in range(5000 if big else 500):
        common.tick()
        kind = r.choice(kinds)
        n = r.randint(1, 4)
        keyed = kind not in ('wu', 'pickle_of_wu_ds') and r.random() < 0.5
        serial = kind != 'copy'
        ops, nh = [], 0
        for _ in range(r.randint(2, 12)):
            x = r.random()
            if x < 0.5 or nh == 0:
                paths = ['idx', 'neg', 'np', 'iter', 'slice', 'copy', 'listidx', 'samecopy', 'samecopy', 'samecopy_iter', 'samecopy_frozen'] + (['key', 'items'] if keyed else [])
                pth = r.choice(paths)
                if r.random() < 0.2:
                    pth = 'itemslive' if keyed and r.random() < 0.4 else 'iterlive'
                ops.append(('read', pth, r.randrange(n)))
                nh += 1
                if pth in ('iterlive', 'itemslive'):
                    ops.append(('mut', nh - 1, r.randint(1, 50)))      # carried out inside the loop body of that pass
            elif x < 0.85:
                ops.append(('mut', r.randrange(nh), r.randint(1, 50)))
            elif kind in ('pickle', 'wu', 'copy', 'jsonfile', 'pickle_of_copy_ds', 'pickle_of_wu_ds', 'eager_cache_of_copy_ds', 'from_dataset_of_copy_ds'):          # copy mode keeps references to the caller's examples: the model says such a change IS visible
                ops.append(('mutorig', r.randrange(n), r.randint(51, 99)))
            else:
                ops.append(('mut', r.randrange(nh), r.randint(1, 50)))
        if ci % 20 == 3:
            common.trip_unrelated_cache_guard(ld)        # other caches in the process hit their memory guard now and then
        wd = os.path.join(tmp, f'h{ci}')
        os.makedirs(wd)
        shape = r.choice(['dict', 'dict', 'tuple', 'list']) if kind != 'jsonfile' else r.choice(['dict', 'list'])      # JSON has no tuples
        outs = run_history(ld, kind, n, keyed, ops, wd, shape)
        shutil.rmtree(wd, ignore_errors=True)
        # direct predicate: every read returns the pristine content (version 0)
        for op, o in zip(ops, outs):
            if kind == 'copy' and any(x[0] == 'mutorig' for x in ops):
                break                   # only the model comparison applies (reads follow the caller's own changes of the originals)
            if op[0] == 'read' and o != ('val', 0):
                failures.append(dict(kind='history', summary=f'{kind} storage ({"dict" if keyed else "list"}-backed, {shape} examples, n={n}): after {ops} a read by path {op[1]!r} of example {op[2]} returned content {o}',
                                     config=dict(kind=kind, n=n, keyed=keyed, shape=shape, ops=[list(x) for x in ops])))
                break
        if kind.endswith('_shared') or kind == 'memcache_shared_pct':
            lcases.append(coq_lcase(n, ops, outs))
            lmeta.append((kind, n, keyed, ops, outs))
        else:
            cases.append(coq_case(kind, n, ops, outs))
            meta.append((kind, n, keyed, ops, outs))
    shutil.rmtree(tmp, ignore_errors=True)
    for msg in unserialisable_family(ld, common.rng_for('C09-unser'), 1000 if big else 100):
        failures.append(dict(kind='history', summary=msg[:600], config=dict(kind='unserialisable')))
    d = common.fresh_dir(f'C09_{tier}')
    f = os.path.join(d, 'i.v')
    with open(f, 'w') as fh:
        fh.write(HEADER + CHECK)
        fh.write('Definition cases := [\n' + ';\n'.join(cases) + '\n].\nEval vm_compute in (bad 0 cases).\n')
        fh.write('Definition lcases := [\n' + ';\n'.join(lcases) + '\n].\nEval vm_compute in (lbad 0 lcases).\n')
    out = common.run_case_files([f])[f]
    parts = re.split(r'\n\s*=\s', '\n' + out)
    bad = [int(x) for x in re.findall(r'\d+', parts[1].split(':')[0])]
    for i in [int(x) for x in re.findall(r'\d+', parts[2].split(':')[0])]:
        m = lmeta[i]
        failures.append(dict(kind='history', summary=f'model and implementation disagree (cache over a shared upstream): {m[0]} n={m[1]} ops={m[3]} impl={m[4]}'[:700],
                             config=dict(kind=m[0], n=m[1], keyed=m[2], ops=[list(x) for x in m[3]])))
    meta_all = meta + lmeta
    for i in bad:
        m = meta[i]
        failures.append(dict(kind='history', summary=f'model and implementation disagree: {m[0]} n={m[1]} ops={m[3]} impl={m[4]}'[:700],
                             config=dict(kind=m[0], n=m[1], keyed=m[2], ops=[list(x) for x in m[3]])))
    cov = dict(programs=len(cases) + len(lcases), evaluations=len(cases) + len(lcases), distinct=len(set(cases)) + len(set(lcases)),
               distinct_nontrivial=len(set(c for c, m in zip(cases, meta) if any(o[0] == 'mut' for o in m[3]))),
               rule='histories (2..12 ops) of reads by every path (index, negative, np.int64, key, iteration, items, slice, index list, through copy()) and deep in-place mutations of returned '
                    'nested examples (dict of list of dict) plus, for pickle / wu, mutations of the original container; storage: pickle / copy / wu / memory cache (with and without a map) / disk cache / memory and disk cache over an upstream handing out shared objects; '
                    'non-trivial = contains a mutation',
               storage_histogram=dict(collections.Counter(m[0] for m in meta_all)),
               path_histogram=dict(collections.Counter(o[1] for m in meta_all for o in m[3] if o[0] == 'read')),
               traces_validated_against_impl=len(cases) + len(lcases), disagreements_checked=len(bad),
               samples=[dict(kind=m[0], n=m[1], ops=m[3], outs=m[4]) for m in meta[:2]], exhaustive=False)
    return dict(coverage=cov, failures=failures, assumptions=['examples are picklable nested containers'])


def replay(payload):
    ld = common.import_impl()
    c = payload['config']
    if c.get('kind') == 'unserialisable':
        ff = unserialisable_family(ld, common.rng_for('C09-unser'), 100)
        print('  ', ff[:2])
        return bool(ff)
    tmp = tempfile.mkdtemp(prefix='c09r_')
    common.trip_unrelated_cache_guard(ld)          # as in the run: some other cache of the process has hit its memory guard before
    outs = run_history(ld, c['kind'], c['n'], c['keyed'], [tuple(o) for o in c['ops']], tmp, c.get('shape', 'dict'))
    shutil.rmtree(tmp, ignore_errors=True)
    print('  outs', outs)
    return any(op[0] == 'read' and o != ('val', 0) for op, o in zip(c['ops'], outs))
