"""C19 - the database layer builds correct, isolated datasets from its source (Model G, Database.v)."""
import os, re, gc, copy, json, pickle, tempfile, collections, shutil
from .. import common, fnlib as F

PROP_FILE = 'props/C19.v'
TRUSTED = ['weakref.WeakValueDictionary semantics (entry lives while the client holds a reference) and json round trip are modelled, not verified']

HEADER = """From Coq Require Import String.
From Coq Require Import List Arith ZArith Bool.
Require Import LD.Base LD.Database LD.DatabaseTie.
Import ListNotations.
Open Scope string_scope.
"""

NAMES = ['x', '', 'zz9', 'w']        # incl. the empty string (a valid dataset / alias name and JSON key) and a longer name
IDS = ['a', 'b', 'utt3', 'd', 'e_5']


def _ds(*ids):
    return {i: {'v': k} for k, i in enumerate(ids)}


# explicit descriptions that run first on every run: aliases whose overlapping members are NOT neighbours, a member named twice,
# an overlap between the first and the last of four members, the same with the parts split over two descriptions
FIXED = [
    ([{'datasets': {'x': _ds('a', 'b'), 'y': _ds('utt3'), 'z': _ds('a', 'd')}, 'alias': {'al': ['x', 'y', 'z']}}], ['al', ['al'], 'x']),
    ([{'datasets': {'x': _ds('a'), 'y': _ds('b')}, 'alias': {'al': ['x', 'y', 'x']}}], ['al']),
    ([{'datasets': {'x': _ds('a'), 'y': _ds('b'), 'z': _ds('d'), 'w': _ds('e_5', 'a')}, 'alias': {'be': ['x', 'y', 'z', 'w']}}], ['be', 'y']),
    ([{'datasets': {'x': _ds('a', 'b'), 'y': _ds('utt3')}}, {'datasets': {'z': _ds('b')}, 'alias': {'al': ['x', 'y', 'z']}}], ['al', 'z']),
    ([{'datasets': {'x': _ds('a'), 'y': _ds('b'), 'z': _ds('d')}, 'alias': {'al': ['x', 'y', 'z'], 'be': ['z']}}], ['al', 'be', ['be', 'x']]),
]


def gen_part(r, first, used_names):
    p = {}
    if r.random() < 0.93:
        ds = {}
        pool = [n for n in NAMES if n not in used_names] if r.random() < 0.85 else NAMES
        for n in r.sample(pool, min(len(pool), r.choice([0, 1, 1, 2, 2, 3]))):
            ex = {}
            for i in r.sample(IDS, r.choice([0, 1, 2, 2, 3])):
                e = {'v': r.randint(0, 9)}
                if r.random() < 0.15:
                    e['example_id'] = 'old'
                if r.random() < 0.1:
                    e['dataset'] = 'stale'
                if r.random() < 0.2:
                    e['t'] = r.choice(['p', 'q'])
                ex[i] = e
            ds[n] = ex
        p['datasets'] = ds
    if r.random() < 0.55:
        al = {}
        for k in range(r.choice([0, 1, 1, 2])):
            an = r.choice(['al', 'be'] + (NAMES if r.random() < 0.15 else []))
            members = r.sample(NAMES, r.choice([0, 1, 2, 3, 3, 4]))
            if members and r.random() < 0.12:
                members.append(members[0])             # a member named twice (not next to itself when there are others)
            al[an] = members
        p['alias'] = al
    if r.random() < (0.35 if first else 0.08):
        p[r.choice(['meta', 'info'])] = r.choice([{'a': 1}, 7, 'txt', [1, 2]])
    return p


def gen_desc(r):
    nparts = r.choice([1, 1, 2, 2, 3])
    parts, used = [], set()
    for i in range(nparts):
        p = gen_part(r, i == 0, used)
        used |= set(p.get('datasets', {}))
        parts.append(p)
    return parts


def gen_requests(r, parts):
    names = set(NAMES) | {'al', 'be', 'nope'}
    reqs = []
    for _ in range(r.randint(1, 6)):
        if r.random() < 0.7:
            reqs.append(r.choice(sorted(names)))
        else:
            reqs.append([r.choice(sorted(names)) for _ in range(r.randint(0, 3))])
    if r.random() < 0.5 and reqs:
        reqs.append(reqs[0])
    return reqs


def answer(db, req):
    try:
        ds = db.get_dataset(req if isinstance(req, str) else list(req))
        return [(k, v) for k, v in ds.items()]
    except Exception as e:
        return None


def coq_example(e):
    return F.coq_list(['(%s, %s)' % (F.coq_str(k), F.coq_val(v)) for k, v in e.items()])


def coq_part(p):
    def dsm(d):
        return F.coq_list(['(%s, %s)' % (F.coq_str(n), F.coq_list(['(%s, %s)' % (F.coq_str(i), coq_example(e)) for i, e in ex.items()])) for n, ex in d.items()])

    def alm(a):
        return F.coq_list(['(%s, %s)' % (F.coq_str(n), F.coq_list([F.coq_str(m) for m in ms])) for n, ms in a.items()])
    extra = [k for k in p if k not in ('datasets', 'alias')]
    return '(mkPart %s %s %s)' % (F.coq_opt(p.get('datasets'), dsm), F.coq_opt(p.get('alias'), alm), F.coq_list([F.coq_str(k) for k in extra]))


def coq_answer(a):
    if a is None:
        return 'None'
    return '(Some %s)' % F.coq_list(['(%s, %s)' % (F.coq_str(k), F.coq_val(v)) for k, v in a])


def coq_req(q):
    return f'(RName {F.coq_str(q)})' if isinstance(q, str) else f'(RList {F.coq_list([F.coq_str(x) for x in q])})'


# ---- heap view of the merge: addresses for the top-level, 'datasets' and 'alias' dict objects
def heap_case(parts, merged):
    heap, addr = [], {}

    def alloc(o, cells):
        addr[id(o)] = len(heap)
        heap.append(cells)
        return addr[id(o)]
    tags = {}

    def tag(o):
        return tags.setdefault(id(o), len(tags) + 1)
    tops = []
    for p in parts:
        cells = []
        for k, v in p.items():
            if isinstance(v, dict):
                if k in ('datasets', 'alias'):
                    inner = [(n, ('atom', tag(x) if isinstance(x, (dict, list)) else 0)) for n, x in v.items()]
                else:
                    inner = [(n, ('atom', 0)) for n in v]
                a = len(heap)
                addr[id(v)] = a
                heap.append(inner)
                cells.append((k, ('ref', a)))
            else:
                cells.append((k, ('atom', 99)))
        tops.append(alloc(p, cells))

    def cobj(o):
        return F.coq_list(['(%s, %s)' % (F.coq_str(k), f'CAtom {c[1]}%nat' if c[0] == 'atom' else f'CRef {c[1]}%nat') for k, c in o])
    h = F.coq_list([cobj(o) for o in heap])
    if merged is None:
        exp = 'None'
    else:
        eds = [(n, ('atom', tag(x))) for n, x in merged.get('datasets', {}).items()] if isinstance(merged.get('datasets'), dict) else None
        eal = [(n, ('atom', tag(x))) for n, x in merged['alias'].items()] if isinstance(merged.get('alias'), dict) else None
        if eds is None:
            return None
        exp = '(Some (%s, %s, %s))' % (cobj(eds), 'None' if eal is None else f'(Some {cobj(eal)})', F.coq_list([F.coq_str(k) for k in merged]))
    return '(%s, %s, %s)' % (h, F.coq_list([f'{t}%nat' for t in tops]), exp)


def run(tier):
    common.import_impl()
    import lazy_dataset.database as dbm
    r = common.rng_for('C19')
    big = tier != 'quick'
    N = 6000 if big else 500
    cases, hcases, meta, failures = [], [], [], []
    tmp = tempfile.mkdtemp(prefix='c19_')
    alive = collections.deque(maxlen=3)      # databases and datasets of the previous cases stay alive: databases are independent of each other
    for ci in range(N):
        common.tick()
        parts = gen_desc(r)
        reqs = gen_requests(r, parts)
        if ci < len(FIXED):
            parts, reqs = copy.deepcopy(FIXED[ci])
        src = copy.deepcopy(parts)
        snap = copy.deepcopy(src)
        inner_ids = [(id(p.get('datasets')), id(p.get('alias')), [id(x) for x in p.get('datasets', {}).values()] if isinstance(p.get('datasets'), dict) else [])
                     for p in src]
        try:
            db = dbm.DictDatabase(list(src)) if ci % 3 == 0 else dbm.DictDatabase(*src)        # both spellings: one list of parts / separate arguments
            merged = db.data
            ok = True
            # heap view taken right after construction (later requests add an empty 'alias' via setdefault)
            hc0 = heap_case(src, merged) if all(isinstance(p.get('datasets'), dict) for p in src) else None
        except Exception as e:
            db, merged, ok = None, None, False
        answers = None
        if ok:
            answers = []
            held = []
            for q in reqs:
                a = answer(db, q)
                answers.append(a)
            # ---- direct predicates
            # the advertised names are exactly the dataset names followed by the alias names of the merged description
            try:
                names = list(db.dataset_names)
            except Exception as e:
                names = f'raised {type(e).__name__}'
            want_names = [n for p in snap for n in p.get('datasets', {})] + [n for p in snap for n in p.get('alias', {})]
            if names != want_names and any('datasets' in p for p in snap):       # without any datasets section the attribute raises KeyError (loud)
                failures.append(dict(kind='history', summary=f'dataset_names = {names}, the merged description has datasets + aliases {want_names}', config=dict(parts=snap, reqs=reqs)))
            # requests that are neither a name nor a sequence of names are refused
            for badreq in (None, {'x': 1}, 7):
                try:
                    db.get_dataset(badreq)
                    failures.append(dict(kind='history', summary=f'get_dataset({badreq!r}) was answered', config=dict(parts=snap, reqs=reqs)))
                except (TypeError, KeyError, AssertionError):
                    pass
                except Exception:
                    pass
            # sources untouched (only an EMPTY 'alias' entry may appear at the top level of a single source)
            for p, s in zip(src, snap):
                pp = dict(p)
                if 'alias' not in s and pp.get('alias') == {}:
                    pp.pop('alias')
                if pp != s:
                    failures.append(dict(kind='history', summary=f'building datasets changed a source description: {s} -> {p}', config=dict(parts=snap, reqs=reqs)))
                    break
            for p, ids in zip(src, inner_ids):
                if (id(p.get('datasets')), [id(x) for x in p.get('datasets', {}).values()] if isinstance(p.get('datasets'), dict) else []) != (ids[0], ids[2]):
                    failures.append(dict(kind='history', summary='a source sub-dictionary was replaced', config=dict(parts=snap, reqs=reqs)))
            # repeated requests are served from one shared dataset while it is alive
            for q in reqs:
                if isinstance(q, str):
                    try:
                        a1 = db.get_dataset(q)
                        a2 = db.get_dataset(q)
                        if a1 is not a2:
                            failures.append(dict(kind='history', summary=f'two requests for {q!r} while the first result is alive gave different objects', config=dict(parts=snap, reqs=reqs)))
                        del a1, a2
                        gc.collect()
                    except Exception:
                        pass
        if ok:
            keep = [db]
            for q in reqs:
                try:
                    keep.append(db.get_dataset(q if isinstance(q, str) else list(q)))
                except Exception:
                    pass
            alive.append(keep)
        cases.append('(%s, %s)' % (F.coq_list([coq_part(p) for p in snap]),
                                   'None' if answers is None else '(Some %s)' % F.coq_list(['(%s, %s)' % (coq_req(q), coq_answer(a)) for q, a in zip(reqs, answers)])))
        meta.append((snap, reqs, answers))
        if ok and hc0:
            hcases.append(hc0)
        # a description the dict database refuses (duplicate names ...) is refused by the lazily loading JSON database as well:
        # on EVERY request, not only the first one, and by its pickle
        if not ok and ci % (3 if big else 4) == 0:
            try:
                paths = []
                for k, p in enumerate(snap):
                    pth = os.path.join(tmp, f'{ci}_r{k}.json')
                    with open(pth, 'w') as fh:
                        json.dump(p, fh)
                    paths.append(pth)
                jdb = dbm.JsonDatabase(*paths)
                for rnd in range(2):
                    for q in (reqs + ['x', 'y'])[:4]:
                        if answer(jdb, q) is not None:
                            raise AssertionError(f'request {q!r} (round {rnd + 1}) was answered')
                try:
                    j2 = pickle.loads(pickle.dumps(jdb))
                except Exception:
                    j2 = None                     # refusing to pickle is a rejection too
                if j2 is not None and any(answer(j2, q) is not None for q in reqs[:2]):
                    raise AssertionError('the pickled database answers')
            except AssertionError as e:
                failures.append(dict(kind='history', summary=f'JSON database over a description that must be rejected ({snap}): {e}'[:700], config=dict(parts=snap, reqs=reqs)))
            except Exception:
                pass
        # JSON-backed database and its pickle answer identically
        if ok and ci % (10 if big else 12) == 0:
            try:
                paths = []
                for k, p in enumerate(snap):
                    pth = os.path.join(tmp, f'{ci}_{k}.json')
                    with open(pth, 'w') as fh:
                        json.dump(p, fh)
                    paths.append(pth)
                # the description is what the constructor was given: a path list the caller changes afterwards (before the lazy
                # load) must not change the answers
                variant = (ci // (10 if big else 12)) % 3
                if variant == 0:
                    jdb = dbm.JsonDatabase(*paths)
                elif variant == 1:
                    plist = list(paths)
                    jdb = dbm.JsonDatabase(plist)
                    how = ci % 3
                    if how == 0: plist.clear()
                    elif how == 1: plist[0] = os.path.join(tmp, 'no_such_file.json')
                    else: plist.append(os.path.join(tmp, 'no_such_file.json'))
                else:
                    jdb = dbm.JsonDatabase(tuple(paths))
                j2 = pickle.loads(pickle.dumps(jdb))
                for q, a in zip(reqs, answers):
                    if answer(jdb, q) != a or answer(j2, q) != a:
                        failures.append(dict(kind='history', summary=f'JSON database or its pickle answers {q!r} differently from the dict database', config=dict(parts=snap, reqs=reqs)))
                        break
            except Exception as e:
                failures.append(dict(kind='history', summary=f'JSON database raised {type(e).__name__} where the dict database worked', config=dict(parts=snap, reqs=reqs)))
    # no description at all is refused
    for ctor in (lambda: dbm.DictDatabase(), lambda: dbm.JsonDatabase().data, lambda: dbm.DictDatabase([]), lambda: dbm.JsonDatabase([]).data,
                 lambda: dbm.DictDatabase([{'datasets': {}}], {'datasets': {}})):
        try:
            ctor()
            failures.append(dict(kind='history', summary='a database without any description was accepted', config={}))
        except Exception:
            pass
    shutil.rmtree(tmp, ignore_errors=True)
    d = common.fresh_dir(f'C19_{tier}')
    files = []
    per = 250
    for s in range(0, len(cases), per):
        f = os.path.join(d, f'g_{s // per:03d}.v')
        with open(f, 'w') as fh:
            fh.write(HEADER)
            fh.write('Definition cases : list gcase := [\n' + ';\n'.join(cases[s:s + per]) + '\n].\n')
            fh.write('Eval vm_compute in (gbad 0 cases).\n')
        files.append((s, f, 'g'))
    f = os.path.join(d, 'h.v')
    with open(f, 'w') as fh:
        fh.write(HEADER)
        fh.write('Definition hcases : list hcase := [\n' + ';\n'.join(hcases) + '\n].\n')
        fh.write('Eval vm_compute in (hbad 0 hcases).\n')
    files.append((0, f, 'h'))
    outs = common.run_case_files([x[1] for x in files])
    nbad = 0
    for s, f, kind in files:
        out = outs[f]
        body = out[out.index('=') + 1:out.rindex(':')]
        for x in re.findall(r'\d+', body):
            nbad += 1
            if kind == 'g':
                m = meta[s + int(x)]
                failures.append(dict(kind='history', summary=f'model and implementation disagree: parts={m[0]} requests={m[1]} impl={m[2]}'[:900],
                                     config=dict(parts=m[0], reqs=m[1])))
            else:
                failures.append(dict(kind='history', summary=f'heap model of the merge and the implementation disagree (case {x}): {hcases[int(x)][:500]}', config={}))
    nparts = collections.Counter(len(m[0]) for m in meta)
    cov = dict(programs=len(cases), evaluations=len(cases), distinct=len(set(cases)),
               distinct_nontrivial=len(set(c for c, m in zip(cases, meta) if m[2] is not None and any(a for a in m[2]))),
               rule='database descriptions of 1..3 merged parts (0..3 datasets with 0..3 examples, 0..2 aliases, optional alias sections, extra top-level keys, duplicate names, '
                    'examples that already carry example_id / dataset attributes) and request sequences (names, aliases, unknown names, lists incl. empty, repeats); '
                    'non-trivial = constructed and at least one non-empty answer',
               parts_histogram=dict(nparts), refused_constructions=sum(1 for m in meta if m[2] is None), heap_cases=len(hcases),
               traces_validated_against_impl=len(cases) + len(hcases), disagreements_checked=nbad,
               samples=[dict(parts=meta[i][0], requests=meta[i][1], answers=meta[i][2]) for i in (0, 1)], exhaustive=False)
    return dict(coverage=cov, failures=failures, assumptions=[])


def replay(payload):
    return True
