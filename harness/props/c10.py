"""C10 - memory cache: transparent, computes each example once, freezes it (Model C, Cache.v).
Histories of accesses (index of either sign, key, slice, iteration, copies, thread prefetch) against the
real CacheDataset with psutil.virtual_memory replaced by the memory oracle."""
import os, re, collections, itertools, warnings
from .. import common, gen_a

PROP_FILE = 'props/C10.v'
TRUSTED = ['psutil.virtual_memory is replaced by the memory oracle (the suite\'s own mock-based tests do the same)',
           'same-index races between prefetch workers are outside the statement: worker accesses are on distinct indices within one pass']

HEADER = """From Coq Require Import List Arith ZArith Bool.
Import ListNotations.
Require Import LD.Cache LD.CacheTie.
Open Scope Z_scope.
"""


class Oracle:
    def __init__(self, answers, T=1000):
        self.T = T
        self.answers = list(answers)
        self.i = 0
        self.n_ok = 0

    def __call__(self):
        ok = self.answers[self.i] if self.i < len(self.answers) else True
        self.i += 1

        # the threshold is T bytes (1000 in most spellings); "<=" counts as crossed
        T = self.T
        self.n_ok += 1 if ok else 0
        pick = (self.i * 7 + len(self.answers)) % 3

        class M:
            available = ((T + 1, 10 ** 12, 5 * T)[pick]) if ok else ((T, T - 1, 0)[pick])
            total = 2000
        return M


def tv(x):
    """(example index, evaluation number) of a returned example - and, like a careless consumer, modify the returned object in place
    afterwards (top level and nested): what the cache holds must stay frozen"""
    out = (x[0], x[1][0])
    x[1][0] = 777
    x[1].append('junk')
    x.append('junk')
    return out


def falsy_family(ld, r, count, disk_dir=None):
    """examples that are None / 0 / '' / False / () / [] / {}: a cached example stays cached whatever its value - the pipeline
    runs once per example, and every later access (position of either sign, key, iteration, items, slice, copy) returns the first value"""
    import tempfile, shutil
    fails = []
    VALS = [None, 0, '', False, (), [], {}, 0.0, 7]
    with warnings.catch_warnings():
        warnings.simplefilter('ignore')
        for _ in range(count):
            n = r.randint(1, 5)
            vals = [r.choice(VALS) for _i in range(n)]
            calls = collections.Counter()

            def fn(i, vals=vals, calls=calls):
                calls[i] += 1
                v = vals[i]
                return (v, calls[i]) if calls[i] > 1 else v        # a second evaluation would be visible
            keyed = r.random() < 0.5
            # keys: ordinary ones, or strings that look like integers ('0', '-1', '10') stored at OTHER positions - a key is a key
            if keyed and r.random() < 0.5:
                pool = [str((i + 1) % n) for i in range(n)]
                if n > 1 and r.random() < 0.5:
                    pool[0] = '-1'
                if r.random() < 0.3:
                    pool[-1] = '10'
                knames = pool
            else:
                knames = [f'key{i}' for i in range(n)]
            src = ld.new({knames[i]: i for i in range(n)} if keyed else list(range(n))).map(fn)
            wd = None
            try:
                if disk_dir is not None:
                    wd = tempfile.mkdtemp(prefix='falsy_', dir=disk_dir)
                    d = src.diskcache(cache_dir=os.path.join(wd, 'c'))
                else:
                    d = src.cache() if r.random() < 0.5 else ld.core.CacheDataset(src, None, immutable_warranty=r.choice(['pickle', 'copy']))
                seen = []
                for _a in range(r.randint(2, 6)):
                    how = r.choice(['idx', 'neg', 'iter', 'slice', 'copy'] + (['key', 'items'] if keyed else []))
                    i = r.randrange(n)
                    if how == 'idx': seen.append((i, d[i]))
                    elif how == 'neg': seen.append((i, d[i - n]))
                    elif how == 'key': seen.append((i, d[knames[i]]))
                    elif how == 'iter': seen += list(enumerate(d))
                    elif how == 'items': seen += [(j, kv[1]) for j, kv in enumerate(d.items())]
                    elif how == 'slice': seen += [(i + j, x) for j, x in enumerate(d[i:])]
                    else: seen.append((i, d.copy(freeze=True)[i]))
                bad = [(i, v) for i, v in seen if repr(v) != repr(vals[i])]
                if bad or any(c > 1 for c in calls.values()):
                    fails.append(dict(kind='history', summary=f'{"disk" if disk_dir else "memory"} cache over examples {vals!r}: pipeline evaluations per example {dict(calls)}, '
                                      f'accesses that did not return the first value: {bad[:4]}'[:600], config=dict(kind='falsy', vals=[repr(v) for v in vals])))
                del d
            except Exception as e:
                fails.append(dict(kind='history', summary=f'cache over examples {vals!r} raised {type(e).__name__}: {e}'[:300], config=dict(kind='falsy')))
            finally:
                if wd:
                    import gc
                    gc.collect()
                    shutil.rmtree(wd, ignore_errors=True)
    return fails


def run_history(ld, n, limited, mem, ops, keyed):
    """returns (outs, calls, cache size)"""
    import psutil
    calls = collections.Counter()

    def fn(i):
        c = calls[i]
        calls[i] += 1
        return [i, [c]]            # nested: a consumer that modifies what it got must not reach the cached example
    keys = [gen_a.KEYS[i] for i in range(n)]
    if keyed:
        common.unrelated_cache_traffic(ld, keys)        # other caches of the process hold the same keys elsewhere
    src = ld.new(dict(zip(keys, range(n)))) if keyed else ld.new(list(range(n)))
    up = src.map(fn)
    with warnings.catch_warnings():
        warnings.simplefilter('ignore')
        old = psutil.virtual_memory

        class AtConstruction:        # what psutil reports while the cache is being set up: 2000 bytes in total, 1200 of them available
            available, total = 1200, 2000
        psutil.virtual_memory = lambda: AtConstruction
        try:
            # the same threshold (1000 bytes) spelled as a number of bytes, as a share of the total memory, and as a size string
            # (size strings are binary: '1 KB' = '1 KiB' = 1024 bytes)
            spelling, T = [(1000, 1000), ('50%', 1000), ('1000 B', 1000), (' 50 %', 1000), ('1000', 1000), ('1 KB', 1024), ('1 KiB', 1024), ('2 KB', 2048),
                           # the documented default of ds.cache(): "8 GB" (binary), whether the argument is left out or passed as None
                           ('DEFAULT', 8 * 1024 ** 3), ('NONE', 8 * 1024 ** 3)][(n + len(ops) + len(mem)) % 10]
            if limited and spelling in ('DEFAULT', 'NONE'):
                root = up.cache() if spelling == 'DEFAULT' else up.cache(keep_mem_free=None)
            elif (n + len(ops)) % 4 == 1:
                root = ld.core.CacheDataset(up, spelling if limited else None, immutable_warranty='copy')
            elif not limited:
                root = ld.core.CacheDataset(up, None)
            elif (len(ops) + n) % 2:
                root = up.cache(keep_mem_free=spelling)
            else:
                root = ld.core.CacheDataset(up, spelling)
        finally:
            psutil.virtual_memory = old
        handles = [root]
        oracle = Oracle(mem, T if limited else 1000)
        psutil.virtual_memory = oracle
        outs = []
        iters, ipos = {}, {}
        try:
            for op in ops:
                k = op[0]
                h = op[1]
                if h >= len(handles):
                    outs.append(('nohandle',))
                    continue
                d = handles[h]
                try:
                    if k == 'get':
                        outs.append(('val', tv(d[op[2]])))
                    elif k == 'getnp':
                        import numpy as np
                        outs.append(('val', tv(d[np.int64(op[2])])))
                    elif k == 'getk':
                        outs.append(('val', tv(d[keys[op[2]]])))
                    elif k == 'copy':
                        handles.append(d.copy(freeze=op[2]))
                        outs.append(('new', len(handles) - 1))
                    elif k == 'itnext':
                        # an iteration IN FLIGHT: one next() of iterator number op[2] (created over handle h at its first use)
                        if op[2] not in iters:
                            iters[op[2]] = iter(d.items()) if op[3] else iter(d)
                            ipos[op[2]] = 0
                        try:
                            x = next(iters[op[2]])
                            outs.append(('val', tv(x[1] if op[3] else x)))
                            ipos[op[2]] += 1
                        except StopIteration:
                            outs.append(('end', ipos[op[2]]))
                    elif k == 'iter':
                        outs.append(('vals', [tv(x) for x in d]))
                    elif k == 'items':
                        outs.append(('vals', [tv(x[1]) for x in d.items()]))
                    elif k == 'slice':
                        outs.append(('vals', [tv(x) for x in d[op[2]:op[3]]]))
                    elif k == 'prefetch':
                        outs.append(('vals', [tv(x) for x in d.prefetch(2, 2)]))
                        handles.append(d.copy(freeze=True))      # the model numbers prefetch's internal copy as a handle
                except IndexError:
                    outs.append(('indexerror',))
        finally:
            psutil.virtual_memory = old
    return outs, [calls[i] for i in range(n)], len(root._cache)


def model_ops(n, ops, handles_before):
    """the model's op list for a history (slices / items / key lookups are sequences of positive gets;
    thread prefetch copies the dataset (freeze) and then reads every index through the copy)"""
    out = []
    nh = handles_before
    ipos, ih = {}, {}
    for op in ops:
        k, h = op[0], op[1]
        if k in ('get', 'getnp'):
            out.append([f'MGet {h}%nat {gen_a.z(op[2])}'])
        elif k == 'getk':
            out.append([f'MGet {h}%nat {op[2]}'])
        elif k == 'copy':
            out.append([f'MCopy {h}%nat'])
            nh += 1 if h < nh else 0
        elif k == 'itnext':
            p = ipos.get(op[2], 0)
            if p < n and h < nh:
                out.append([f'MGet {ih.setdefault(op[2], h)}%nat {p}'])
                ipos[op[2]] = p + 1
            elif h < nh:
                out.append([])            # exhausted: no cache access
            else:
                out.append([f'MGet {h}%nat 0'])     # unknown handle
        elif k in ('iter', 'items'):
            out.append([f'MIter {h}%nat'])
        elif k == 'slice':
            idx = list(range(n))[op[2]:op[3]]
            out.append([f'MGet {h}%nat {i}' for i in idx])
        elif k == 'prefetch':
            if h < nh:
                out.append([f'MCopy {h}%nat', f'MIter {nh}%nat'])
                nh += 1
            else:
                out.append([f'MIter {h}%nat'])
    return out


def coq_out(o):
    if o[0] == 'val': return f'(MVal V2 ({o[1][0]}%nat, {o[1][1]}%nat))'
    if o[0] == 'indexerror': return '(MIndexError V2)'
    if o[0] == 'nohandle': return '(MNoHandle V2)'
    if o[0] == 'end': return '(MIndexError V2)'
    if o[0] == 'new': return f'(MNewHandle V2 {o[1]}%nat)'
    if o[0] == 'vals': return '(MVals V2 [%s])' % '; '.join(f'({a}%nat, {b}%nat)' for a, b in o[1])
    raise ValueError(o)


def coq_case(n, limited, mem, ops, res):
    outs, calls, size = res
    groups = model_ops(n, ops, 1)
    flat_ops, flat_outs = [], []
    nh = 1
    for op, grp, o in zip(ops, groups, outs):
        flat_ops += grp
        if op[0] == 'slice':
            flat_outs += [coq_out(('val', v)) for v in o[1]] if o[0] == 'vals' else [coq_out(o)] * len(grp)
        elif op[0] == 'prefetch' and len(grp) == 2:
            flat_outs += [f'(MNewHandle V2 {nh}%nat)', coq_out(o)]
            nh += 1
        elif op[0] == 'itnext' and not grp:
            pass                              # StopIteration at the end of an in-flight iteration (checked directly)
        else:
            flat_outs.append(coq_out(o))
            if op[0] == 'copy' and o[0] == 'new':
                nh += 1
    b = lambda x: 'true' if x else 'false'
    return ('(mkMC %d%%nat %s [%s] [%s] [%s] [%s] %d%%nat)' % (
        n, b(limited), '; '.join(b(x) for x in mem), '; '.join(flat_ops), '; '.join(flat_outs),
        '; '.join(f'{c}%nat' for c in calls), size))


def eval_cases(cases, tag, per=300):
    d = common.fresh_dir(tag)
    files = []
    for s in range(0, len(cases), per):
        f = os.path.join(d, f'c_{s // per:03d}.v')
        with open(f, 'w') as fh:
            fh.write(HEADER)
            fh.write('Definition cases : list mcase := [\n' + ';\n'.join(cases[s:s + per]) + '\n].\n')
            fh.write('Eval vm_compute in (mbad 0 cases).\n')
        files.append((s, f))
    outs = common.run_case_files([f for _, f in files])
    bad = []
    for s, f in files:
        out = outs[f]
        body = out[out.index('=') + 1:out.rindex(':')]
        bad += [s + int(x) for x in re.findall(r'\d+', body)]
    return bad


def gen_history(r, n, keyed, all_fine):
    ops = []
    nh = 1
    its = {}
    for _ in range(r.randint(1, 12)):
        h = r.randrange(nh) if r.random() < 0.95 else nh + 1
        k = r.choice(['get', 'get', 'get', 'getnp', 'copy', 'iter', 'slice', 'itnext', 'itnext', 'itnext'] + (['getk', 'items'] if keyed and n else []) +
                     (['prefetch'] if all_fine else []))
        if k == 'itnext':
            itid = r.randrange(2)
            if itid in its:
                h, wk = its[itid]
            else:
                wk = bool(keyed and n and r.random() < 0.3)
                if h < nh:
                    its[itid] = (h, wk)
            ops.append((k, h, itid, wk))
            continue
        if k in ('get', 'getnp'):
            ops.append((k, h, r.randint(-n - 1, n)))
        elif k == 'getk':
            ops.append((k, h, r.randrange(n)))
        elif k == 'copy':
            ops.append((k, h, r.random() < 0.7))
            if h < nh:
                nh += 1
        elif k == 'slice':
            a, b = sorted([r.randint(0, n), r.randint(0, n)])
            ops.append((k, h, a, b))
        else:
            ops.append((k, h))
            if k == 'prefetch' and h < nh:
                nh += 1
    return ops


def direct(n, limited, mem, ops, res):
    """the property on the implementation alone"""
    outs, calls, size = res
    fails = []
    all_fine = (not limited) or all(mem)
    first = {}
    seen_cached = {}
    for op, o in zip(ops, outs):
        vals = []
        if o[0] == 'end' and o[1] != n:
            fails.append(f'an iteration in flight ended after {o[1]} of {n} examples')
        if o[0] == 'val':
            vals = [o[1]]
        elif o[0] == 'vals':
            vals = o[1]
        for (i, c) in vals:
            first.setdefault(i, c)
            if all_fine and c != 0:
                fails.append(f'memory permitted, yet example {i} was served from its evaluation number {c} (not the first)')
    if all_fine and any(c > 1 for c in calls):
        fails.append(f'memory permitted, yet the upstream ran {calls} times per example (more than once)')
    return fails[:1]


def run(tier):
    ld = common.import_impl()
    r = common.rng_for('C10')
    N = 700 if tier == 'quick' else 12000
    hist = []
    # the repaired finding F6 replays first: c[-1] then c[n-1] must hit the same cache entry
    hist.append((3, True, [], [('get', 0, -1), ('get', 0, 2), ('get', 0, -3), ('get', 0, 0)], False))
    for _ in range(N):
        n = r.choice([0, 1, 2, 3, 3, 4])
        keyed = r.random() < 0.4
        limited = r.random() < 0.85
        mode = r.random()
        if mode < 0.45:
            mem = []
        elif mode < 0.6:
            mem = [False] * 30
        else:
            mem = [r.random() < 0.6 for _ in range(r.randint(1, 12))]
        all_fine = (not limited) or all(mem)
        hist.append((n, limited, mem, gen_history(r, n, keyed, all_fine), keyed))
    if tier != 'quick':
        # bounded-exhaustive: all histories of <= 4 basic ops over n = 2, one flip point of the oracle
        basic = [('get', 0, -2), ('get', 0, -1), ('get', 0, 0), ('get', 0, 1), ('get', 0, 2), ('copy', 0, True), ('iter', 0), ('get', 1, 1), ('iter', 1)]
        for L in range(1, 5):
            for ops in itertools.product(basic, repeat=L):
                for flip in (None, 0, 1, 2):
                    mem = [] if flip is None else [True] * flip + [False] * 10
                    hist.append((2, True, mem, list(ops), False))
    cases, failures, results = [], [], []
    for (n, limited, mem, ops, keyed) in hist:
        common.tick()
        res = run_history(ld, n, limited, mem, ops, keyed)
        results.append(res)
        for msg in direct(n, limited, mem, ops, res):
            failures.append(dict(kind='history', summary=msg, config=dict(n=n, limited=limited, mem=mem, ops=[list(o) for o in ops], keyed=keyed),
                                 got_from_impl=repr(res)[:600]))
        cases.append(coq_case(n, limited, mem, ops, res))
    bad = eval_cases(cases, f'C10_{tier}')
    flagged = set(id(f) for f in failures)
    for i in bad:
        n, limited, mem, ops, keyed = hist[i]
        failures.append(dict(kind='history', summary=f'model and implementation disagree on history n={n} limited={limited} mem={mem} ops={ops}: impl={results[i]!r}'[:700],
                             config=dict(n=n, limited=limited, mem=mem, ops=[list(o) for o in ops], keyed=keyed), got_from_impl=repr(results[i])[:600]))
    # eager caching snapshots content and order at call time
    snap_fail = eager_snapshot(ld, r, 60 if tier == 'quick' else 600)
    for msg in snap_fail:
        failures.append(dict(kind='history', summary=msg, config={}))
    keys = set(repr(h) for h in hist)
    opc = collections.Counter(o[0] for h in hist for o in h[3])
    cov = dict(programs=len(hist), evaluations=len(hist), distinct=len(keys),
               distinct_nontrivial=len([1 for h in hist if len(h[3]) >= 3 and h[0] >= 2]),
               rule='access histories (<= 12 ops: index of either sign incl. np.int64, key, slice iteration, iteration, items, copy(freeze), 2-worker thread prefetch) over n = 0..4 '
                    'with a counting upstream (value = (index, evaluation number)) and a memory oracle (all fine / all low / random flips); thorough adds all histories of <= 4 basic ops over n = 2 '
                    'with every flip point; non-trivial = >= 3 ops over n >= 2',
               traces_validated_against_impl=len(hist), disagreements_checked=len(bad), op_histogram=dict(opc),
               oracle_modes=dict(collections.Counter('fine' if ((not h[1]) or all(h[2])) else ('all_low' if not any(h[2]) else 'flips') for h in hist)),
               eager_snapshot_cases=60 if tier == 'quick' else 600,
               samples=[dict(n=h[0], limited=h[1], mem=h[2], ops=h[3], result=results[i]) for i, h in list(enumerate(hist))[:3]],
               exhaustive=False)
    nf = 150 if tier == 'quick' else 2500
    failures += falsy_family(ld, common.rng_for('C10-falsy'), nf)
    cov['falsy_example_histories'] = nf
    return dict(coverage=cov, failures=failures, assumptions=['pickle round trip of cached values is faithful'])


def eager_snapshot(ld, r, count):
    fails = []
    for _ in range(count):
        common.tick()
        n = r.randint(0, 6)
        calls = collections.Counter()

        def fn(i):
            calls[i] += 1
            return [i, calls[i]]
        shape = r.choice(['list', 'dict', 'dup_concat', 'dup_intersperse', 'dup_index', 'filter'])
        if shape == 'list':
            src = ld.new(list(range(n)))
        else:
            src = ld.new({f'k{i}': i for i in range(n)})
        if shape == 'dup_concat':          # the same keys twice: the eager cache falls back to a key-less list of the values
            src = src.concatenate(src)
        elif shape == 'dup_intersperse' and n:
            src = src.intersperse(src)
        elif shape == 'dup_index' and n:
            src = src[[0, n - 1, 0]]
        elif shape == 'filter':
            src = src.filter(lambda x: x % 2 == 0)
        elif r.random() < 0.5 and n:
            src = src[r.sample(range(n), r.randint(1, n))]
        up = src.map(fn)
        expect = [int(x) for x in src]      # content and order at call time
        snap = up.cache(lazy=False) if r.random() < 0.7 else ld.new(up)
        first = [list(x) if isinstance(x, list) else x for x in snap]
        if [x[0] if isinstance(x, list) else x for x in first] != expect:
            fails.append(f'cache(lazy=False) of a {shape} dataset: snapshot holds {first}, the pipeline produced the examples {expect} at call time')
            continue
        ncalls = dict(calls)
        again = [list(x) for x in snap]
        byidx = [list(snap[i]) for i in range(len(snap))]
        if first != again or first != byidx or dict(calls) != ncalls or dict(calls) != dict(collections.Counter(expect)):        # once per position, never again
            fails.append(f'cache(lazy=False) is not a frozen snapshot: first={first} again={again} byidx={byidx} calls={dict(calls)}')
    return fails[:3]


def replay(payload):
    ld = common.import_impl()
    c = payload['config']
    if not c:
        return True
    if c.get('kind') == 'falsy':
        ff = falsy_family(ld, common.rng_for('C10-falsy'), 150)
        print('  falsy-example family:', [f['summary'][:200] for f in ff[:2]])
        return bool(ff)
    ops = [tuple(o) for o in c['ops']]
    res = run_history(ld, c['n'], c['limited'], c['mem'], ops, c['keyed'])
    d = direct(c['n'], c['limited'], c['mem'], ops, res)
    bad = eval_cases([coq_case(c['n'], c['limited'], c['mem'], ops, res)], 'replay10')
    print('  impl:', res, '\n  predicate:', d, '\n  model disagrees:', bool(bad))
    return bool(d or bad)
