"""C11 - disk cache is reused exactly and cleared exactly when asked (Model C, Cache.v Section Disk).
Lifecycles open / access / copy / release / reopen over one directory; process death is REAL: the segment
before a Kill runs in a child process that SIGKILLs itself (after each store and at random instants)."""
import os, re, sys, json, gc, shutil, tempfile, subprocess, collections, signal, time, warnings
from concurrent.futures import ThreadPoolExecutor
from .. import common, gen_a

PROP_FILE = 'props/C11.v'
TRUSTED = ['atomicity / durability of one diskcache (SQLite) store across kill -9 is assumed by the model and exercised for real by the tie']

HEADER = """From Coq Require Import List Arith ZArith Bool.
Import ListNotations.
Require Import LD.Cache LD.CacheTie.
Open Scope Z_scope.
"""

CHILD = r'''
import sys, os, json, gc, signal, warnings, time
warnings.simplefilter('ignore')
sys.path.insert(0, os.environ['VERIF_REPO_ABS'])
sys.path.insert(1, os.environ['VERIF_ABS'])
from harness.props.c11 import run_segment
spec = json.loads(sys.stdin.read())
import lazy_dataset
H = []   # keeps every dataset alive until the kill: no __del__ may run
res = run_segment(lazy_dataset, spec['n'], spec['dir'], spec['ops'], spec.get('sleep', 0), handles=H)
sys.stdout.write(json.dumps(res)); sys.stdout.flush()
os.kill(os.getpid(), signal.SIGKILL)
'''


INFLIGHT = []


def pyval(i):
    """the pipeline value of example i: falsy / None values are legal examples too"""
    return {1: None, 2: 0, 3: ''}.get(i, i * 10 + 1)


def enc(v, i):
    """what the model calls the value of example i (i*10+1), or -1 if the implementation returned something else"""
    return i * 10 + 1 if (v == pyval(i) and type(v) is type(pyval(i))) else -1


def run_segment(ld, n, cdir, ops, sleep=0.0, handles=None):
    """executes ops in this process; returns (outs, calls)"""
    calls = collections.Counter()

    def fn(i):
        calls[i] += 1
        if sleep:
            time.sleep(sleep)
        return pyval(i)
    handles = [] if handles is None else handles
    outs = []
    # every third segment runs with little space left on the cache device (3 GiB free: the library warns and keeps storing)
    import shutil as _sh
    old_du = _sh.disk_usage
    if (n + len(ops)) % 3 == 0:
        free = [3 * 2 ** 30, 2 ** 30, 5 * 2 ** 30 - 1, 5 * 2 ** 30][(n + 2 * len(ops)) % 4]       # warn-and-store band incl. both of its ends
        _sh.disk_usage = lambda path: collections.namedtuple('usage', 'total used free')(100 * 2 ** 30, 100 * 2 ** 30 - free, free)
    try:
        return _run_segment(ld, n, cdir, ops, fn, calls, handles, outs)
    finally:
        _sh.disk_usage = old_du


def _run_segment(ld, n, cdir, ops, fn, calls, handles, outs):
    with warnings.catch_warnings():
        warnings.simplefilter('ignore')
        for op in ops:
            k = op[0]
            try:
                if k == 'open':
                    try:
                        keyed = len(op) > 3 and op[3]
                        up = ld.new({f'k{i}': i for i in range(n)} if keyed else list(range(n))).map(fn)
                        # the documented defaults are reuse=False, clear=True: spelled out or left out
                        if (not op[1]) and op[2] and n % 2:
                            d = up.diskcache(cache_dir=cdir)
                        elif op[2] and n % 2:
                            d = up.diskcache(cache_dir=cdir, reuse=op[1])
                        else:
                            d = up.diskcache(cache_dir=cdir, reuse=op[1], clear=op[2])
                    except RuntimeError:
                        outs.append(['refused'])
                        continue
                    handles.append(d)
                    outs.append(['new', len(handles) - 1])
                    continue
                h = op[1]
                d = handles[h] if h < len(handles) else None
                if d is None:
                    outs.append(['nohandle'])
                elif k == 'get':
                    outs.append(['val', enc(d[op[2]], op[2] % n if -n <= op[2] < n else op[2])])
                elif k == 'getkey':
                    outs.append(['val', enc(d[f'k{op[2]}'], op[2])])
                elif k == 'getnp':
                    import numpy as np
                    outs.append(['val', enc(d[np.int64(op[2])], op[2] % n if -n <= op[2] < n else op[2])])
                elif k == 'slice':
                    outs.append(['vals', [enc(x, op[2] + j) for j, x in enumerate(d[op[2]:op[3]])]])
                elif k == 'iterpart':
                    # an iteration IN FLIGHT: the first op[2] examples are consumed, the iterator stays suspended (and referenced)
                    # - if this segment ends with a kill, the process dies in the middle of the pass
                    # over a dict-backed source every other such pass reads (key, example) pairs: key iteration goes through the cache too
                    try:
                        ks = list(d.keys())
                    except Exception:
                        ks = None
                    if ks is not None and (h + op[2]) % 2:
                        it = iter(d.items())
                        INFLIGHT.append((h, it))
                        vals = []
                        for j in range(op[2]):
                            kk, x = next(it)
                            vals.append(enc(x, j) if kk == ks[j] == f'k{j}' else -5)
                        outs.append(['vals', vals])
                    else:
                        it = iter(d)
                        INFLIGHT.append((h, it))
                        outs.append(['vals', [enc(next(it), j) for j in range(op[2])]])
                elif k == 'copy':
                    handles.append(d.copy(freeze=True))
                    outs.append(['new', len(handles) - 1])
                elif k == 'release':
                    # iterators in flight over this handle are dropped with it (they hold a reference to the dataset)
                    INFLIGHT[:] = [(hh, x) for hh, x in INFLIGHT if hh != h]
                    it = None
                    handles[h] = None
                    del d
                    gc.collect()
                    outs.append(['done'])
            except IndexError:
                outs.append(['indexerror'])
    return [outs, [calls[i] for i in range(n)]]


def run_history(ld, n, segments, workdir):
    """segments: list of op lists; every segment but the last ends with a REAL kill -9 of the process that ran it.
    Handle numbers are global over the history (as in the model)."""
    cdir = os.path.join(workdir, 'cache')
    if (n + sum(len(x) for x in segments)) % 4 == 0:
        os.makedirs(cdir)            # the directory may exist already, as long as it is empty
    outs_all = []
    offset = 0
    calls = [0] * n
    for si, ops in enumerate(segments):
        last = si == len(segments) - 1
        # renumber handles: the model's handle ids are global; inside a process they start at 0
        local = []
        for op in ops:
            if op[0] == 'open':
                local.append(op)
            else:
                local.append([op[0], op[1] - offset if op[1] >= offset else 10 ** 6] + list(op[2:]))
        if last:
            hs = []
            outs, calls = run_segment(ld, n, cdir, local, handles=hs)
            final = inspect_dir(cdir)          # observed while the surviving handles are still alive
            del INFLIGHT[:]
            hs.clear()                         # then release what is left (not part of the compared history)
            gc.collect()
        else:
            env = dict(os.environ, VERIF_REPO_ABS=os.path.abspath(common.REPO), VERIF_ABS=common.VERIF)
            p = subprocess.run([sys.executable, '-c', CHILD], input=json.dumps(dict(n=n, dir=cdir, ops=local)),
                               capture_output=True, text=True, env=env, timeout=120)
            if p.returncode != -signal.SIGKILL:
                raise common.ImplMisbehaviour(f'the child process running lifecycle segment {local} on n={n} ended with rc={p.returncode} instead of being killed: {p.stderr[-800:]}')
            outs, calls = json.loads(p.stdout)
        nnew = 0
        for o in outs:
            if o[0] == 'new':
                o[1] += offset
                nnew += 1
        outs_all += outs
        offset += nnew
        if not last:
            outs_all.append(['done'])        # the Kill
    exists, stored = final
    return outs_all, calls, exists, stored


def inspect_dir(cdir):
    exists = os.path.isdir(cdir) and len(os.listdir(cdir)) > 0
    stored = []
    if exists:
        import diskcache, sqlite3
        db = os.path.join(cdir, 'cache.db')
        if os.path.exists(db):
            try:
                con = sqlite3.connect(db, timeout=2)
                con.execute('BEGIN IMMEDIATE')
                con.rollback()
                con.close()
            except sqlite3.OperationalError:
                return exists, [-3]      # locked: somebody holds an open write transaction (diskcache itself would retry forever)
        c = diskcache.Cache(cdir)
        keys = list(c.iterkeys())

        stored = sorted(int(k) for k in keys)
        if len(set(stored)) != len(stored):
            stored.append(-2)        # the same example stored under two keys
        bad = [k for k in keys if enc(c[k], int(k)) < 0]
        c.close()
        if bad:
            stored.append(-1)
    return exists, stored


def coq_ops(segments):
    out = []
    b = lambda x: 'true' if x else 'false'
    for si, ops in enumerate(segments):
        for op in ops:
            k = op[0]
            if k == 'open': out.append(f'DOpen {b(op[1])} {b(op[2])}')
            elif k in ('get', 'getnp', 'getkey'): out.append(f'DGet {op[1]}%nat {gen_a.z(op[2])}')
            elif k == 'slice':
                for i in range(op[2], op[3]):
                    out.append(f'DGet {op[1]}%nat {i}')
            elif k == 'iterpart':
                for i in range(op[2]):
                    out.append(f'DGet {op[1]}%nat {i}')
            elif k == 'copy': out.append(f'DCopyH {op[1]}%nat')
            elif k == 'release': out.append(f'DRelease {op[1]}%nat')
        if si != len(segments) - 1:
            out.append('DKill')
    return out


def coq_out(o):
    k = o[0]
    if k == 'val': return f'(DVal nat {o[1] if o[1] >= 0 else 999983}%nat)'        # a foreign value: well-typed, matches nothing
    if k == 'indexerror': return '(DIndexError nat)'
    if k == 'nohandle': return '(DNoHandle nat)'
    if k == 'new': return f'(DNew nat {o[1]}%nat)'
    if k == 'refused': return '(DRefused nat)'
    if k == 'done': return '(DDone nat)'
    raise ValueError(o)


def flat_outs(segments, outs):
    """a slice iteration is a sequence of gets in the model"""
    ops = [op for si, seg in enumerate(segments) for op in (seg + ([['kill']] if si != len(segments) - 1 else []))]
    res = []
    for op, o in zip(ops, outs):
        if op[0] in ('slice', 'iterpart'):
            cnt = (op[3] - op[2]) if op[0] == 'slice' else op[2]
            if o[0] == 'vals':
                res += [['val', v] for v in o[1]]
            else:
                res += [o] * cnt
        else:
            res.append(o)
    return res


def coq_case(n, segments, res):
    outs, calls, exists, stored = res
    outs = flat_outs(segments, outs)
    return '(mkDC %d%%nat [%s] [%s] [%s] %s [%s])' % (
        n, '; '.join(coq_ops(segments)), '; '.join(coq_out(o) for o in outs), '; '.join(f'{c}%nat' for c in calls),
        'true' if exists else 'false', '; '.join(f'{k}%nat' for k in sorted(set(stored)) if k >= 0))


def eval_cases(cases, tag):
    d = common.fresh_dir(tag)
    f = os.path.join(d, 'd.v')
    with open(f, 'w') as fh:
        fh.write(HEADER)
        fh.write('Definition cases : list dcase := [\n' + ';\n'.join(cases) + '\n].\n')
        fh.write('Eval vm_compute in (dbad 0 cases).\n')
    out = common.run_case_files([f])[f]
    body = out[out.index('=') + 1:out.rindex(':')]
    return [int(x) for x in re.findall(r'\d+', body)]


def run(tier):
    ld = common.import_impl()
    r = common.rng_for('C11')
    work = tempfile.mkdtemp(prefix='c11_', dir=common.BUILD if os.path.isdir(common.BUILD) else None)
    N = 160 if tier == 'quick' else 2500
    NK = 24 if tier == 'quick' else 300
    hist = []
    for i in range(N):
        n = r.choice([1, 2, 3, 4])
        hist.append((n, gen_history_consistent(r, n, 1)))
    for i in range(NK):
        n = r.choice([2, 3, 4])
        hist.append((n, gen_history_consistent(r, n, r.choice([2, 2, 3]))))
    results, cases, failures = [None] * len(hist), [], []

    def one(i):
        n, segs = hist[i]
        wd = os.path.join(work, f'h{i}')
        os.makedirs(wd)
        try:
            return run_history(ld, n, segs, wd)
        finally:
            shutil.rmtree(wd, ignore_errors=True)
    # in-process histories must run in this thread (gc / __del__ ordering); kill histories spawn children
    for i in range(len(hist)):
        common.tick()
        try:
            results[i] = one(i)
        except Exception as e:
            # the history itself is the failing input (e.g. the cache directory vanished under a dataset that still uses it)
            failures.append(dict(kind='history', summary=f'lifecycle n={hist[i][0]} {hist[i][1]} could not be run to its end: {type(e).__name__}: {e}'[:600],
                                 config=dict(n=hist[i][0], segments=hist[i][1])))
            results[i] = None
    for i, (n, segs) in enumerate(hist):
        res = results[i]
        if res is None:
            cases.append(None)
            continue
        for msg in direct(n, segs, res):
            failures.append(dict(kind='history', summary=msg, config=dict(n=n, segments=segs), got_from_impl=repr(res)[:600]))
        cases.append(coq_case(n, segs, res))
    live = [i for i, c in enumerate(cases) if c is not None]
    bad = [live[j] for j in eval_cases([cases[i] for i in live], f'C11_{tier}')]
    for i in bad:
        n, segs = hist[i]
        failures.append(dict(kind='history', summary=f'model and implementation disagree on lifecycle n={n} {segs}: impl={results[i]!r}'[:700],
                             config=dict(n=n, segments=segs), got_from_impl=repr(results[i])[:600]))
    # kill at random instants while a child populates the cache, then reopen with reuse
    rk = random_kills(ld, r, work, 4 if tier == 'quick' else 50)
    for msg in rk:
        failures.append(dict(kind='history', summary=msg, config={}))
    from . import c10 as _c10
    for f in _c10.falsy_family(ld, common.rng_for('C11-falsy'), 25 if tier == 'quick' else 400, disk_dir=work):
        failures.append(f)
    tf, ntemp = temp_dir_checks(ld)
    for msg in tf:
        failures.append(dict(kind='history', summary=msg, config=dict(kind='temp_dir')))
    ff, nforeign = foreign_dir_checks(ld, work)
    for msg in ff:
        failures.append(dict(kind='history', summary=msg, config=dict(kind='foreign_dir')))
    shutil.rmtree(work, ignore_errors=True)
    opc = collections.Counter(o[0] for n, segs in hist for s in segs for o in s)
    cov = dict(programs=len(hist), evaluations=len(hist), distinct=len(set(repr(h) for h in hist)),
               distinct_nontrivial=len(set(repr(h) for h in hist if sum(len(s) for s in h[1]) >= 4)),
               rule='lifecycles over one directory (list- and dict-backed sources): open(reuse, clear) / get (either sign, numpy integer, string key) / slice / copy / release / reopen, all reuse x clear combinations, '
                    'sequential wrappers; kill histories run each pre-kill segment in a child process that SIGKILLs itself; non-trivial = >= 4 ops',
               traces_validated_against_impl=len(hist), disagreements_checked=len(bad), op_histogram=dict(opc),
               kill_histories=NK, foreign_directory_runs=nforeign, temporary_directory_runs=ntemp, random_instant_kills=4 if tier == 'quick' else 50,
               samples=[dict(n=hist[i][0], segments=hist[i][1], result=results[i]) for i in (0, N, len(hist) - 1) if results[i] is not None],
               exhaustive=False)
    return dict(coverage=cov, failures=failures, assumptions=['one diskcache store is atomic and durable across kill -9 (SQLite)'])


def foreign_dir_checks(ld, work):
    """'A non-empty directory with reuse=False is refused' - whatever the directory holds (a file, a hidden file, only
    sub-directories, nested content); with reuse=True it is used, and removed at the last release iff clear=True."""
    import gc
    fails, runs = [], 0
    kinds = ['file', 'hidden', 'subdir', 'subdir_file', 'two_subdirs']
    for kind in kinds:
        for mode in ('default', 'reuse_false', 'reuse_keep', 'reuse_clear'):
            runs += 1
            wd = tempfile.mkdtemp(prefix='c11f_', dir=work)
            cdir = os.path.join(wd, 'cache')
            os.makedirs(cdir)
            if kind == 'file': open(os.path.join(cdir, 'notes.txt'), 'w').write('x')
            elif kind == 'hidden': open(os.path.join(cdir, '.keep'), 'w').write('x')
            elif kind == 'subdir': os.makedirs(os.path.join(cdir, 'experiment_1'))
            elif kind == 'subdir_file':
                os.makedirs(os.path.join(cdir, 'experiment_1'))
                open(os.path.join(cdir, 'experiment_1', 'precious.txt'), 'w').write('x')
            else:
                os.makedirs(os.path.join(cdir, 'a')); os.makedirs(os.path.join(cdir, 'b'))
            before = sorted(os.listdir(cdir))
            up = ld.new(list(range(3))).map(lambda i: i * 10 + 1)
            what = f'directory holding {before} ({kind}), {mode}'
            try:
                with warnings.catch_warnings():
                    warnings.simplefilter('ignore')
                    try:
                        if mode == 'default': d = up.diskcache(cache_dir=cdir)
                        elif mode == 'reuse_false': d = up.diskcache(cache_dir=cdir, reuse=False)
                        elif mode == 'reuse_keep': d = up.diskcache(cache_dir=cdir, reuse=True, clear=False)
                        else: d = up.diskcache(cache_dir=cdir, reuse=True, clear=True)
                        refused = False
                    except RuntimeError:
                        refused = True
                    if mode in ('default', 'reuse_false'):
                        if not refused:
                            fails.append(f'{what}: a non-empty directory was NOT refused although reuse=False')
                            del d
                            gc.collect()
                        if not os.path.isdir(cdir) or sorted(os.listdir(cdir)) != before:
                            fails.append(f'{what}: the refused directory was changed: now {sorted(os.listdir(cdir)) if os.path.isdir(cdir) else "removed"}')
                    else:
                        if refused:
                            fails.append(f'{what}: refused although reuse=True')
                        else:
                            got = [d[i] for i in (2, 0, 1, 2)]
                            if got != [21, 1, 11, 21]:
                                fails.append(f'{what}: values {got}')
                            del d
                            gc.collect()
                            exists = os.path.isdir(cdir)
                            if mode == 'reuse_keep' and not (exists and set(before) <= set(os.listdir(cdir))):
                                fails.append(f'{what}: clear=False but the directory / its earlier content is gone after the last release')
                            if mode == 'reuse_clear' and exists:
                                fails.append(f'{what}: clear=True but the directory still exists after the last release')
            except Exception as e:
                fails.append(f'{what}: raised {type(e).__name__}: {e}'[:300])
            finally:
                shutil.rmtree(wd, ignore_errors=True)
    return fails, runs


def temp_dir_checks(ld):
    """cache_dir=None: diskcache picks a temporary directory.  'removed at the last release iff clear=True' holds for it as for any
    other directory: with clear=False it survives (and serves its examples to a reuse=True reopen without recomputation)"""
    import gc
    fails, runs = [], 0
    for spelling in ('kw', 'positional', 'class'):
        for clear in (False, True):
            runs += 1
            calls = collections.Counter()

            def fn(i, calls=calls):
                calls[i] += 1
                return i * 10 + 1
            up = ld.new({f'k{i}': i for i in range(3)}).map(fn)
            path = None
            try:
                with warnings.catch_warnings():
                    warnings.simplefilter('ignore')
                    if spelling == 'kw': d = up.diskcache(clear=clear)
                    elif spelling == 'positional': d = up.diskcache(None, False, clear)
                    else: d = ld.core.DiskCacheDataset(up, clear=clear)
                    path = d._cache.cache.directory
                    got = [d[0], d['k2'], d[-2]]
                    c = d.copy(freeze=True)
                    del d
                    gc.collect()
                    mid = os.path.isdir(path)           # a copy still shares the cache
                    got.append(c[0])
                    del c
                    gc.collect()
                    after = os.path.isdir(path)
                    what = f'diskcache with cache_dir=None ({spelling}), clear={clear}'
                    if got != [1, 21, 11, 1] or not mid:
                        fails.append(f'{what}: values {got}, directory present while a copy is alive: {mid}')
                    elif after != (not clear):
                        fails.append(f'{what}: after the last release the temporary directory {"still exists" if after else "is gone"}')
                    elif not clear:
                        d2 = up.diskcache(cache_dir=path, reuse=True, clear=True)
                        before = dict(calls)
                        again = [d2[0], d2[1], d2[2]]
                        if again != [1, 11, 21] or dict(calls) != before:
                            fails.append(f'{what}: reopened with reuse=True the surviving directory gave {again} with evaluations {dict(calls)} (before the reopen: {before})')
                        del d2
                        gc.collect()
            except Exception as e:
                fails.append(f'diskcache with cache_dir=None ({spelling}), clear={clear} raised {type(e).__name__}: {e}'[:300])
            finally:
                gc.collect()
                if path and os.path.isdir(path):
                    shutil.rmtree(path, ignore_errors=True)
    return fails, runs


def gen_history_consistent(r, n, nseg):
    """generate with exact knowledge of which opens succeed (directory existence is tracked like the code does)"""
    exists = False
    nh = 0
    segments = []
    keyed = r.random() < 0.5        # dict-backed source: examples can be addressed by their string key as well
    for si in range(nseg):
        ops = []
        live = {}        # handle id -> wrapper id
        wr = {}          # wrapper id -> [clear, refs]
        for _ in range(r.randint(1, 8)):
            if not live:
                reuse, clear = r.random() < 0.6, r.random() < 0.5
                ops.append(['open', reuse, clear, keyed])
                if exists and not reuse:
                    continue
                exists = True
                w = len(wr)
                wr[w] = [clear, 1]
                live[nh] = w
                nh += 1
                continue
            h = r.choice(list(live))
            k = r.choice(['get', 'get', 'getnp', 'slice', 'copy', 'release', 'release', 'iterpart', 'iterpart'] + (['getkey', 'getkey'] if keyed else []))
            if r.random() < 0.05:
                h = nh + 3
            if k == 'iterpart':
                ops.append([k, h, r.randint(0, n)])
            elif k == 'getkey':
                ops.append([k, h, r.randint(0, n - 1)])
            elif k in ('get', 'getnp'):
                ops.append([k, h, r.randint(-n - 1, n)])
            elif k == 'slice':
                a, b = sorted([r.randint(0, n), r.randint(0, n)])
                ops.append(['slice', h, a, b])
            elif k == 'copy':
                ops.append(['copy', h])
                if h in live:
                    wr[live[h]][1] += 1
                    live[nh] = live[h]
                    nh += 1
            else:
                ops.append(['release', h])
                if h in live:
                    w = live.pop(h)
                    wr[w][1] -= 1
                    if wr[w][1] == 0 and wr[w][0]:
                        exists = False
        segments.append(ops)
        # Kill between segments: directory stays as it is
    return segments


def direct(n, segments, res):
    outs, calls, exists, stored = res
    fails = []
    if -1 in stored:
        fails.append('the directory holds a corrupt or misplaced example')
    if -3 in stored:
        fails.append('the cache database is locked by an open transaction (an iteration in flight holds it): nobody else can read or store')
    if -2 in stored:
        fails.append(f'the directory holds the same example under two different keys: {stored}')
    for o in outs:
        if o[0] == 'val' and o[1] < 0:
            fails.append('a read returned something that is not the pipeline value of that example')
    return fails[:1]


def random_kills(ld, r, work, count):
    fails = []
    for t in range(count):
        wd = os.path.join(work, f'rk{t}')
        os.makedirs(wd)
        cdir = os.path.join(wd, 'cache')
        n = 12
        env = dict(os.environ, VERIF_REPO_ABS=os.path.abspath(common.REPO), VERIF_ABS=common.VERIF)
        ops = [['open', False, True]] + [['get', 0, i] for i in range(n)]
        p = subprocess.Popen([sys.executable, '-c', CHILD], stdin=subprocess.PIPE, stdout=subprocess.PIPE, stderr=subprocess.PIPE, text=True, env=env)
        p.stdin.write(json.dumps(dict(n=n, dir=cdir, ops=ops, sleep=0.02)))
        p.stdin.close()
        time.sleep(0.35 + r.random() * 0.3)
        p.kill()
        p.wait()
        calls = collections.Counter()

        def fn(i):
            calls[i] += 1
            return pyval(i)
        try:
            with warnings.catch_warnings():
                warnings.simplefilter('ignore')
                import diskcache
                before = []
                if os.path.isdir(cdir):
                    c = diskcache.Cache(cdir)
                    before = sorted(int(k) for k in c.iterkeys())
                    c.close()
                d = ld.new(list(range(n))).map(fn).diskcache(cache_dir=cdir, reuse=True, clear=True)
                vals = list(d)
                if vals != [pyval(i) for i in range(n)]:
                    fails.append(f'after kill -9 at a random instant the reopened cache serves {vals}')
                rec = [i for i in before if calls[i]]
                if rec:
                    fails.append(f'stored examples {rec} were recomputed after reopening with reuse=True')
                del d
                gc.collect()
        except Exception as e:
            fails.append(f'reopen after kill -9 raised {type(e).__name__}: {e}')
        shutil.rmtree(wd, ignore_errors=True)
    return fails


def replay(payload):
    ld = common.import_impl()
    c = payload['config']
    if not c:
        return True
    work = tempfile.mkdtemp(prefix='c11r_')
    if c.get('kind') == 'falsy':
        from . import c10 as _c10
        try:
            ff = _c10.falsy_family(ld, common.rng_for('C11-falsy'), 25, disk_dir=work)
        finally:
            shutil.rmtree(work, ignore_errors=True)
        print('  falsy-example family:', [f['summary'][:200] for f in ff[:2]])
        return bool(ff)
    if c.get('kind') == 'temp_dir':
        shutil.rmtree(work, ignore_errors=True)
        tf, _ = temp_dir_checks(ld)
        print('  temporary-directory family:', tf[:3])
        return bool(tf)
    if c.get('kind') == 'foreign_dir':
        try:
            ff, _ = foreign_dir_checks(ld, work)
        finally:
            shutil.rmtree(work, ignore_errors=True)
        print('  foreign-directory family:', ff[:3])
        return bool(ff)
    try:
        res = run_history(ld, c['n'], c['segments'], work)
    finally:
        shutil.rmtree(work, ignore_errors=True)
    bad = eval_cases([coq_case(c['n'], c['segments'], res)], 'replay11')
    print('  impl:', res, '\n  model disagrees:', bool(bad))
    return bool(bad or direct(c['n'], c['segments'], res))
