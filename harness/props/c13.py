"""C13 - explicit seeds reproduce orders; frozen copies stay frozen; copies are faithful (Model F part 4).
Every draw of every generator is recorded and fed to the model, which must reproduce the orders AND consume
exactly the recorded draws of each generator (so it is checked WHICH generator each stage draws from)."""
import os, re, collections, warnings
import numpy as np
from .. import common
from .c12 import RecRng, nl

PROP_FILE = 'props/C13.v'
TRUSTED = ['numpy RandomState is deterministic given its seed; the model treats draws as recorded oracles']

HEADER = """From Coq Require Import List Arith Bool.
Import ListNotations.
Require Import LD.Shuffle LD.ShuffleTie.
"""


def gen_pipeline(r):
    """spec: list of stages bottom-up; returns the spec"""
    n = r.randint(0, 7)
    spec = [('src', n)]
    if r.random() < 0.5:
        spec.append(('det',))
    k = r.random()
    nrng = 0
    if k < 0.2:
        spec.append(('once', r.randint(0, 999)))
    elif k < 0.38:
        nrng += 1
        spec.append(('apply', nrng))
    elif k < 0.75:
        nrng += 1
        spec.append(('reshuffle', nrng))
        if r.random() < 0.4:
            g = nrng if r.random() < 0.3 else nrng + 1
            nrng = max(nrng, g)
            spec.append(('local', g, r.randint(1, 4)))
    else:
        nrng += 1
        spec.append(('local', nrng, r.randint(1, 4)))
    if r.random() < 0.4:
        spec.append(('det',))
    if r.random() < 0.35:
        spec.append(('prefetch', 1 if any(s[0] in ('local', 'apply') for s in spec) else r.choice([1, 2]),
                     'plain' if any(s[0] == 'local' for s in spec) else r.choice(['plain', 'plain', 'catch', 'catchcls'])))       # catching needs position access: not above a local shuffle
    return spec, nrng


def add1(x):
    return x


def build(ld, spec, rngs):
    ds = None
    once = {}
    for st in spec:
        if st[0] == 'src':
            ds = ld.new(list(range(st[1])))
        elif st[0] == 'det':
            ds = ds.map(add1)
        elif st[0] == 'once':
            rr = RecRng(st[1])
            ds = ds.shuffle(False, rng=rr)
            once[id(st)] = rr.draws[-1][1]
        elif st[0] == 'reshuffle':
            ds = ds.shuffle(True, rng=rngs[st[1]])
        elif st[0] == 'local':
            ds = ds.shuffle(True, rng=rngs[st[1]], buffer_size=st[2])
        elif st[0] == 'apply':
            ds = ds.apply(ApplyShuffle(rngs[st[1]]), lazy=True)
        elif st[0] == 'prefetch':
            # the same stage with examples being caught (nothing raises here): the epoch orders are those of the plain spelling
            if len(st) < 3 or st[2] == 'plain': ds = ds.prefetch(st[1], st[1] + 1)
            elif st[2] == 'catch': ds = ds.prefetch(st[1], st[1] + 1, catch_filter_exception=True)
            else: ds = ds.prefetch(st[1], st[1] + 1, catch_filter_exception=(KeyError, ld.FilterException))
    return ds, once


class ApplyShuffle:
    """the function handed to apply(..., lazy=True): adds a per-epoch reshuffle drawing from the given generator"""
    def __init__(self, rng): self.rng = rng
    def __call__(self, ds): return ds.shuffle(True, rng=self.rng)


def coq_rds(spec, once):
    t = None
    for st in spec:
        if st[0] == 'src': t = f'(XSrc {st[1]}%nat)'
        elif st[0] == 'det': t = f'(XDet {t})'
        elif st[0] == 'once': t = f'(XShuffleOnce {nl(once[id(st)])} {t})'
        elif st[0] == 'reshuffle': t = f'(XReShuffle {st[1]}%nat {t})'
        elif st[0] == 'local': t = f'(XLocal {st[1]}%nat {st[2]}%nat {t})'
        elif st[0] == 'apply': t = f'(XApply {st[1]}%nat {t})'
        elif st[0] == 'prefetch': t = f'(XPrefetch {t})'
    return t


def coq_draw(d):
    return f'DShuffle {nl(d[1])}' if d[0] == 'shuffle' else f'DChoice {d[1]}%nat'


def epochs_of(ds, m, scramble):
    out = []
    for e in range(m):
        scramble()
        out.append([int(x) for x in ds])
    return out


def run(tier):
    ld = common.import_impl()
    r = common.rng_for('C13')
    big = tier != 'quick'
    failures, cases, meta = [], [], []
    gseed = [0]

    def scramble():
        gseed[0] += 7919
        np.random.seed(gseed[0] % (2 ** 31))
        for _ in range(gseed[0] % 5):
            np.random.rand()
    with warnings.catch_warnings():
        warnings.simplefilter('ignore')
        for _ in range(4000 if big else 350):
            common.tick()
            spec, nrng = gen_pipeline(r)
            seeds = {g: r.randint(0, 10 ** 6) for g in range(1, nrng + 1)}
            m = r.randint(1, 3)
            rngs = {g: RecRng(s) for g, s in seeds.items()}
            ds, once = build(ld, spec, rngs)
            for g in rngs.values():
                g.draws.clear()
            orders = epochs_of(ds, m, scramble)
            store = '[' + '; '.join(['[]'] + ['[' + '; '.join(coq_draw(d) for d in rngs[g].draws) + ']' for g in range(1, nrng + 1)]) + ']'
            cases.append(f'({coq_rds(spec, once)}, {store}, {m}%nat, [{"; ".join(nl(o) for o in orders)}], [{"; ".join(["0%nat"] * (nrng + 1))}])')
            meta.append((spec, seeds, m, orders))
            # direct predicates -------------------------------------------------------------------
            # (1) an identically built pipeline with equally seeded generators gives the same orders
            rngs2 = {g: np.random.RandomState(s) for g, s in seeds.items()}
            ds2, _ = build(ld, spec, rngs2)
            o2 = epochs_of(ds2, m, scramble)
            if o2 != orders:
                failures.append(dict(kind='program', summary=f'equal seeds, different orders: {spec} seeds={seeds}: {orders} vs {o2}', config=dict(spec=spec, seeds=seeds, m=m)))
            # (2) copy() of a freshly built pipeline reproduces them, whatever the global numpy state
            rngs3 = {g: np.random.RandomState(s) for g, s in seeds.items()}
            ds3, _ = build(ld, spec, rngs3)
            try:
                o3 = epochs_of(ds3.copy(), m, scramble)
            except Exception as e:
                o3 = f'raised {type(e).__name__}'
            if o3 != orders:
                failures.append(dict(kind='program', summary=f'copy() of a freshly built pipeline does not reproduce the orders: {spec} seeds={seeds}: {orders} vs copy {o3}',
                                     config=dict(spec=spec, seeds=seeds, m=m)))
            # (3) one-time shuffle and copy(freeze=True) stay in one fixed order forever
            if any(s[0] == 'once' for s in spec) and not any(s[0] in ('reshuffle', 'local') for s in spec):
                if any(o != orders[0] for o in orders):
                    failures.append(dict(kind='program', summary=f'one-time shuffle changes between epochs: {spec}: {orders}', config=dict(spec=spec, seeds=seeds, m=m)))
            if any(s[0] in ('reshuffle', 'apply') for s in spec) and not any(s[0] in ('local', 'prefetch') for s in spec):
                # copy(freeze=True) of a per-epoch reshuffle (also a lazily applied one, at any depth below deterministic
                # stages) iterates in one fixed order forever
                try:
                    fz = ds.copy(freeze=True)
                    of = [[int(x) for x in fz]]
                    # ... also when the pipeline it was copied from goes through further epochs / is frozen again meanwhile
                    [int(x) for x in ds]
                    of.append([int(x) for x in fz])
                    fz2 = ds.copy(freeze=True)
                    [int(x) for x in fz2]
                    of.append([int(x) for x in fz])
                except Exception as e:
                    of = [f'raised {type(e).__name__}'] * 3 + ['x']
                if len(of) != 3 or of[0] != of[1] or of[1] != of[2] or sorted(of[0]) != list(range(spec[0][1])):
                    failures.append(dict(kind='program', summary=f'copy(freeze=True) of {spec} is not frozen: {of}', config=dict(spec=spec, seeds=seeds, m=m)))
                # catch() freezes its input on every iteration and then indexes it
                try:
                    oc = sorted(int(x) for x in ds.catch())
                except Exception as e:
                    oc = f'raised {type(e).__name__}'
                if oc != list(range(spec[0][1])):
                    failures.append(dict(kind='program', summary=f'catch() over {spec} (it iterates a frozen copy): {oc}', config=dict(spec=spec, seeds=seeds, m=m)))
            # (4) reshuffling datasets report themselves unordered
            if any(s[0] in ('reshuffle', 'local', 'apply') for s in spec) and spec[-1][0] != 'prefetch':
                if ds.ordered:
                    failures.append(dict(kind='program', summary=f'a pipeline containing a per-epoch shuffle reports ordered=True: {spec}', config=dict(spec=spec, seeds=seeds, m=m)))
        # (4') ... also when the random stage is one of several inputs of a combining stage, at any input position, and below further stages
        for _ in range(300 if big else 60):
            n = r.randint(2, 5)
            plain = lambda: ld.new({f'k{i}': i for i in range(n)})
            kind = r.choice(['reshuffle', 'local', 'lazyapply'])

            def rnd():
                d = plain()
                if kind == 'reshuffle': return d.shuffle(True, rng=np.random.RandomState(1))
                if kind == 'local': return d.shuffle(True, rng=np.random.RandomState(1), buffer_size=2)
                return d.apply(lambda x: x.shuffle(True, rng=np.random.RandomState(1)), lazy=True)
            k = r.choice([2, 2, 3])
            pos = r.randrange(k)
            inputs = [rnd() if i == pos else plain() for i in range(k)]
            comb = r.choice(['zip', 'concatenate', 'intersperse'])
            try:
                if comb == 'zip': d = ld.zip(*inputs)
                elif comb == 'concatenate': d = ld.concatenate(*inputs)
                else: d = ld.intersperse(*inputs)
                for st in r.sample(['map', 'batch', 'filter', 'unbatch', 'prefetch1'], r.randint(0, 2)):
                    if st == 'map': d = d.map(lambda x: x)
                    elif st == 'batch': d = d.batch(2)
                    elif st == 'filter': d = d.filter(lambda x: True)
                    elif st == 'unbatch': d = d.batch(2).unbatch()
                    else: d = d.prefetch(1, 2)
                od = d.ordered
            except Exception:
                continue
            if od:
                failures.append(dict(kind='program', summary=f'{comb} of {k} inputs with a {kind} stage at input {pos} (and stages on top) reports ordered=True', config=dict(comb=comb, k=k, pos=pos, kind=kind)))
        # (2') the same seeded per-epoch stage at SEVERAL positions of one pipeline (tile, self-concatenation): every position draws its
        #      own order in every epoch; behind consumers that freeze per epoch (multi-worker prefetch, catch, lazy apply) the
        #      orders of the plain pipeline are reproduced, and a frozen copy shows the epoch it was taken in
        for _ in range(200 if big else 40):
            n, reps, seed = r.randint(2, 6), r.randint(2, 3), r.randint(0, 10 ** 6)
            shape = r.choice(['tile', 'selfconcat'])

            def mk(wrap):
                rs = ld.new(list(range(n))).shuffle(True, rng=np.random.RandomState(seed))
                d = rs.tile(reps) if shape == 'tile' else rs.concatenate(*([rs] * (reps - 1)))
                return wrap(d)
            try:
                ref = [[int(x) for x in mk(lambda d: d)] for _e in [0]]
                plain = mk(lambda d: d)
                ref = [[int(x) for x in plain] for _e in range(3)]
                for how, wrap in (('prefetch(2, 4)', lambda d: d.prefetch(2, 4)), ('catch()', lambda d: d.catch()),
                                  ('lazy apply', lambda d: d.apply(lambda x: x, lazy=True)), ('map.prefetch(3, 3)', lambda d: d.map(int).prefetch(3, 3))):
                    w = mk(wrap)
                    got = [[int(x) for x in w] for _e in range(3)]
                    if got != ref:
                        failures.append(dict(kind='program', summary=f'seeded reshuffle of range({n}) (seed {seed}) used {reps} times in one pipeline ({shape}) behind {how}: epochs {got}, the plain pipeline gives {ref}',
                                             config=dict(n=n, reps=reps, seed=seed, shape=shape, how=how)))
                        break
                fz = mk(lambda d: d).copy(freeze=True)
                if [int(x) for x in fz] != ref[0] or [int(x) for x in fz] != ref[0]:
                    failures.append(dict(kind='program', summary=f'copy(freeze=True) of a {shape} of a seeded reshuffle (n={n}, reps={reps}, seed {seed}) is not the first epoch {ref[0]}', config=dict(n=n, reps=reps, seed=seed, shape=shape)))
            except Exception as e:
                failures.append(dict(kind='program', summary=f'{shape} of a seeded reshuffle raised {type(e).__name__}: {e}'[:300], config=dict(n=n, reps=reps, seed=seed, shape=shape)))
        # (3') a frozen copy is frozen THROUGH every kind of stage: whatever sits above the per-epoch reshuffle, copy(freeze=True) of the
        #      whole pipeline iterates in one fixed order; such pipelines do not claim to be indexable unless ds[0] works; string keys
        #      reach through the random stage
        above = ['map', 'parmap', 'filter', 'catch', 'prefetch1', 'batch', 'unbatch', 'concat', 'concat2', 'intersperse', 'zip', 'items',
                 'bucket', 'lazyapply', 'local', 'tile', 'map_items', 'key_batchmap', 'cycle']
        for st in above * (3 if big else 1):
            n, seed = r.randint(5, 8), r.randint(0, 10 ** 6)
            keyed = st in ('items', 'map_items') or r.random() < 0.5
            base = ld.new({f'k{i}': i for i in range(n)} if keyed else list(range(n)))
            rs = base.shuffle(True, rng=np.random.RandomState(seed))
            other = ld.new({f'z{i}': 100 + i for i in range(n)} if keyed else list(range(100, 100 + n)))
            try:
                if st == 'map': d = rs.map(lambda x: x)
                elif st == 'parmap': d = rs.map(lambda x: x, num_workers=2, buffer_size=2)
                elif st == 'filter': d = rs.filter(lambda x: True)
                elif st == 'catch': d = rs.catch()
                elif st == 'prefetch1': d = rs.prefetch(1, 2)
                elif st == 'batch': d = rs.batch(2)
                elif st == 'unbatch': d = rs.batch(2).unbatch()
                elif st == 'concat': d = rs.concatenate(other)
                elif st == 'concat2': d = other.concatenate(rs)
                elif st == 'intersperse': d = other.intersperse(rs)
                elif st == 'zip': d = other.zip(rs)
                elif st == 'items': d = rs.items()
                elif st == 'map_items': d = rs.map(lambda x: x).items()
                elif st == 'bucket': d = rs.map(lambda x: {'len': 1, 'v': x}).batch_dynamic_time_series_bucket(batch_size=2, len_key='len', max_padding_rate=0.5)
                elif st == 'lazyapply': d = rs.apply(lambda x: x.map(lambda y: y), lazy=True)
                elif st == 'local': d = rs.shuffle(True, rng=np.random.RandomState(seed + 1), buffer_size=1)
                elif st == 'tile': d = rs.tile(2)
                elif st == 'cycle': d = rs.cycle()
                else: d = rs.batch(2).batch_map(lambda x: x)
                fz = d.copy(freeze=True)
                import itertools as _it
                lim = 2 * n if st == 'cycle' else None
                a, b, c = [repr(x) for x in _it.islice(fz, lim)], [repr(x) for x in _it.islice(fz, lim)], [repr(x) for x in _it.islice(fz, lim)]
                if st == 'cycle' and a[:n] != a[n:]:
                    b = ['passes differ']
            except Exception as e:
                failures.append(dict(kind='program', summary=f'copy(freeze=True) of a {st} stage above a seeded reshuffle raised {type(e).__name__}: {e}'[:300], config=dict(stage=st, n=n, seed=seed)))
                continue
            if not (a == b == c):
                failures.append(dict(kind='program', summary=f'copy(freeze=True) of a {st} stage above a per-epoch reshuffle (n={n}, seed {seed}) is not frozen: {a} / {b} / {c}'[:600], config=dict(stage=st, n=n, seed=seed)))
            elif st != 'cycle':
                # copies of the frozen copy, and consumers that copy their input per epoch, taken AFTER the source pipeline moved on: they
                # all keep the frozen order
                try:
                    for _e in range(2):
                        for _x in _it.islice(d, None):
                            pass
                    later = {'copy()': fz.copy(), 'copy(freeze=True)': fz.copy(freeze=True), 'copy().copy()': fz.copy().copy(), 'lazy apply': fz.apply(lambda x: x, lazy=True)}
                    try:
                        if fz.indexable and len(fz) >= 0:
                            later['catch()'] = fz.catch()           # (a catching stage needs position access and a length)
                    except Exception:
                        pass
                    for nm, obj2 in later.items():
                        got2 = [repr(x) for x in obj2]
                        if got2 != a:
                            failures.append(dict(kind='program', summary=f'{nm} of the frozen copy of a {st} stage above a per-epoch reshuffle (n={n}, seed {seed}), taken after the source pipeline went through two more epochs: {got2}; the frozen order is {a}'[:600],
                                                 config=dict(stage=st, n=n, seed=seed)))
                            break
                except Exception as e:
                    failures.append(dict(kind='program', summary=f'copying the frozen copy of a {st} stage above a reshuffle raised {type(e).__name__}: {e}'[:300], config=dict(stage=st, n=n, seed=seed)))
            # copy() WITHOUT arguments is not a frozen copy: per-epoch stages below keep drawing new orders
            if st not in ('local', 'cycle', 'prefetch1', 'parmap'):
                try:
                    cp = d.copy()
                    e1, e2, e3 = [repr(x) for x in cp], [repr(x) for x in cp], [repr(x) for x in cp]
                    if e1 == e2 == e3 and n >= 5:
                        failures.append(dict(kind='program', summary=f'copy() (no arguments) of a {st} stage above a per-epoch reshuffle of {n} examples gives the same order in three epochs: it behaves like a frozen copy', config=dict(stage=st, n=n, seed=seed)))
                except Exception as e:
                    failures.append(dict(kind='program', summary=f'copy() of a {st} stage above a reshuffle raised {type(e).__name__}: {e}'[:300], config=dict(stage=st, n=n, seed=seed)))
            for obj, what in ((d, st + ' above a reshuffle'), (rs, 'reshuffle')):
                try:
                    if obj.indexable:
                        obj[0]
                except Exception as e:
                    failures.append(dict(kind='program', summary=f'{what} reports indexable=True but ds[0] raises {type(e).__name__}', config=dict(stage=st, n=n, seed=seed)))
                    break
            if keyed:
                loc = base.shuffle(True, rng=np.random.RandomState(seed), buffer_size=3)
                for obj, what in ((rs, 'reshuffle'), (loc, 'local shuffle'), (rs.map(lambda x: x + 1000), 'map above a reshuffle')):
                    k = f'k{r.randrange(n)}'
                    try:
                        got = obj[k]
                        want = int(k[1:]) + (1000 if 'map' in what else 0)
                        if got != want:
                            failures.append(dict(kind='program', summary=f'{what}[{k!r}] = {got!r}, the example stored under that key is {want}', config=dict(stage=st, n=n, seed=seed)))
                    except Exception as e:
                        failures.append(dict(kind='program', summary=f'{what}[{k!r}] raised {type(e).__name__}: {e}'[:300], config=dict(stage=st, n=n, seed=seed)))
        # (1') operations that FAIL or only look (a refused items() over key-less data, the items() probe inside new(ds) / cache(lazy=False),
        #      len, keys, repr, indexable, ordered) do not consume random numbers: the seeded orders afterwards are those of a twin
        #      that was left alone
        PKINDS = ['reshuffle', 'local', 'reshuffle_local', 'lazyapply', 'lazyapply_once', 'reshuffle_map', 'reshuffle_catch', 'reshuffle_prefetch1', 'lazyapply_once_map']
        PROBES = ['items', 'len', 'keys', 'repr', 'flags', 'getbad', 'iter_only', 'late_first', 'flags_above']
        for kind, probe in [(k, p) for k in PKINDS for p in PROBES] * (3 if big else 1):        # every kind of stage with every probe
            n, seed = r.randint(2, 7), r.randint(0, 10 ** 6)
            keyed = r.random() < 0.4

            def mk():
                d = ld.new({f'k{i}': i for i in range(n)} if keyed else list(range(n)))
                g = np.random.RandomState(seed)
                if kind == 'reshuffle': return d.shuffle(True, rng=g)
                if kind == 'local': return d.shuffle(True, rng=g, buffer_size=3)
                if kind == 'lazyapply': return d.apply(ApplyShuffle(g), lazy=True)
                if kind == 'lazyapply_once': return d.apply(lambda x, g=g: x.shuffle(False, rng=g), lazy=True)
                if kind == 'reshuffle_map': return d.shuffle(True, rng=g).map(add1)
                if kind == 'reshuffle_catch': return d.shuffle(True, rng=g).catch()
                if kind == 'reshuffle_prefetch1': return d.shuffle(True, rng=g).prefetch(1, 2)
                if kind == 'lazyapply_once_map': return d.apply(lambda x, g=g: x.shuffle(False, rng=g), lazy=True).map(add1)
                return d.shuffle(True, rng=g).shuffle(True, rng=np.random.RandomState(seed + 1), buffer_size=2)
            a, b = mk(), mk()
            if probe == 'late_first':
                # two iterators are created, the one created LAST is advanced and finished first: an epoch draws its order when it
                # starts to deliver, not when the iterator object is made - a twin iterated back to back gives the same two orders
                try:
                    i1, i2 = iter(b), iter(b)
                    second = [int(x) for x in i2]
                    first = [int(x) for x in i1]
                    ea = [[int(x) for x in a] for _e in range(2)]
                    if [second, first] != ea:
                        failures.append(dict(kind='program', summary=f'{kind} of range({n}) (seed {seed}): two iterators created up front, the later one consumed first, give {[second, first]}; '
                                             f'a twin iterated back to back gives {ea} (an order is drawn when an epoch starts to deliver)', config=dict(n=n, seed=seed, kind=kind, probe=probe, keyed=keyed)))
                except Exception as e:
                    failures.append(dict(kind='program', summary=f'{kind} of range({n}): staggered iterators raised {type(e).__name__}: {e}'[:300], config=dict(n=n, seed=seed, kind=kind, probe=probe)))
                continue
            try:
                if probe == 'iter_only':
                    iter(b)                 # an iterator that is made and never advanced
                    it_unused = iter(b)
                    del it_unused
                elif probe == 'items':
                    if keyed or kind.startswith('lazyapply') or kind == 'reshuffle_catch':
                        continue                # (a lazy apply / a catching stage takes its frozen copy - an epoch start - before it can know that key iteration is refused below)
                    list(b.items())
                elif probe == 'len': len(b)
                elif probe == 'keys': b.keys()
                elif probe == 'repr': repr(b); str(b)
                elif probe == 'flags': b.indexable; b.ordered
                elif probe == 'flags_above':
                    t = b.map(add1).batch(2)            # the flags of stages stacked on top are forwarded from below
                    t.indexable; t.ordered
                else: b['nope']
            except Exception:
                pass
            ea = [[int(x) for x in a] for _e in range(2)]
            eb = [[int(x) for x in b] for _e in range(2)]
            if ea != eb:
                failures.append(dict(kind='program', summary=f'{kind} shuffle of range({n}) (seed {seed}, {"dict" if keyed else "list"}): after a {probe} probe the epochs are {eb}, an untouched twin gives {ea}',
                                     config=dict(n=n, seed=seed, kind=kind, probe=probe, keyed=keyed)))
        # apply(fn) is eager unless lazy=True is given: fn runs once, at once, and the result is what fn returned
        seen = []
        base = ld.new(list(range(4)))
        res = base.apply(lambda d: (seen.append(1), d.map(lambda x: x + 1))[1])
        if seen != [1] or type(res).__name__ != 'MapDataset' or list(res) != [1, 2, 3, 4]:
            failures.append(dict(kind='program', summary=f'ds.apply(fn) without lazy=True: fn ran {len(seen)} times at the call, result is a {type(res).__name__}', config={}))
        # (5) copy() preserves every configuration parameter of every stage
        for msg in copy_params(ld):
            failures.append(dict(kind='program', summary=msg, config={}))
    d = common.fresh_dir(f'C13_{tier}')
    f = os.path.join(d, 'x.v')
    with open(f, 'w') as fh:
        fh.write(HEADER)
        fh.write('Definition xcases : list xcase := [\n' + ';\n'.join(cases) + '\n].\n')
        fh.write('Eval vm_compute in (bad xcase_ok 0 xcases).\n')
    out = common.run_case_files([f])[f]
    body = out[out.index('=') + 1:out.rindex(':')]
    bad = [int(x) for x in re.findall(r'\d+', body)]
    for i in bad:
        failures.append(dict(kind='program', summary=f'model and implementation disagree (orders or which generator is drawn from): {meta[i][0]} seeds={meta[i][1]} orders={meta[i][3]}'[:600],
                             config=dict(spec=meta[i][0], seeds=meta[i][1], m=meta[i][2])))
    kinds = collections.Counter(s[0] for m_ in meta for s in m_[0])
    cov = dict(programs=len(cases), evaluations=len(cases), distinct=len(set(cases)),
               distinct_nontrivial=len(set(c for c, m_ in zip(cases, meta) if m_[0][0][1] >= 2 and any(s[0] in ('reshuffle', 'local', 'once') for s in m_[0]))),
               rule='pipelines with random stages (one-time shuffle, reshuffle, local shuffle, sharing or not sharing a generator) at varying depth below deterministic maps and '
                    '1- or 2-worker prefetch, 1..3 epochs, the global numpy state reseeded adversarially before every epoch; non-trivial = n >= 2 with a random stage',
               stage_histogram=dict(kinds), traces_validated_against_impl=len(cases), disagreements_checked=len(bad),
               copy_param_classes=len(stage_zoo(ld)),
               samples=[dict(spec=meta[i][0], seeds=meta[i][1], orders=meta[i][3]) for i in (0, 1, len(meta) - 1)], exhaustive=False)
    return dict(coverage=cov, failures=failures, assumptions=[])


def stage_zoo(ld):
    from lazy_dataset.core import DictDataset, ListDataset, DynamicTimeSeriesBucket
    d = ld.new({'a': 1, 'b': 2, 'c': 3, 'd': 4})
    rng = np.random.RandomState(3)
    return {
        'map': d.map(abs), 'parmap': d.map(abs, num_workers=2, buffer_size=3, backend='t'), 'filter': d.filter(bool),
        'slice': d[1:3], 'concat': d.concatenate(d.map(abs)), 'intersperse': d.intersperse(d.map(abs)), 'zip': d.zip(d), 'keyzip': d.key_zip(d),
        'items': d.items(), 'batch': d.batch(3, drop_last=True), 'unbatch': d.batch(2).unbatch(), 'catch': d.catch((ValueError, KeyError), warn=True),
        'prefetch': d.prefetch(2, 5, backend='t', catch_filter_exception=(ValueError,)), 'reshuffle': d.shuffle(True, rng=rng),
        'local': d.shuffle(True, rng=rng, buffer_size=3), 'cache': d.cache(keep_mem_free='3 GB'),
        'bucket': d.batch_dynamic_time_series_bucket(2, len_key=abs, max_padding_rate=0.5, max_total_size=9, expiration=3, max_buffered_examples=4,
                                                     drop_incomplete=True, sort_key=abs, reverse_sort=True),
        'apply': d.apply(abs, lazy=True), 'dict': DictDataset({'a': 1}, name='nm'), 'list': ListDataset([1, 2], name='nm'), 'cycle': d.cycle(),
    }


def flat(v):
    from lazy_dataset.core import Dataset
    if isinstance(v, Dataset): return ('DS', type(v).__name__)
    if isinstance(v, (list, tuple)) and v and isinstance(v[0], Dataset): return tuple(flat(x) for x in v)
    if isinstance(v, np.ndarray): return ('arr', v.tolist())
    if isinstance(v, np.random.RandomState) or v is np.random: return ('rng', id(v))
    if callable(v): return ('fn', getattr(v, '__name__', type(v).__name__), id(v))
    return v


def copy_params(ld):
    out = []
    with warnings.catch_warnings():
        warnings.simplefilter('ignore')
        for name, st in stage_zoo(ld).items():
            try:
                c = st.copy()
            except Exception as e:
                out.append(f'copy() of the {name} stage raised {type(e).__name__}')
                continue
            a = {k: flat(v) for k, v in vars(st).items() if not k.startswith('_keys')}
            b = {k: flat(v) for k, v in vars(c).items() if not k.startswith('_keys')}
            diff = {k: (a.get(k), b.get(k)) for k in set(a) | set(b) if a.get(k) != b.get(k)}
            if diff:
                out.append(f'copy() of the {name} stage changes parameters: {diff}')
    return out


def replay(payload):
    return True
