"""C14 - exception-based filtering drops exactly the failing examples (Model A, CatchProofs.v)."""
import itertools
from .. import common, model_a, gen_a
from ..gen_a import Node

PROP_FILE = 'props/C14.v'

CLASSES = ['EFilter', '(EUser 0)', '(EUser 1)', '(EUser 2)', 'EValue', 'EKey', '(EUserBase 0)', 'EIndex', 'EIndex', 'EType', 'EType', 'EAttr', 'EAssert', 'ENotImpl', 'ERuntime', 'EZeroDiv']
CATCH = [('EFilter',), ('(EUser 0)',), ('EFilter', '(EUser 2)'), ('EException',), ('ELookup', 'EValue'), ('(EUser 1)',), ('EIndex',), ('EKey', 'EFilter'), ('EType',), ('ERuntime',), ('EAttr', 'EAssert'), (), ()]


def subset_nodes(r, nmax, budget):
    """every subset of failing positions for n <= nmax, classes inside/outside the caught set (single / tuple /
    subclass), the raising stage at depth 1..3 below the catch, dict and list sources, catch and prefetch-catch"""
    out = []
    tag = itertools.count(1)
    combos = []
    for n in range(0, nmax + 1):
        for S in itertools.chain.from_iterable(itertools.combinations(range(n), m) for m in range(n + 1)):
            combos.append((n, S))
    r.shuffle(combos)
    combos = (combos * (budget // max(1, len(combos)) + 1))[:budget]
    for (n, S) in combos:
        cls = r.choice(CLASSES + ['EStopIter'])
        E = r.choice(CATCH)
        stopiter = cls == 'EStopIter'
        if stopiter:
            # StopIteration raised by a user function (the `next(x for x in ex if cond)` idiom): only under a catch that selects it
            # (propagating through generator frames it would be rewritten by PEP 479, which is Python's business, not the library's)
            E = r.choice([('EStopIter',), ('EStopIter', 'EValue'), ('EException',)])
        keyed = r.random() < 0.5
        vals = list(range(10, 10 + n))
        src = Node('dict', (tuple(zip(gen_a.KEYS[:n], vals)), 'pickle')) if keyed else Node('list', (tuple(vals), 'pickle'))
        raiser = ('FRaiseIf', ('PIn', tuple(10 + i for i in S)), cls, next(tag), ('FAdd', 0))
        if r.random() < 0.3 and S and not stopiter:       # a second, different failure further down
            other = ('FRaiseIf', ('PIn', (10 + S[0],)), r.choice(CLASSES), next(tag), ('FId',))
        else:
            other = None
        d = src
        depth = r.choice([1, 2, 3])
        if depth == 3:
            d = Node('get', (('slice', None, None, r.choice([None, 1, -1])),), [d]) if n else d
        d = Node('map', (raiser,), [d])
        if other:
            d = Node('map', (other,), [d])
        if depth >= 2:
            d = Node('map', (('FAdd', 1),), [d])
        # structure between the raising stage and the catch: concatenation with a second (healthy) dataset on either side, zip, batch
        w = r.random()
        if w < 0.3:
            m = r.randint(1, 4)
            vals2 = list(range(30, 30 + m))
            o = Node('dict', (tuple(zip(gen_a.KEYS[8:8 + m], vals2)), 'pickle')) if keyed else Node('list', (tuple(vals2), 'pickle'))
            d = Node('concat', (), [d, o] if r.random() < 0.6 else [o, d])
            if r.random() < 0.3:
                d = Node('map', (('FAdd', 1),), [d])
        elif w < 0.36 and n and not stopiter:
            d = Node('batch', (r.randint(1, 3), False), [d])
        elif w < 0.5:
            # zipped with a healthy dataset of the same length, on either side
            vals2 = list(range(50, 50 + n))
            o = Node('dict', (tuple(zip(gen_a.KEYS[:n], vals2)), 'pickle')) if keyed else Node('list', (tuple(vals2), 'pickle'))
            d = Node('zip', (), [d, o] if r.random() < 0.6 else [o, d])
        kind = r.choice(['catch', 'catch', 'prefetch1', 'prefetchN', 'catch_items']) if not stopiter else r.choice(['catch', 'catch_items'])
        if kind == 'catch':
            d = Node('catch', (E,), [d])
        elif kind == 'prefetch1':
            d = Node('prefetch', (1, r.randint(1, 3), E, 't'), [d])
        elif kind == 'prefetchN':
            d = Node('prefetch', (2, 2 + r.randint(0, 1), E, 't'), [d])
        else:
            d = Node('items', (), [Node('catch', (E,), [d])])
        out.append(d)
    return out


def filter_triples(r, count):
    """lazy filter / eager filter / FilterException under catch for the same predicate"""
    out = []
    for _ in range(count):
        n = r.randint(0, 6)
        vals = [r.randint(-2, 9) for _ in range(n)]
        keyed = r.random() < 0.5
        def src():
            return Node('dict', (tuple(zip(gen_a.KEYS[:n], vals)), 'pickle')) if keyed else Node('list', (tuple(vals), 'pickle'))
        p = r.choice([('PModEq', 2, 0), ('PModEq', 3, 1), ('PLt', 4), ('PEq', vals[0] if vals else 0), ('PTrue',), ('PFalse',)])
        notp = ('PIn', tuple(sorted(set(v for v in vals if not __import__('harness.fnlib', fromlist=['x']).py_p(p)(v)))))
        style = r.choice([0, 1, 2, 3, 4, 5])           # how the predicate spells true / false (truthiness counts)
        out.append(Node('filter', (('QP', p), True, style), [src()]))
        out.append(Node('filter', (('QP', p), False, style), [src()]))
        out.append(Node('catch', (('EFilter',),), [Node('map', (('FRaiseIf', notp, 'EFilter', 7, ('FId',)),), [src()])]))
    return out


def direct_triples(cases):
    """the three ways of filtering must select the same examples on the implementation itself"""
    fails = []
    trip = [c for c in cases if c.prog.note.get('triple') is not None]
    by = {}
    for c in trip:
        by.setdefault(c.prog.note['triple'], []).append(c)
    for k, cs in by.items():
        its = []
        for c in cs:
            e = [x for x in c.entries if x[0] == ('iter', False)]
            its.append(e[0][3] if e else None)
        if len(set(map(repr, its))) > 1:
            fails.append(dict(summary=f'lazy / eager / catch filters disagree: {its}', got_from_impl=repr(its)))
    return fails


class _Skip14(Exception):
    pass


def epochs_family(ld, r, count):
    """one catching object iterated for several epochs above an input whose order changes per epoch (per-epoch reshuffle, a
    reordering lazy apply): in EVERY epoch exactly the examples that raise a selected exception are dropped - nothing a previous
    epoch saw (which positions failed) carries over"""
    import numpy as np, warnings
    fails = []
    with warnings.catch_warnings():
        warnings.simplefilter('ignore')
        for _ in range(count):
            n = r.randint(2, 9)
            badset = set(x for x in range(n) if r.random() < 0.35)
            keyed = r.random() < 0.4
            exc = r.choice([_Skip14, KeyError, ld.FilterException])

            def fn(v, badset=badset, exc=exc):
                if v in badset:
                    raise exc(v)
                return v
            seed = r.randint(0, 10 ** 6)
            base = ld.new({f'key{i}': i for i in range(n)} if keyed else list(range(n)))
            shape = r.choice(['map_reshuffle', 'reshuffle_map', 'lazyapply', 'reshuffle_map_prefetch1', 'lazyapply_reshuffle', 'lazyapply_part_reshuffle', 'lazyapply_reshuffle_map', 'tile_warn', 'selfconcat_warn', 'selfintersperse_warn', 'plain_warn', 'keyzip', 'keyzip'])
            sel = r.choice([exc, (exc, ValueError), Exception])
            try:
                if shape == 'map_reshuffle': d = base.map(fn).shuffle(True, rng=np.random.RandomState(seed)).catch(sel)
                elif shape == 'reshuffle_map': d = base.shuffle(True, rng=np.random.RandomState(seed)).map(fn).catch(sel)
                elif shape == 'lazyapply': d = base.map(fn).apply(_Reorder(seed), lazy=True).catch(sel)
                elif shape == 'tile_warn': d = base.tile(2).map(fn).catch(sel, warn=True)                    # (duplicate keys below, warn=True)
                elif shape == 'selfconcat_warn': d = base.map(fn).concatenate(base.map(fn)).catch(sel, warn=True)
                elif shape == 'selfintersperse_warn': d = base.map(fn).intersperse(base.map(fn)).catch(sel, warn=True)
                elif shape == 'plain_warn': d = base.map(fn).catch(sel, warn=True)
                elif shape == 'keyzip':
                    # key_zip of two dict datasets with the same keys in different inner order (first and last key in place): the pairs
                    # belong together by KEY on every access path of the catching stage
                    ks = [f'key{i}' for i in range(n)]
                    inner = ks[1:-1]
                    r.shuffle(inner)
                    order_b = ks[:1] + inner + (ks[-1:] if n > 1 else [])
                    a_ds = ld.new({k: i for i, k in enumerate(ks)})
                    b_ds = ld.new({k: int(k[3:]) for k in order_b}).map(fn)
                    d = a_ds.key_zip(b_ds).catch(sel).map(_pair14)
                elif shape == 'lazyapply_reshuffle': d = base.map(fn).apply(_Reshuffle(seed), lazy=True).catch(sel)
                elif shape == 'lazyapply_part_reshuffle': d = base.map(fn).apply(_PartReshuffle(seed), lazy=True).catch(sel)
                elif shape == 'lazyapply_reshuffle_map': d = base.apply(_Reshuffle(seed), lazy=True).map(fn).catch(sel)
                else: d = base.shuffle(True, rng=np.random.RandomState(seed)).map(fn).prefetch(1, 2, catch_filter_exception=sel if sel is not Exception else (exc,))
                want = sorted(set(range(n)) - badset)
                if shape in ('tile_warn', 'selfconcat_warn', 'selfintersperse_warn'):
                    want = sorted(want + want)
                for epoch in range(4):
                    use_items = (keyed or shape == 'keyzip') and epoch % 2 == 1 and not shape.startswith('lazyapply') and not shape.endswith('_warn')
                    got = [kv[1] for kv in d.items()] if use_items else list(d)
                    if sorted(got) != want:
                        fails.append(dict(kind='history', summary=f'{shape} over {n} examples ({"dict" if keyed else "list"} source), examples {sorted(badset)} raise {exc.__name__}, caught {sel}: '
                                          f'epoch {epoch + 1} of the same catching object delivers {got}; exactly {want} (in some order) must survive'[:600], config=dict(n=n, bad=sorted(badset), shape=shape, seed=seed)))
                        break
                else:
                    # two iterators over the same catching object in flight, advanced alternately (the second one starts while the first
                    # is in the middle of its epoch): each delivers exactly the survivors
                    if shape != 'reshuffle_map_prefetch1' and want:
                        i1 = iter(d)
                        o1, o2 = [next(i1)], []
                        i2 = iter(d)
                        live = [(i1, o1), (i2, o2)]
                        while live:
                            for itx, ox in list(live):
                                try:
                                    ox.append(next(itx))
                                except StopIteration:
                                    live.remove((itx, ox))
                        if sorted(o1) != want or sorted(o2) != want:
                            fails.append(dict(kind='history', summary=f'{shape} over {n} examples, examples {sorted(badset)} raise {exc.__name__}, caught {sel}: two iterators over the same catching object '
                                              f'advanced alternately deliver {o1} and {o2}; each must deliver exactly {want} (in some order)'[:600], config=dict(n=n, bad=sorted(badset), shape=shape, seed=seed)))
            except Exception as e:
                fails.append(dict(kind='history', summary=f'{shape} (n={n}, failing {sorted(badset)}, {exc.__name__} caught by {sel}) raised {type(e).__name__}: {e}'[:400], config=dict(n=n, shape=shape, seed=seed)))
    return fails


def _pair14(t):
    return t[0] if t[0] == t[1] else -1000 - t[0]


class _Reshuffle:
    """apply function whose result reshuffles per iteration itself (the documented use of a lazy apply)"""
    def __init__(self, seed):
        import numpy as np
        self.rng = np.random.RandomState(seed)

    def __call__(self, ds):
        return ds.shuffle(True, rng=self.rng)


class _PartReshuffle(_Reshuffle):
    def __call__(self, ds):
        import lazy_dataset
        return lazy_dataset.concatenate(ds[:2], ds[2:].shuffle(True, rng=self.rng)) if len(ds) > 2 else ds


class _Reorder:
    def __init__(self, seed):
        import numpy as np
        self.rng = np.random.RandomState(seed)

    def __call__(self, ds):
        return ds.shuffle(False, rng=self.rng)


def run(tier):
    r = common.rng_for('C14')
    nodes = subset_nodes(r, 5 if tier == 'quick' else 6, 700 if tier == 'quick' else 6000)
    trip = filter_triples(r, 100 if tier == 'quick' else 1500)
    for i, nd in enumerate(trip):
        nd.note['triple'] = i // 3
    res = model_a.run_a('C14', tier, {'iter', 'keys'}, n_quick=600, n_thorough=15000,
                        gen_kwargs=dict(err_rate=0.5, ops={'map', 'filter', 'catch', 'mapraise_catch', 'prefetch1', 'prefetchN', 'slice', 'ints',
                                                            'items', 'batch', 'concat', 'zip', 'filter_eager', 'sort', 'cache'}),
                        extra_nodes=nodes + trip)
    for f in direct_triples(res.pop('cases')):
        f.setdefault('kind', 'program')
        res['failures'].append(f)
    ne = 150 if tier == 'quick' else 2500
    res['failures'] += epochs_family(common.import_impl(), common.rng_for('C14-epochs'), ne)
    res['coverage']['multi_epoch_catch_histories'] = ne
    res['coverage']['failing_position_subsets'] = len(nodes)
    res['coverage']['filter_triples'] = len(trip) // 3
    return res


def replay(payload):
    if 'program' not in payload:
        ff = epochs_family(common.import_impl(), common.rng_for('C14-epochs'), 150)
        for f in ff[:3]:
            print('  ', f['summary'][:300])
        return bool(ff)
    return model_a.replay_a(payload)
