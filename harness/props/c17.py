"""C17 - dynamic bucketing conserves examples and honours its limits (Model D, Bucket.v).
The real DynamicBucketDataset / DynamicTimeSeriesBucket run on fractions.Fraction lengths and rate,
i.e. in the same exact field as the model's Q."""
import os, re, itertools, collections
from fractions import Fraction
from .. import common

PROP_FILE = 'props/C17.v'
TRUSTED = ['float arithmetic of DynamicTimeSeriesBucket is not modelled: the tie runs the real class on exact Fractions; a float stream is checked against the property predicates only']

HEADER = """From Coq Require Import List Arith Bool QArith.
Import ListNotations.
Require Import LD.Bucket LD.BucketTie.
"""


class Src:
    def __init__(self, xs):
        self.xs, self.pulled = xs, 0

    def __iter__(self):
        for x in self.xs:
            self.pulled += 1
            yield x


def _ident(x):
    return x


def run_impl(ld, cfg, lens, as_float=False):
    """returns list of (ids, pulled at that yield) or ('raised', class name)"""
    bs, rate, mts, exp, maxbuf, drop, sortmode = cfg
    conv = (lambda q: float(q)) if as_float else (lambda q: q)
    # examples are dicts, or - in every fourth configuration - tuples / lists (length, id) with a positional length key: the example is
    # one item of the batch whatever container type it is
    shape = ('dict', 'dict', 'tuple', 'list')[(len(lens) * 3 + bs) % 4] if not as_float else 'dict'
    if shape == 'dict':
        exs = [{'id': i, 'len': conv(l)} for i, l in enumerate(lens)]
        LK, IDOF = 'len', (lambda e: e['id'])
    else:
        exs = [((conv(l), i) if shape == 'tuple' else [conv(l), i]) for i, l in enumerate(lens)]
        LK, IDOF = 0, (lambda e: e[1])
    src = Src(exs)

    class DS(ld.core.Dataset):
        def __iter__(s, with_key=False):
            return iter(src)

        def copy(s, freeze=False):
            return s
    kw = dict(max_total_size=None if mts is None else conv(mts), expiration=exp, max_buffered_examples=maxbuf, drop_incomplete=drop,
              sort_key=None if sortmode == 0 else LK, reverse_sort=sortmode == 2)
    if (len(lens) + bs) % 2:
        # arguments that equal their documented default (None / False) are left out
        kw = {k: v for k, v in kw.items() if v is not None and v is not False}
    if (len(lens) + bs + (exp or 0)) % 3 == 0:
        # every argument by POSITION, in the documented order (batch_size, len_key, max_padding_rate, max_total_size, expiration,
        # max_buffered_examples, drop_incomplete, sort_key, reverse_sort)
        ds = DS().batch_dynamic_time_series_bucket(bs, LK, conv(rate), None if mts is None else conv(mts), exp, maxbuf, drop,
                                                   None if sortmode == 0 else LK, sortmode == 2)
    else:
        ds = DS().batch_dynamic_time_series_bucket(batch_size=bs, len_key=LK, max_padding_rate=conv(rate), **kw)
    out = []
    # what is iterated is the object itself, a copy of it, a copy of a pipeline built on it, or the profiler's internal copy
    # (deterministic choice per configuration): copies keep every parameter
    how = (len(lens) + bs + (exp or 0) + (maxbuf or 0)) % 4
    try:
        if how == 1: ds = ds.copy()
        elif how == 2: ds = ds.map(_ident).copy(freeze=True)
        elif how == 3: ds = ld.core.ProfilingDataset(ds)
        for batch in ds:
            out.append(([IDOF(e) for e in batch], src.pulled))
    except Exception as e:
        return ('raised', type(e).__name__)
    return out


def predicates(cfg, lens, out):
    """the property evaluated on the implementation's output alone"""
    bs, rate, mts, exp, maxbuf, drop, sortmode = cfg
    fails = []
    if isinstance(out, tuple):
        return [f'iteration raised {out[1]}']
    ids = [i for b, _ in out for i in b]
    if len(ids) != len(set(ids)):
        fails.append('an example was emitted twice')
    if not drop and sorted(ids) != list(range(len(lens))):
        fails.append(f'drop_incomplete=False but emitted ids {sorted(ids)} != all {len(lens)} examples')
    handed = 0
    for b, pulled in out:
        if not b or len(b) > bs:
            fails.append(f'batch {b} empty or larger than batch_size={bs}')
        ls = [lens[i] for i in b]
        if b and min(ls) < max(ls) * (1 - rate):
            fails.append(f'batch {b} lens {ls}: shortest < longest * (1 - {rate})')
        if mts is not None and len(b) > 1 and len(b) * max(ls) > mts:
            fails.append(f'batch {b} lens {ls}: {len(b)} * {max(ls)} > max_total_size={mts}')
        handed += len(b)
        if maxbuf is not None and not drop and pulled - handed > maxbuf:
            fails.append(f'{pulled - handed} consumed examples withheld > max_buffered_examples={maxbuf}')
    return fails


def q(x):
    x = Fraction(x)
    return f'({x.numerator} # {x.denominator})'


def opt(x, pr):
    return 'None' if x is None else f'(Some {pr(x)})'


def coq_case(cfg, lens, out):
    bs, rate, mts, exp, maxbuf, drop, sortmode = cfg
    xs = '[' + '; '.join(f'({i}%nat, {q(l)})' for i, l in enumerate(lens)) + ']'
    if isinstance(out, tuple):
        seen = 'None'
    else:
        seen = '(Some [' + '; '.join('([%s], %d%%nat)' % ('; '.join(f'{i}%nat' for i in b), p) for b, p in out) + '])'
    nat = lambda n: f'{n}%nat'
    return (f'(mkB {bs}%nat {q(rate)} {opt(mts, q)} {opt(exp, nat)} {opt(maxbuf, nat)} '
            f'{"true" if drop else "false"} {sortmode}%nat {xs} {seen})')


def eval_cases(cases, tag, per=400):
    d = common.fresh_dir(tag)
    files = []
    for s in range(0, len(cases), per):
        f = os.path.join(d, f'b_{s // per:03d}.v')
        with open(f, 'w') as fh:
            fh.write(HEADER)
            fh.write('Definition cases : list bcase := [\n' + ';\n'.join(cases[s:s + per]) + '\n].\n')
            fh.write('Definition bad := Eval vm_compute in bad_cases 0 cases.\n')
            fh.write('Eval vm_compute in (map fst bad).\nPrint bad.\n')
        files.append((s, f))
    outs = common.run_case_files([f for _, f in files])
    bad = []
    for s, f in files:
        out = outs[f]
        head = out.split('bad =')[0]
        head = head[head.index('=') + 1:head.rindex(':')] if '=' in head else ''
        for i in re.findall(r'\d+', head):
            bad.append((s + int(i), re.sub(r'\s+', ' ', out.split('bad =')[1])[:1500] if 'bad =' in out else ''))
    return bad


def gen_cfgs(r, tier):
    rates = [Fraction(0), Fraction(1, 5), Fraction(1, 2), Fraction(9, 10)]
    alphabet = [Fraction(1), Fraction(2), Fraction(3), Fraction(5)]
    cases = []
    # all sequences over the alphabet up to a length, on a parameter grid sample
    maxlen = 4 if tier == 'quick' else 6
    grid = []
    for bs in (1, 2, 3, 4):
        for rate in rates:
            for mts in (None, Fraction(4), Fraction(9)):
                for exp in (None, 0, 1, 2, 4):
                    for mb in (None, 0, 1, 3):
                        for drop in (False, True):
                            for sm in (0, 1, 2):
                                grid.append((bs, rate, mts, exp, mb, drop, sm))
    seqs = [list(s) for n in range(0, maxlen + 1) for s in itertools.product(alphabet, repeat=n)]
    n_ex = 1500 if tier == 'quick' else 40000
    for _ in range(n_ex):
        cases.append((r.choice(grid), r.choice(seqs)))
    # random longer ones
    for _ in range(300 if tier == 'quick' else 6000):
        common.tick()
        n = r.randint(5, 40)
        lens = [Fraction(r.randint(1, 12), r.choice([1, 1, 2, 3])) for _ in range(n)]
        cfg = (r.randint(1, 5), r.choice(rates + [Fraction(1, 3)]), r.choice([None, Fraction(r.randint(3, 40))]),
               r.choice([None] + list(range(6))), r.choice([None] + list(range(8))), r.random() < 0.4, r.choice([0, 1, 2]))
        cases.append((cfg, lens))
    return cases, len(grid), len(seqs)


def interleaved_iterators(ld, r, cases, count):
    """several iterators over ONE bucket dataset object, advanced in a random order: each of them emits exactly the batches of a
    pass on its own (the buckets, the buffer count and the drop statistics belong to the iteration, not to the dataset object)"""
    fails = []
    done = 0
    for cfg, lens in cases:
        if done >= count:
            break
        if len(lens) < 3:
            continue
        done += 1
        bs, rate, mts, exp, maxbuf, drop, sortmode = cfg
        exs = [{'id': i, 'len': l} for i, l in enumerate(lens)]
        kw = dict(max_total_size=mts, expiration=exp, max_buffered_examples=maxbuf, drop_incomplete=drop, sort_key=None if sortmode == 0 else 'len', reverse_sort=sortmode == 2)
        try:
            ds = ld.new(exs).batch_dynamic_time_series_bucket(batch_size=bs, len_key='len', max_padding_rate=rate, **kw)
            solo = [[e['id'] for e in b] for b in ds]
            k = r.choice([2, 2, 3])
            its = [iter(ds) for _ in range(k)]
            outs = [[] for _ in range(k)]
            live = list(range(k))
            while live:
                i = r.choice(live)
                try:
                    outs[i].append([e['id'] for e in next(its[i])])
                except StopIteration:
                    live.remove(i)
            bad = [i for i in range(k) if outs[i] != solo]
            if bad:
                fails.append(dict(kind='input', summary=f'{k} iterators over one bucket dataset (cfg={[str(c) for c in cfg]}, lens={[str(l) for l in lens]}) advanced in a random order: iterator {bad[0]} emitted {outs[bad[0]]}, a pass on its own emits {solo}'[:700],
                                  config=dict(cfg=[str(c) for c in cfg], lens=[str(l) for l in lens], interleaved=True)))
        except Exception as e:
            fails.append(dict(kind='input', summary=f'interleaved iterators over a bucket dataset (cfg={[str(c) for c in cfg]}, lens={[str(l) for l in lens]}) raised {type(e).__name__}: {e}'[:400],
                              config=dict(cfg=[str(c) for c in cfg], lens=[str(l) for l in lens], interleaved=True)))
    return fails, done


def run(tier):
    ld = common.import_impl()
    r = common.rng_for('C17')
    cases, ngrid, nseq = gen_cfgs(r, tier)
    # the repaired finding F11 replays first
    cases.insert(0, ((2, Fraction(9, 10), Fraction(4), None, None, False, 0), [Fraction(1), Fraction(3)]))
    outs, failures, coq = [], [], []
    for cfg, lens in cases:
        out = run_impl(ld, cfg, lens)
        outs.append(out)
        for msg in predicates(cfg, lens, out):
            failures.append(dict(kind='input', summary=msg, config=dict(cfg=[str(c) for c in cfg], lens=[str(l) for l in lens]),
                                 got_from_impl=repr(out)[:600]))
            break
        coq.append(coq_case(cfg, lens, out))
    # float stream: predicates only (with a tolerance of one ulp-ish on the padding bound)
    nfloat = 0
    for cfg, lens in cases[:400]:
        out = run_impl(ld, cfg, lens, as_float=True)
        nfloat += 1
        if isinstance(out, tuple):
            failures.append(dict(kind='input', summary=f'float run raised {out[1]}', config=dict(cfg=[str(c) for c in cfg], lens=[str(l) for l in lens])))
    # lengths (and max_total_size) as Python ints and as numpy integer scalars of every width and signedness - frame counts read
    # from a header are often np.uint32: the batches must be those of the exact run (integer arithmetic is exact in all of them)
    import numpy as np
    import warnings
    ntyped, tys = 0, [int, np.int64, np.uint32, np.int32, np.uint64, np.uint8, np.int16, np.uint16]
    with warnings.catch_warnings():
        warnings.simplefilter('ignore')
        for i, (cfg, lens) in enumerate(cases):
            if ntyped >= (700 if tier == 'quick' else 8000):
                break
            if any(l.denominator != 1 or l > 200 for l in lens) or (cfg[2] is not None and (cfg[2].denominator != 1 or cfg[2] > 200)):
                continue
            ty = tys[ntyped % len(tys)]
            ntyped += 1
            cfg2 = list(cfg)
            if cfg[2] is not None and ntyped % 3:
                cfg2[2] = ty(int(cfg[2]))
            out = run_impl(ld, tuple(cfg2), [ty(int(l)) for l in lens])
            if out != outs[i]:
                failures.append(dict(kind='input', summary=f'lengths given as {ty.__name__}: cfg={[str(c) for c in cfg]} lens={[str(l) for l in lens]} gives {out!r}; '
                                     f'the same numbers as exact rationals give {outs[i]!r}'[:600],
                                     config=dict(cfg=[str(c) for c in cfg], lens=[str(l) for l in lens], numeric_type=ty.__name__), got_from_impl=repr(out)[:600]))
    il_fails, nil = interleaved_iterators(ld, common.rng_for('C17-inter'), cases, 400 if tier == 'quick' else 6000)
    failures += il_fails
    bad = eval_cases(coq, f'C17_{tier}')
    seen = set(id(f) for f in failures)
    for i, dump in bad:
        cfg, lens = cases[i]
        failures.append(dict(kind='input', summary=f'model and implementation disagree: cfg={[str(c) for c in cfg]} lens={[str(l) for l in lens]} impl={outs[i]!r}'[:500],
                             config=dict(cfg=[str(c) for c in cfg], lens=[str(l) for l in lens]), got_from_impl=repr(outs[i])[:600], model_says=dump[:600]))
    keys = set((c, tuple(l)) for c, l in cases)
    cov = dict(programs=len(cases), evaluations=len(cases), distinct=len(keys),
               distinct_nontrivial=len([1 for c, l in keys if len(l) >= 2]),
               rule=f'(parameters, length sequence): sequences over the alphabet {{1,2,3,5}} up to length {4 if tier == "quick" else 6} '
                    f'({nseq} sequences) x a grid of {ngrid} parameter settings, sampled; plus random rational sequences of length 5..40; '
                    'non-trivial = distinct case with >= 2 examples',
               traces_validated_against_impl=len(cases), disagreements_checked=len(bad), float_runs_checked_against_predicates=nfloat, interleaved_iterator_runs=nil, integer_typed_runs_compared_with_exact_run=ntyped,
               outcome_histogram=dict(collections.Counter('raised' if isinstance(o, tuple) else f'{len(o)} batches' for o in outs).most_common(12)),
               length_histogram=dict(sorted(collections.Counter(len(l) for c, l in cases).items())),
               samples=[dict(cfg=[str(c) for c in cases[i][0]], lens=[str(l) for l in cases[i][1]], emitted=outs[i]) for i in (0, 5, len(cases) - 1)],
               exhaustive=False)
    return dict(coverage=cov, failures=failures, assumptions=['lengths and rate are exact rationals (Fractions) in the tie'])


def replay(payload):
    ld = common.import_impl()
    c = payload['config']
    F = lambda s: None if s == 'None' else (s == 'True' if s in ('True', 'False') else Fraction(s))
    raw = c['cfg']
    cfg = (int(raw[0]), Fraction(raw[1]), None if raw[2] == 'None' else Fraction(raw[2]),
           None if raw[3] == 'None' else int(raw[3]), None if raw[4] == 'None' else int(raw[4]), raw[5] == 'True', int(raw[6]))
    lens = [Fraction(x) for x in c['lens']]
    if c.get('interleaved'):
        ff, _ = interleaved_iterators(ld, common.rng_for('C17-inter-replay'), [(cfg, lens)] * 30, 30)
        print('  interleaved iterators:', [f['summary'][:200] for f in ff[:2]])
        return bool(ff)
    out = run_impl(ld, cfg, lens)
    fails = predicates(cfg, lens, out)
    bad = eval_cases([coq_case(cfg, lens, out)], 'replay17')
    typed = False
    if c.get('numeric_type'):
        import numpy as np
        ty = int if c['numeric_type'] == 'int' else getattr(np, c['numeric_type'])
        for with_mts in (True, False):
            cfg2 = list(cfg)
            if with_mts and cfg[2] is not None:
                cfg2[2] = ty(int(cfg[2]))
            typed = typed or run_impl(ld, tuple(cfg2), [ty(int(l)) for l in lens]) != out
        print('  run with lengths of type', c['numeric_type'], 'differs from the exact run:', typed)
    print('  impl:', out, '\n  predicate failures:', fails, '\n  model disagreement:', bad)
    return bool(fails or bad or typed)
