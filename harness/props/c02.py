"""C02 - length and integer indexing agree with iteration (Model A)."""
import warnings
from .. import model_a, common

PROP_FILE = 'props/C02.v'
WANT = {'index', 'iter'}


def direct(c):
    """the property evaluated on the implementation's own observations (no model involved):
    indexable & iteration ends normally  =>  len == #iterated, ds[i] == i-th, ds[i-n] == i-th,
    outside [-n, n) IndexError."""
    if c.refused is not None:
        return []
    e = {}
    for (q, qt, kind, res) in c.entries:
        e.setdefault(q, res)
    it = e.get(('iter', False))
    if it is None or it[1] is not None or not e.get(('indexable',)):
        return []
    vals = it[0]
    n = len(vals)
    out = []
    ln = e.get(('len',))
    if ln is not None and ln != ('ok', n):
        out.append(dict(summary=f'indexable dataset: len={ln} but iteration yields {n}', got_from_impl=repr(ln)))
    for q, res in e.items():
        if q[0] != 'geti':
            continue
        i = q[1]
        if -n <= i < n:
            exp = ('ok', vals[i])
            if res != exp:
                f = dict(summary=f'ds[{i}] = {res!r} but iteration yields {vals[i]!r} at that position (n={n})',
                         got_from_impl=repr(res), expected_by_spec=repr(exp), query=list(q))
                if res[0] == 'err' and res[1][0] in ('EAssert', 'ENotImpl') and 'items' in set(c.prog.ops()):
                    f['finding_id'] = 'F15'
                    f['summary'] = 'items() over duplicate keys: indexable is True but ds[i] raises AssertionError'
                out.append(f)
                break
        else:
            # IndexError - or the exception of a USER function (they carry a tag) that the lookup ran into while collecting the
            # candidate elements (batch with drop_last evaluates the elements of the incomplete, dropped batch before it
            # knows that the batch does not exist): never an example, never another library error.  The theorem has the same
            # premise (tbl d = Some t: every source element evaluates without raising).
            if not (res[0] == 'err' and (res[1][0] == 'EIndex' or res[1][1] != 0)):
                f = dict(summary=f'ds[{i}] outside [-{n},{n}) gave {res!r} instead of IndexError',
                         got_from_impl=repr(res), expected_by_spec='IndexError', query=list(q))
                if res[0] == 'err' and res[1][0] in ('EAssert', 'ENotImpl') and 'items' in set(c.prog.ops()):
                    f['finding_id'] = 'F15'
                    f['summary'] = 'items() over duplicate / undefined keys: indexable is True but an integer index raises AssertionError / NotImplementedError (keys() is needed)'
                out.append(f)
                break
    return out


def f15_witness():
    from ..gen_a import Node
    src = Node('dict', ((('a', 1),), 'pickle'))
    return Node('items', (), [Node('tile', (2,), [src])])


def source_history(ld, r, count):
    """len / indexing / iteration of a dataset stay in agreement after the CALLER changes the container it was built from
    (adds, removes, reorders entries): the dataset keeps its own structure in every immutability mode"""
    fails = []
    for _ in range(count):
        n = r.randint(0, 5)
        mode = r.choice(['pickle', 'copy', 'wu'])
        keyed = mode != 'wu' and r.random() < 0.6
        cont = {f'k{i}': [i] for i in range(n)} if keyed else [[i] for i in range(n)]
        try:
            ds = ld.new(cont, immutable_warranty=mode) if mode != 'wu' else ld.core.from_list(cont, 'wu')
        except Exception:
            continue
        stack = r.choice(['plain', 'map', 'items', 'concat', 'batch'])
        top = ds if stack == 'plain' else ds.map(lambda x: x) if stack == 'map' else ds.items() if stack == 'items' and keyed else \
            ds.concatenate(ds.map(lambda x: x)) if stack == 'concat' and not keyed else ds.batch(2) if stack == 'batch' else ds

        def view():
            try:
                return (len(top), [repr(x) for x in top], [repr(top[i]) for i in range(-len(top), len(top))])
            except Exception as e:
                return ('raised', type(e).__name__)
        before = view()
        what = r.choice(['add', 'remove', 'clear', 'reorder'])
        if keyed:
            if what == 'add': cont['zz9'] = [99]
            elif what == 'remove' and cont: cont.pop(next(iter(cont)))
            elif what == 'clear': cont.clear()
            else:
                items = list(cont.items())[::-1]; cont.clear(); cont.update(items)
        else:
            if what == 'add': cont.append([99])
            elif what == 'remove' and cont: cont.pop(0)
            elif what == 'clear': cont.clear()
            else: cont.reverse()
        after = view()
        if after != before:
            fails.append(dict(kind='history', summary=f'new({"dict" if keyed else "list"} of {n}, {mode!r}) [{stack}]: after the caller did "{what}" on its own container the dataset changed: '
                                                      f'len / iteration / indexing {before} -> {after}'[:800], config=dict(n=n, mode=mode, keyed=keyed, what=what, stack=stack)))
    return fails


def _same02(x):
    return x


def selection_bounds_family(ld, r, count):
    """a selection by positions (list, tuple, numpy arrays of every integer dtype) with an entry outside [-len, len) is refused with an
    IndexError when it is made - it does not become a dataset whose len() disagrees with its iteration, nor is the entry wrapped around;
    entries inside the range, negative ones included, select what list indexing selects"""
    import numpy as np
    fails = []
    with warnings.catch_warnings():
        warnings.simplefilter('ignore')
        for _ in range(count):
            n = r.randint(1, 6)
            keyed = r.random() < 0.4
            base = ld.new({f'key{i}': 10 + i for i in range(n)} if keyed else [10 + i for i in range(n)])
            stack = r.choice(['plain', 'map', 'batch', 'slice'])
            d = base if stack == 'plain' else base.map(_same02) if stack == 'map' else base.batch(1) if stack == 'batch' else base[::-1]
            ref = list(d)
            m = len(ref)
            idx = [r.randint(-m, m - 1) for _i in range(r.randint(1, 4))]
            out_of_range = r.random() < 0.6
            if out_of_range:
                idx[r.randrange(len(idx))] = r.choice([m, m + 2, -m - 1, -2 * m, 2 * m + 1])
            form = r.choice(['list', 'tuple', 'int64', 'int32', 'int16', 'int8', 'intp'])
            sel = idx if form == 'list' else tuple(idx) if form == 'tuple' else np.array(idx, dtype=form)
            what = f'{stack} over {n} examples ({"dict" if keyed else "list"} source) selected by the {form} positions {idx}'
            try:
                sub = d[sel]
            except IndexError:
                if not out_of_range:
                    fails.append(dict(kind='history', summary=f'{what}: refused with IndexError although every position is inside [-{m}, {m})', config=dict(kind='selbounds', idx=idx, form=form)))
                continue
            except Exception as e:
                fails.append(dict(kind='history', summary=f'{what}: raised {type(e).__name__}: {e}'[:300], config=dict(kind='selbounds', idx=idx, form=form)))
                continue
            if out_of_range:
                try:
                    shown = (len(sub), [repr(x) for x in sub])
                except Exception as e:
                    shown = f'a dataset whose iteration raises {type(e).__name__}'
                fails.append(dict(kind='history', summary=f'{what}: a position outside [-{m}, {m}) was accepted; the result is {shown}'[:500], config=dict(kind='selbounds', idx=idx, form=form)))
                continue
            want = [ref[i] for i in idx]
            try:
                got = (len(sub), list(sub), [sub[j] for j in range(len(idx))])
            except Exception as e:
                got = f'raised {type(e).__name__}: {e}'
            if got != (len(want), want, want):
                fails.append(dict(kind='history', summary=f'{what}: len / iteration / position access = {got}; list indexing gives {want}'[:500], config=dict(kind='selbounds', idx=idx, form=form)))
    return fails


def falsy_examples_family(ld, r, count):
    """examples that are None / 0 / '' / False / () / [] pass through every stage class (and through the profiling wrapper around
    it): what is iterated is what the source holds, len() - where defined - is the number of iterated examples, ds[i] is the i-th one"""
    import itertools, numpy as np
    fails = []
    VALS = [None, None, 0, '', False, (), [], 5]
    STAGES = ['plain', 'map', 'catch', 'prefetch1', 'prefetch2', 'cache', 'items', 'batch1_unbatch', 'filter_true', 'sort', 'shuffle_once', 'reshuffle',
              'local_shuffle', 'tile', 'concat', 'intersperse', 'zip', 'key_zip', 'slice', 'copy', 'lazyapply', 'parmap', 'batch', 'cycle']
    with warnings.catch_warnings():
        warnings.simplefilter('ignore')
        for _ in range(count):
            n = r.randint(1, 5)
            vals = [r.choice(VALS) for _i in range(n)]
            keyed = r.random() < 0.5
            st = r.choice(STAGES)
            prof = r.random() < 0.4

            def build():
                b = ld.new({f'key{i}': v for i, v in enumerate(vals)} if keyed else list(vals))
                if st == 'plain': return b, vals, True
                if st == 'map': return b.map(_same02), vals, True
                if st == 'catch': return b.catch(), vals, True
                if st == 'prefetch1': return b.prefetch(1, 2), vals, True
                if st == 'prefetch2': return b.prefetch(2, 2), vals, True
                if st == 'cache': return b.cache(), vals, True
                if st == 'items': return (b.items(), [(f'key{i}', v) for i, v in enumerate(vals)], True) if keyed else (b, vals, True)
                if st == 'batch1_unbatch': return b.batch(1).unbatch(), vals, True
                if st == 'filter_true': return b.filter(lambda x: True), vals, True
                if st == 'sort': return b.sort(lambda x: 0), vals, True
                if st == 'shuffle_once': return b.shuffle(False, rng=np.random.RandomState(1)), vals, False
                if st == 'reshuffle': return b.shuffle(True, rng=np.random.RandomState(1)), vals, False
                if st == 'local_shuffle': return b.shuffle(True, rng=np.random.RandomState(1), buffer_size=2), vals, False
                if st == 'tile': return b.tile(2), vals + vals, True
                if st == 'concat': return b.concatenate(b.map(_same02)), vals + vals, True
                if st == 'intersperse': return b.map(_same02).intersperse(b[:1].map(_same02)), vals + vals[:1], False      # (the order table is C01's business)
                if st == 'zip': return b.zip(b.map(_same02)), [(v, v) for v in vals], True
                if st == 'key_zip': return (b.key_zip(b.map(_same02)), [(v, v) for v in vals], True) if keyed else (b, vals, True)
                if st == 'slice': return b[::-1], vals[::-1], True
                if st == 'copy': return b.map(_same02).copy(freeze=True), vals, True
                if st == 'lazyapply': return b.apply(lambda d: d.map(_same02), lazy=True), vals, True
                if st == 'parmap': return b.map(_same02, num_workers=2, buffer_size=2), vals, True
                if st == 'batch': return b.batch(2), [vals[i:i + 2] for i in range(0, n, 2)], True
                return b.cycle(), vals + vals, True
            try:
                d, want, ordered = build()
                if prof:
                    d = ld.core.ProfilingDataset(d)
                lim = 2 * n if st == 'cycle' else None
                with common.watchdog(20, lambda: f'iterating {st} over {vals!r}' + (' under the profiling wrapper' if prof else '')):
                    got = list(itertools.islice(iter(d), lim))
                    again = list(itertools.islice(iter(d), lim))
                key = (lambda l: sorted(map(repr, l))) if not ordered else (lambda l: list(map(repr, l)))
                what = f'{"ProfilingDataset of " if prof else ""}{st} over the {"dict" if keyed else "list"} source {vals!r}'
                if key(got) != key(want) or key(again) != key(want):
                    fails.append(dict(kind='history', summary=f'{what}: iteration delivers {got!r}, then {again!r}; expected {want!r}'[:600], config=dict(kind='falsy', stage=st, vals=[repr(v) for v in vals])))
                    continue
                try:
                    ln = len(d)
                except Exception:
                    ln = None
                if ln is not None and ln != len(got):
                    fails.append(dict(kind='history', summary=f'{what}: len() = {ln}, iteration delivers {len(got)} examples'[:600], config=dict(kind='falsy', stage=st, vals=[repr(v) for v in vals])))
                    continue
                if ordered and ln is not None:
                    try:
                        idx = bool(d.indexable)
                    except Exception:
                        idx = False
                    if idx:
                        byi = [d[i] for i in range(ln)]
                        if key(byi) != key(want):
                            fails.append(dict(kind='history', summary=f'{what}: position access delivers {byi!r}, iteration {got!r}'[:600], config=dict(kind='falsy', stage=st, vals=[repr(v) for v in vals])))
            except common.ImplMisbehaviour as e:
                fails.append(dict(kind='history', summary=f'{"ProfilingDataset of " if prof else ""}{st} over {vals!r} does not come back: {e}'[:400], config=dict(kind='falsy', stage=st)))
                if len(fails) > 3:
                    break
            except Exception as e:
                fails.append(dict(kind='history', summary=f'{"ProfilingDataset of " if prof else ""}{st} over {vals!r} raised {type(e).__name__}: {e}'[:400], config=dict(kind='falsy', stage=st)))
    return fails


def run(tier):
    # the known finding F15 is replayed on every run (its witness is the first case)
    res = model_a.run_a('C02', tier, WANT, n_quick=1500, n_thorough=40000, direct=direct,
                        extra_nodes=[f15_witness()])
    from .. import common
    ld = common.import_impl()
    sh = source_history(ld, common.rng_for('C02-src'), 200 if tier == 'quick' else 3000)
    res['failures'] += sh
    res['coverage']['source_container_histories'] = 200 if tier == 'quick' else 3000
    nf = 400 if tier == 'quick' else 6000
    res['failures'] += falsy_examples_family(ld, common.rng_for('C02-falsy'), nf)
    res['coverage']['falsy_example_pipelines'] = nf
    res['failures'] += selection_bounds_family(ld, common.rng_for('C02-selb'), nf)
    res['coverage']['selection_bounds_cases'] = nf
    return res


def replay(payload):
    if 'program' not in payload:
        from .. import common
        ld = common.import_impl()
        ff = falsy_examples_family(ld, common.rng_for('C02-falsy'), 400) + source_history(ld, common.rng_for('C02-src'), 200) + selection_bounds_family(ld, common.rng_for('C02-selb'), 400)
        for f in ff[:3]:
            print('  ', f['summary'][:300])
        return bool(ff)
    return model_a.replay_a(payload)
