"""C02 - length and integer indexing agree with iteration (Model A)."""
from .. import model_a, common

PROP_FILE = 'props/C02.v'
WANT = {'index', 'iter'}


def direct(c):
    """the property evaluated on the implementation's own observations (no model involved):
    indexable & iteration ends normally  =>  len == #iterated, ds[i] == i-th, ds[i-n] == i-th,
    outside [-n, n) IndexError."""
    if c.refused is not None:
        return []
    e = {}
    for (q, qt, kind, res) in c.entries:
        e.setdefault(q, res)
    it = e.get(('iter', False))
    if it is None or it[1] is not None or not e.get(('indexable',)):
        return []
    vals = it[0]
    n = len(vals)
    out = []
    ln = e.get(('len',))
    if ln is not None and ln != ('ok', n):
        out.append(dict(summary=f'indexable dataset: len={ln} but iteration yields {n}', got_from_impl=repr(ln)))
    for q, res in e.items():
        if q[0] != 'geti':
            continue
        i = q[1]
        if -n <= i < n:
            exp = ('ok', vals[i])
            if res != exp:
                f = dict(summary=f'ds[{i}] = {res!r} but iteration yields {vals[i]!r} at that position (n={n})',
                         got_from_impl=repr(res), expected_by_spec=repr(exp), query=list(q))
                if res[0] == 'err' and res[1][0] in ('EAssert', 'ENotImpl') and 'items' in set(c.prog.ops()):
                    f['finding_id'] = 'F15'
                    f['summary'] = 'items() over duplicate keys: indexable is True but ds[i] raises AssertionError'
                out.append(f)
                break
        else:
            if not (res[0] == 'err' and res[1][0] == 'EIndex'):
                f = dict(summary=f'ds[{i}] outside [-{n},{n}) gave {res!r} instead of IndexError',
                         got_from_impl=repr(res), expected_by_spec='IndexError', query=list(q))
                if res[0] == 'err' and res[1][0] in ('EAssert', 'ENotImpl') and 'items' in set(c.prog.ops()):
                    f['finding_id'] = 'F15'
                    f['summary'] = 'items() over duplicate / undefined keys: indexable is True but an integer index raises AssertionError / NotImplementedError (keys() is needed)'
                out.append(f)
                break
    return out


def f15_witness():
    from ..gen_a import Node
    src = Node('dict', ((('a', 1),), 'pickle'))
    return Node('items', (), [Node('tile', (2,), [src])])


def run(tier):
    # the known finding F15 is replayed on every run (its witness is the first case)
    return model_a.run_a('C02', tier, WANT, n_quick=1500, n_thorough=40000, direct=direct,
                         extra_nodes=[f15_witness()])


def replay(payload):
    return model_a.replay_a(payload)
