"""C02 - length and integer indexing agree with iteration (Model A)."""
from .. import model_a, common

PROP_FILE = 'props/C02.v'
WANT = {'index', 'iter'}


def direct(c):
    """the property evaluated on the implementation's own observations (no model involved):
    indexable & iteration ends normally  =>  len == #iterated, ds[i] == i-th, ds[i-n] == i-th,
    outside [-n, n) IndexError."""
    if c.refused is not None:
        return []
    e = {}
    for (q, qt, kind, res) in c.entries:
        e.setdefault(q, res)
    it = e.get(('iter', False))
    if it is None or it[1] is not None or not e.get(('indexable',)):
        return []
    vals = it[0]
    n = len(vals)
    out = []
    ln = e.get(('len',))
    if ln is not None and ln != ('ok', n):
        out.append(dict(summary=f'indexable dataset: len={ln} but iteration yields {n}', got_from_impl=repr(ln)))
    for q, res in e.items():
        if q[0] != 'geti':
            continue
        i = q[1]
        if -n <= i < n:
            exp = ('ok', vals[i])
            if res != exp:
                f = dict(summary=f'ds[{i}] = {res!r} but iteration yields {vals[i]!r} at that position (n={n})',
                         got_from_impl=repr(res), expected_by_spec=repr(exp), query=list(q))
                if res[0] == 'err' and res[1][0] in ('EAssert', 'ENotImpl') and 'items' in set(c.prog.ops()):
                    f['finding_id'] = 'F15'
                    f['summary'] = 'items() over duplicate keys: indexable is True but ds[i] raises AssertionError'
                out.append(f)
                break
        else:
            # IndexError - or the exception of a USER function (they carry a tag) that the lookup ran into while collecting the
            # candidate elements (batch with drop_last evaluates the elements of the incomplete, dropped batch before it
            # knows that the batch does not exist): never an example, never another library error.  The theorem has the same
            # premise (tbl d = Some t: every source element evaluates without raising).
            if not (res[0] == 'err' and (res[1][0] == 'EIndex' or res[1][1] != 0)):
                f = dict(summary=f'ds[{i}] outside [-{n},{n}) gave {res!r} instead of IndexError',
                         got_from_impl=repr(res), expected_by_spec='IndexError', query=list(q))
                if res[0] == 'err' and res[1][0] in ('EAssert', 'ENotImpl') and 'items' in set(c.prog.ops()):
                    f['finding_id'] = 'F15'
                    f['summary'] = 'items() over duplicate / undefined keys: indexable is True but an integer index raises AssertionError / NotImplementedError (keys() is needed)'
                out.append(f)
                break
    return out


def f15_witness():
    from ..gen_a import Node
    src = Node('dict', ((('a', 1),), 'pickle'))
    return Node('items', (), [Node('tile', (2,), [src])])


def source_history(ld, r, count):
    """len / indexing / iteration of a dataset stay in agreement after the CALLER changes the container it was built from
    (adds, removes, reorders entries): the dataset keeps its own structure in every immutability mode"""
    fails = []
    for _ in range(count):
        n = r.randint(0, 5)
        mode = r.choice(['pickle', 'copy', 'wu'])
        keyed = mode != 'wu' and r.random() < 0.6
        cont = {f'k{i}': [i] for i in range(n)} if keyed else [[i] for i in range(n)]
        try:
            ds = ld.new(cont, immutable_warranty=mode) if mode != 'wu' else ld.core.from_list(cont, 'wu')
        except Exception:
            continue
        stack = r.choice(['plain', 'map', 'items', 'concat', 'batch'])
        top = ds if stack == 'plain' else ds.map(lambda x: x) if stack == 'map' else ds.items() if stack == 'items' and keyed else \
            ds.concatenate(ds.map(lambda x: x)) if stack == 'concat' and not keyed else ds.batch(2) if stack == 'batch' else ds

        def view():
            try:
                return (len(top), [repr(x) for x in top], [repr(top[i]) for i in range(-len(top), len(top))])
            except Exception as e:
                return ('raised', type(e).__name__)
        before = view()
        what = r.choice(['add', 'remove', 'clear', 'reorder'])
        if keyed:
            if what == 'add': cont['zz9'] = [99]
            elif what == 'remove' and cont: cont.pop(next(iter(cont)))
            elif what == 'clear': cont.clear()
            else:
                items = list(cont.items())[::-1]; cont.clear(); cont.update(items)
        else:
            if what == 'add': cont.append([99])
            elif what == 'remove' and cont: cont.pop(0)
            elif what == 'clear': cont.clear()
            else: cont.reverse()
        after = view()
        if after != before:
            fails.append(dict(kind='history', summary=f'new({"dict" if keyed else "list"} of {n}, {mode!r}) [{stack}]: after the caller did "{what}" on its own container the dataset changed: '
                                                      f'len / iteration / indexing {before} -> {after}'[:800], config=dict(n=n, mode=mode, keyed=keyed, what=what, stack=stack)))
    return fails


def run(tier):
    # the known finding F15 is replayed on every run (its witness is the first case)
    res = model_a.run_a('C02', tier, WANT, n_quick=1500, n_thorough=40000, direct=direct,
                        extra_nodes=[f15_witness()])
    from .. import common
    ld = common.import_impl()
    sh = source_history(ld, common.rng_for('C02-src'), 200 if tier == 'quick' else 3000)
    res['failures'] += sh
    res['coverage']['source_container_histories'] = 200 if tier == 'quick' else 3000
    return res


def replay(payload):
    return model_a.replay_a(payload)
