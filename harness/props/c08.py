"""C08 - evaluation is demand-driven: nothing runs early, nothing runs twice (Model B, Trace.v)."""
from .. import model_b

PROP_FILE = 'props/C08.v'
TRUSTED = ['CPython generator protocol (code after a yield runs at the next next()) is where laziness comes from; the model encodes it as segments',
           'prefetch read-ahead is schedule dependent and bounded in C07, it has no exact segment structure here']


class _Log:
    """user function of one stage: logs its argument, optionally raises a given class for given arguments"""
    def __init__(self, name, log, bad=(), exc=IndexError):
        self.name, self.log, self.bad, self.exc = name, log, set(bad), exc

    def __call__(self, x):
        self.log.append((self.name, repr(x)))
        if not isinstance(x, list) and x in self.bad:
            raise self.exc(x)
        return x


def combined_access_support(ld, r, count):
    """ds[i] on a concatenation / interspersion / zip applies user functions only to the examples that make up that one result:
    exactly the applications (and the outcome) of the same access on the input that owns position i - also when earlier inputs drop
    an incomplete last batch or contain user functions that raise IndexError / KeyError themselves"""
    import warnings
    fails = []
    with warnings.catch_warnings():
        warnings.simplefilter('ignore')
        for _ in range(count):
            log = []
            nparts = r.choice([2, 2, 3])
            parts = []
            for pi in range(nparts):
                m = r.randint(0, 5)
                vals = list(range(100 * pi, 100 * pi + m))
                bad = [v for v in vals if r.random() < 0.15]
                exc = r.choice([IndexError, IndexError, KeyError, ValueError])
                d = ld.new(vals).map(_Log(f'load{pi}', log, bad, exc))
                kind = r.choice(['map', 'batch_drop', 'batch_drop', 'batch', 'slice', 'map2'])
                if kind == 'batch_drop': d = d.batch(r.choice([2, 3]), drop_last=True)
                elif kind == 'batch': d = d.batch(2)
                elif kind == 'slice': d = d[::-1]
                elif kind == 'map2': d = d.map(_Log(f'post{pi}', log))
                parts.append(d)
            comb = r.choice(['concatenate', 'concatenate', 'intersperse'])
            try:
                lens = [len(p) for p in parts]
                if comb == 'intersperse' and 0 in lens:
                    continue
                ds = ld.concatenate(*parts) if comb == 'concatenate' else ld.intersperse(*parts)
                total = len(ds)
            except Exception:
                continue

            def access(d, i):
                del log[:]
                try:
                    v = ('ok', repr(d[i]))
                except Exception as e:
                    v = ('raised', type(e).__name__)
                return v, list(log)
            if comb == 'concatenate':
                owner = [(p, j) for p in range(nparts) for j in range(lens[p])]
            else:
                owner = [(di, ei) for (_pos, di, ei) in ds.order]
            for i in list(range(total)) + [-1, total]:
                got = access(ds, i)
                if 0 <= i < total or (i == -1 and total):
                    p, j = owner[i]
                    want = access(parts[p], j)
                    if got != want:
                        fails.append(f'{comb} of {nparts} inputs with lengths {lens}: ds[{i}] gave {got[0]} after the applications {got[1]}; the same access on the owning input ({p}, position {j}) gives {want[0]} after {want[1]}'[:700])
                        break
                elif got[1] or got[0][0] != 'raised':
                    fails.append(f'{comb} of {nparts} inputs with lengths {lens}: ds[{i}] is out of range but gave {got[0]} after running {got[1]}'[:500])
                    break
    return fails


def run(tier):
    from .. import model_e, common
    res = model_b.run_b('C08', tier, want_prof=False)
    # "at most one ... prefetch buffer ahead": through the Dataset API, with a stalling consumer
    fails, runs = model_e.dataset_level_readahead(common.import_impl(), common.rng_for('C08ra'), tier)
    for msg in fails[:5]:
        res['failures'].append(dict(kind='program', summary=msg, config=dict(kind='dataset_readahead')))
    res['coverage']['readahead_runs_through_dataset_api'] = runs
    nca = 250 if tier == 'quick' else 4000
    for msg in combined_access_support(common.import_impl(), common.rng_for('C08comb'), nca)[:5]:
        res['failures'].append(dict(kind='program', summary=msg, config=dict(kind='combined_access')))
    res['coverage']['combined_access_cases'] = nca
    return res


def replay(payload):
    return True
