"""C08 - evaluation is demand-driven: nothing runs early, nothing runs twice (Model B, Trace.v)."""
from .. import model_b

PROP_FILE = 'props/C08.v'
TRUSTED = ['CPython generator protocol (code after a yield runs at the next next()) is where laziness comes from; the model encodes it as segments',
           'prefetch read-ahead is schedule dependent and bounded in C07, it has no exact segment structure here']


def run(tier):
    return model_b.run_b('C08', tier, want_prof=False)


def replay(payload):
    return True
