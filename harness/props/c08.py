"""C08 - evaluation is demand-driven: nothing runs early, nothing runs twice (Model B, Trace.v)."""
from .. import model_b

PROP_FILE = 'props/C08.v'
TRUSTED = ['CPython generator protocol (code after a yield runs at the next next()) is where laziness comes from; the model encodes it as segments',
           'prefetch read-ahead is schedule dependent and bounded in C07, it has no exact segment structure here']


class _Log:
    """user function of one stage: logs its argument, optionally raises a given class for given arguments"""
    def __init__(self, name, log, bad=(), exc=IndexError):
        self.name, self.log, self.bad, self.exc = name, log, set(bad), exc

    def __call__(self, x):
        self.log.append((self.name, repr(x)))
        if not isinstance(x, list) and x in self.bad:
            raise self.exc(x)
        return x


def combined_access_support(ld, r, count):
    """ds[i] on a concatenation / interspersion / zip applies user functions only to the examples that make up that one result:
    exactly the applications (and the outcome) of the same access on the input that owns position i - also when earlier inputs drop
    an incomplete last batch or contain user functions that raise IndexError / KeyError themselves"""
    import warnings
    fails = []
    with warnings.catch_warnings():
        warnings.simplefilter('ignore')
        for _ in range(count):
            log = []
            nparts = r.choice([2, 2, 3])
            parts = []
            for pi in range(nparts):
                m = r.randint(0, 5)
                vals = list(range(100 * pi, 100 * pi + m))
                bad = [v for v in vals if r.random() < 0.15]
                exc = r.choice([IndexError, IndexError, KeyError, ValueError])
                d = ld.new(vals).map(_Log(f'load{pi}', log, bad, exc))
                kind = r.choice(['map', 'batch_drop', 'batch_drop', 'batch', 'slice', 'map2'])
                if kind == 'batch_drop': d = d.batch(r.choice([2, 3]), drop_last=True)
                elif kind == 'batch': d = d.batch(2)
                elif kind == 'slice': d = d[::-1]
                elif kind == 'map2': d = d.map(_Log(f'post{pi}', log))
                parts.append(d)
            comb = r.choice(['concatenate', 'concatenate', 'intersperse'])
            try:
                lens = [len(p) for p in parts]
                if comb == 'intersperse' and 0 in lens:
                    continue
                ds = ld.concatenate(*parts) if comb == 'concatenate' else ld.intersperse(*parts)
                total = len(ds)
            except Exception:
                continue

            def access(d, i):
                del log[:]
                try:
                    v = ('ok', repr(d[i]))
                except Exception as e:
                    v = ('raised', type(e).__name__)
                return v, list(log)
            if comb == 'concatenate':
                owner = [(p, j) for p in range(nparts) for j in range(lens[p])]
            else:
                owner = [(di, ei) for (_pos, di, ei) in ds.order]
            for i in list(range(total)) + [-1, total]:
                got = access(ds, i)
                if 0 <= i < total or (i == -1 and total):
                    p, j = owner[i]
                    want = access(parts[p], j)
                    if got != want:
                        fails.append(f'{comb} of {nparts} inputs with lengths {lens}: ds[{i}] gave {got[0]} after the applications {got[1]}; the same access on the owning input ({p}, position {j}) gives {want[0]} after {want[1]}'[:700])
                        break
                elif got[1] or got[0][0] != 'raised':
                    fails.append(f'{comb} of {nparts} inputs with lengths {lens}: ds[{i}] is out of range but gave {got[0]} after running {got[1]}'[:500])
                    break
    return fails


def consumer_stage_call_counts(ld, r, count):
    """a consuming stage on top (single-thread prefetch, multi-worker prefetch, catch, a copy, the profiling wrapper) does not make the
    stages below it work twice: per iteration every user function - including the function of a lazy apply and what it runs eagerly -
    is called as often as when the pipeline below is iterated directly, and a seeded generator is advanced as often"""
    import warnings
    import numpy as np
    from . import c12 as _c12
    fails = []
    with warnings.catch_warnings():
        warnings.simplefilter('ignore')
        for _ in range(count):
            n = r.randint(1, 6)
            seed = r.randint(0, 10 ** 6)
            below = r.choice(['lazyapply_filter', 'lazyapply_sort', 'reshuffle', 'lazyapply_shuffle', 'map_only', 'lazyapply_nested'])
            top = r.choice(['prefetch1', 'prefetch1', 'prefetch1_items', 'prefetch2', 'catch', 'copy', 'profile', 'prefetch1_catch'])

            def build(with_top):
                counts = {'load': 0, 'select': 0, 'keep': 0, 'post': 0}
                rng = _c12.RecRng(seed)

                def load(x):
                    counts['load'] += 1
                    return x

                def keep(x):
                    counts['keep'] += 1
                    return x % 3 != 1

                def post(x):
                    counts['post'] += 1
                    return x

                def select(d):
                    counts['select'] += 1
                    if below == 'lazyapply_filter': return d.filter(keep, lazy=False)
                    if below == 'lazyapply_sort': return d.sort(lambda x: -x)
                    if below == 'lazyapply_shuffle': return d.shuffle(False, rng=rng)
                    return d.apply(lambda e: e.filter(keep, lazy=False), lazy=True)
                d = ld.new({f'key{i}': i for i in range(n)}).map(load)
                if below == 'reshuffle': d = d.shuffle(True, rng=rng)
                elif below != 'map_only': d = d.apply(select, lazy=True)
                d = d.map(post)
                if with_top:
                    if top == 'prefetch1': d = d.prefetch(1, 2)
                    elif top == 'prefetch1_items': d = d.prefetch(1, 2).items()
                    elif top == 'prefetch2': d = d.prefetch(2, 2)
                    elif top == 'catch': d = d.catch()
                    elif top == 'copy': d = d.copy()
                    elif top == 'profile': d = ld.core.ProfilingDataset(d)
                    else: d = d.prefetch(1, 2, catch_filter_exception=True)
                return d, counts, rng
            try:
                res = []
                for with_top in (False, True):
                    try:
                        d, counts, rng = build(with_top)
                    except Exception:
                        if with_top:
                            break               # this consumer refuses the pipeline loudly at construction (e.g. multi-worker prefetch above a lazy apply)
                        raise
                    per_iter = []
                    for _e in range(2):
                        before = (dict(counts), len(rng.draws))
                        vals = sorted(x[1] if isinstance(x, tuple) else x for x in d)
                        per_iter.append(({k: counts[k] - before[0][k] for k in counts}, len(rng.draws) - before[1], vals))
                    res.append(per_iter)
                if len(res) == 2 and res[0] != res[1]:
                    fails.append(f'{top} on top of a pipeline with {below} below (n={n}): per iteration (calls, draws from the seeded generator, examples) = {res[1]}; the pipeline iterated directly gives {res[0]}'[:700])
            except Exception as e:
                fails.append(f'{top} above {below} (n={n}) raised {type(e).__name__}: {e}'[:300])
    return fails


def cycle_prefix_counts(ld, r, count):
    """the first k examples of ds.cycle() (k within the first round) cost exactly what the first k examples of ds cost - also when ds has
    no length (lazy filter, catch, unbatch, lazy apply above mapped stages): nothing is probed with a throw-away iterator"""
    import itertools, warnings
    fails = []
    with warnings.catch_warnings():
        warnings.simplefilter('ignore')
        for _ in range(count):
            n = r.randint(1, 7)
            below = r.choice(['filter', 'catch', 'unbatch', 'lazyapply', 'map', 'filter_items'])

            def build():
                log = []
                d = ld.new({f'key{i}': i for i in range(n)}).map(_Log('load', log))
                if below in ('filter', 'filter_items'): d = d.filter(_KeepLog(log))
                elif below == 'catch': d = d.catch()
                elif below == 'unbatch': d = d.batch(2).unbatch()
                elif below == 'lazyapply': d = d.apply(_ApplyLog(log), lazy=True)
                return d, log
            try:
                d0, log0 = build()
                whole = list(d0)
                if not whole:
                    continue                      # (cycling a pipeline that yields nothing never returns)
                k = r.randint(1, len(whole))
                res = []
                for cyc in (False, True):
                    d, log = build()
                    t = d.cycle() if cyc else d
                    if below == 'filter_items':
                        t = t.items()
                    del log[:]
                    it = iter(t)
                    made = list(log)
                    got = list(itertools.islice(it, k))
                    res.append((made, sorted(log), got))
                if res[0] != res[1]:
                    fails.append(f'cycle() above {below} over {n} mapped examples, first {k} results: (calls at iter(), calls, results) = {res[1]}; without cycle() {res[0]}'[:700])
            except Exception as e:
                fails.append(f'cycle() above {below} raised {type(e).__name__}: {e}'[:300])
    return fails


class _KeepLog:
    def __init__(self, log): self.log = log
    def __call__(self, x):
        self.log.append(('keep', repr(x)))
        return x % 3 != 0


class _ApplyLog:
    def __init__(self, log): self.log = log
    def __call__(self, d):
        self.log.append(('apply_fn', ''))
        return d.map(_Log('inner', self.log))


def run(tier):
    from .. import model_e, common
    res = model_b.run_b('C08', tier, want_prof=False)
    # "at most one ... prefetch buffer ahead": through the Dataset API, with a stalling consumer
    fails, runs = model_e.dataset_level_readahead(common.import_impl(), common.rng_for('C08ra'), tier)
    for msg in fails[:5]:
        res['failures'].append(dict(kind='program', summary=msg, config=dict(kind='dataset_readahead')))
    pf, pr = model_e.process_backend_readahead(common.import_impl(), common.rng_for('C08pra'), tier)
    for msg in pf[:5]:
        res['failures'].append(dict(kind='program', summary=msg, config=dict(kind='process_readahead')))
    res['coverage']['readahead_runs_through_dataset_api'] = runs + pr
    nca = 250 if tier == 'quick' else 4000
    for msg in combined_access_support(common.import_impl(), common.rng_for('C08comb'), nca)[:5]:
        res['failures'].append(dict(kind='program', summary=msg, config=dict(kind='combined_access')))
    res['coverage']['combined_access_cases'] = nca
    ncc = 200 if tier == 'quick' else 3000
    for msg in consumer_stage_call_counts(common.import_impl(), common.rng_for('C08cons'), ncc)[:5]:
        res['failures'].append(dict(kind='program', summary=msg, config=dict(kind='consumer_counts')))
    res['coverage']['consumer_stage_count_cases'] = ncc
    for msg in cycle_prefix_counts(common.import_impl(), common.rng_for('C08cyc'), ncc)[:5]:
        res['failures'].append(dict(kind='program', summary=msg, config=dict(kind='cycle_prefix')))
    res['coverage']['cycle_prefix_cases'] = ncc
    return res


def replay(payload):
    return True
