"""C08 - evaluation is demand-driven: nothing runs early, nothing runs twice (Model B, Trace.v)."""
from .. import model_b

PROP_FILE = 'props/C08.v'
TRUSTED = ['CPython generator protocol (code after a yield runs at the next next()) is where laziness comes from; the model encodes it as segments',
           'prefetch read-ahead is schedule dependent and bounded in C07, it has no exact segment structure here']


def run(tier):
    from .. import model_e, common
    res = model_b.run_b('C08', tier, want_prof=False)
    # "at most one ... prefetch buffer ahead": through the Dataset API, with a stalling consumer
    fails, runs = model_e.dataset_level_readahead(common.import_impl(), common.rng_for('C08ra'), tier)
    for msg in fails[:5]:
        res['failures'].append(dict(kind='program', summary=msg, config=dict(kind='dataset_readahead')))
    res['coverage']['readahead_runs_through_dataset_api'] = runs
    return res


def replay(payload):
    return True
