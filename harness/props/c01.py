"""C01 - iterating a pipeline equals the eager reference semantics, repeatably (Model A)."""
from .. import common, model_a, gen_a
from ..gen_a import Node

PROP_FILE = 'props/C01.v'
WANT = {'iter'}


def long_sources(r, count):
    """the random generator keeps sources short (0..6); order computations that depend on the lengths themselves
    (intersperse positions (i+1)/n, array_split shard sizes, tile/concat offsets, strided slices) get long sources here"""
    out = []
    lens = [1, 2, 3, 5, 6, 7, 10, 14, 15, 20, 25, 30, 49, 50]
    for _ in range(count):
        k = r.choice([2, 2, 2, 3])
        ns = [r.choice(lens) for _ in range(k)]
        if r.random() < 0.3:
            ns[0], ns[1] = r.choice([(5, 15), (10, 15), (20, 15), (5, 25), (5, 30), (30, 6), (1, 49), (15, 5), (7, 49)])
        keyed = r.random() < 0.5
        kids, base = [], 0
        for j, n in enumerate(ns):
            vals = list(range(base, base + n))
            base += n
            if keyed:
                kids.append(Node('dict', (tuple((f'p{j}_{i}', v) for i, v in enumerate(vals)), 'pickle')))
            else:
                kids.append(Node('list', (tuple(vals), 'pickle')))
        w = r.random()
        if w < 0.55:
            d = Node('intersperse', (), kids)
        elif w < 0.7:
            d = Node('concat', (), kids)
        elif w < 0.85:
            d = Node('shard', (r.randint(1, max(1, ns[0])), 0), [kids[0]])
            d.a = (d.a[0], r.randrange(d.a[0]))
        else:
            d = Node('get', (('slice', r.choice([None, 3, -7]), r.choice([None, -2, 40]), r.choice([2, 3, -3, 7])),), [kids[0]])
        x = r.random()
        if x < 0.2:
            d = Node('batch', (r.choice([2, 4, 7]), r.random() < 0.5), [d])
        elif x < 0.35:
            d = Node('get', (('slice', None, None, -1),), [d])
        elif x < 0.45:
            d = Node('items', (), [d])
        out.append(d)
    return out


def index_container_history(ld, r, count):
    """a selection ds[idx] keeps its own copy of the index container: whatever the caller does with idx afterwards (the
    permutation buffer that is reshuffled for the next epoch ...) the dataset built from it iterates as before"""
    import numpy as np
    fails = []
    for _ in range(count):
        n = r.randint(2, 8)
        keyed = r.random() < 0.5
        ds = ld.new({f'k{i}': 10 + i for i in range(n)} if keyed else [10 + i for i in range(n)])
        form = r.choice(['int64', 'int64', 'intp', 'int32', 'list', 'bool', 'keys', 'int64_2d'])
        pos = [r.randrange(n) for _ in range(r.randint(1, n))]
        if form in ('int64', 'intp', 'int32'): idx = np.array(pos, dtype=form)
        elif form == 'int64_2d': idx = np.array([pos], dtype=np.int64)
        elif form == 'list': idx = list(pos)
        elif form == 'bool':
            idx = np.zeros(n, dtype=bool)
            idx[pos] = True
        else:
            if not keyed:
                continue
            idx = [f'k{i}' for i in pos]
        try:
            sel = ds[idx]
        except Exception:
            continue                     # this spelling of a selection is refused (e.g. a 2-d array)
        try:
            stack = r.choice(['plain', 'map', 'items', 'batch'])
            top = sel if stack == 'plain' else sel.map(lambda x: x) if stack == 'map' else sel.items() if stack == 'items' and keyed else sel.batch(2) if stack == 'batch' else sel
            before = ([repr(x) for x in top], len(top))
            if isinstance(idx, list):
                idx.reverse(); idx.append(idx[0])
            elif idx.dtype == bool:
                idx[:] = ~idx
            else:
                idx[...] = (idx + 1) % n
            after = ([repr(x) for x in top], len(top))
        except Exception as e:
            fails.append(dict(kind='history', summary=f'selection by a {form} index container raised {type(e).__name__}: {e}'[:300], config=dict(n=n, form=form, pos=pos)))
            continue
        if before != after:
            fails.append(dict(kind='history', summary=f'new(.., n={n})[{form} index {pos}] ({stack}): after the caller changed its index container the dataset iterates {after[0]} instead of {before[0]}'[:700],
                              config=dict(n=n, form=form, pos=pos, stack=stack)))
    return fails


def tile_shuffle_family(ld, r, count):
    """tile(reps, shuffle=True): the eager reference shuffles every repetition on its own (reps draws from the global numpy
    generator) and concatenates them; iterating again gives the same sequence."""
    import numpy as np
    fails = []
    for _ in range(count):
        n, reps, sd = r.randint(0, 7), r.randint(1, 4), r.randint(0, 10 ** 6)
        keyed = r.random() < 0.4
        vals = [10 * (i + 1) for i in range(n)]
        mk = (lambda: ld.new({f'key{i}': v for i, v in enumerate(vals)})) if keyed else (lambda: ld.new(list(vals)))
        stack = r.choice(['plain', 'map', 'slice'])
        def top(d):
            return d if stack == 'plain' else d.map(lambda x: x + 1) if stack == 'map' else d[::-1]
        try:
            np.random.seed(sd)
            t = top(mk()).tile(reps, shuffle=True)
            got = [list(t), list(t), [t[i] for i in range(len(t))], len(t)]
        except Exception as e:
            got = ('refused', type(e).__name__)
        try:
            np.random.seed(sd)
            parts = [list(top(mk()).shuffle()) for _ in range(reps)]
            ref = [x for p in parts for x in p]
            want = [ref, ref, ref, len(ref)]
        except Exception as e:
            want = ('refused', type(e).__name__)
        if n == 0:
            ok = got == want or (got[0] == 'refused' and want[0] == 'refused') or got == [[], [], [], 0]
        else:
            ok = got == want and got[0] != 'refused'
        if not ok:
            fails.append(dict(kind='history', summary=f'tile({reps}, shuffle=True) over {n} examples ({"dict" if keyed else "list"} source, {stack}) under numpy seed {sd}: '
                              f'got {got!r}; the concatenation of {reps} independent shuffles is {want!r}'[:700], config=dict(n=n, reps=reps, seed=sd, keyed=keyed, stack=stack)))
    return fails


def run(tier):
    r = common.rng_for('C01-long')
    extra = long_sources(r, 60 if tier == 'quick' else 1500)
    res = model_a.run_a('C01', tier, WANT | {'index'}, n_quick=1500, n_thorough=40000, extra_nodes=extra)
    res['coverage']['long_source_programs'] = len(extra)
    ld = common.import_impl()
    res['failures'] += tile_shuffle_family(ld, common.rng_for('C01-tile'), 120 if tier == 'quick' else 3000)
    res['failures'] += index_container_history(ld, common.rng_for('C01-idx'), 150 if tier == 'quick' else 2500)
    res['coverage']['index_container_histories'] = 150 if tier == 'quick' else 2500
    return res


def replay(payload):
    if 'program' not in payload:
        # the direct families (tile with shuffle, index containers): re-run the whole family against VERIF_REPO
        ld = common.import_impl()
        ff = tile_shuffle_family(ld, common.rng_for('C01-tile'), 120) + index_container_history(ld, common.rng_for('C01-idx'), 150)
        for f in ff[:3]:
            print('  ', f['summary'][:300])
        return bool(ff)
    return model_a.replay_a(payload)
