"""C01 - iterating a pipeline equals the eager reference semantics, repeatably (Model A)."""
from .. import model_a

PROP_FILE = 'props/C01.v'
WANT = {'iter'}


def run(tier):
    return model_a.run_a('C01', tier, WANT, n_quick=1500, n_thorough=40000)


def replay(payload):
    return model_a.replay_a(payload)
