"""C20 - the profiling wrapper is transparent and counts truthfully (Model B's Fetch / Fail events)."""
import itertools, warnings, copy
from .. import common, model_b, gen_a

PROP_FILE = 'props/C20.v'
TRUSTED = ['counter updates from several prefetch threads are read-modify-write; the tie observes them under the OS schedule only']


def snapshot(ds):
    """identity-level snapshot of a pipeline object graph: (class, id, vars by identity)"""
    out = []
    seen = set()

    def go(d):
        if id(d) in seen:
            return
        seen.add(id(d))
        def cell(x):
            if isinstance(x, (int, str, bool, type(None), tuple)):
                return x
            if type(x).__module__ == 'numpy' and hasattr(x, 'tolist'):
                return (id(x), repr(x.tolist()))       # arrays by identity AND content (hidden state such as a permutation buffer)
            if isinstance(x, list) and len(x) < 50 and all(isinstance(y, (int, str, bool, type(None))) for y in x):
                return (id(x), repr(x))
            return id(x)
        v = {k: cell(x) for k, x in vars(d).items() if not k.startswith('_keys')}
        out.append((type(d).__name__, id(d), tuple(sorted((k, repr(x)) for k, x in v.items()))))
        for k in ('input_dataset',):
            if hasattr(d, k):
                go(getattr(d, k))
        for x in getattr(d, 'input_datasets', []) or []:
            go(x)
    go(ds)
    return out


def transparency(ld, r, count):
    """wrapping generated Model-A pipelines must change nothing: examples, order, errors, length, indexing,
    items(); the wrapped object graph must stay untouched"""
    fails = []
    g = gen_a.Gen(r, ld, err_rate=0.25, malformed=0.0)
    n = 0
    with warnings.catch_warnings():
        warnings.simplefilter('ignore')
        while n < count:
            node, obj = g.grow(r.choice([1, 2, 3, 4, 5]))
            if obj is None or 'cycle' in set(node.ops()):
                continue
            n += 1
            # every plain observation first (a stage may memoise things such as its keys while it is used) ...
            plain = gen_a.obs_iter(obj, False)
            a = gen_a.obs_call(lambda: len(obj))
            plain_idx = []
            if a[0] == 'ok' and a[1] <= 12:
                plain_idx = [(i, gen_a.obs_call(lambda: obj[i])) for i in range(-a[1] - 1, a[1] + 1)]
            pk = gen_a.obs_iter(obj.items(), False)
            # ... then the wrapper: whatever it does must leave the wrapped object graph as it is now
            snap = snapshot(obj)
            try:
                prof = ld.core.ProfilingDataset(obj)
            except Exception as e:
                fails.append(f'ProfilingDataset({gen_a.coq_prog(node)[:200]}) raised {type(e).__name__}')
                continue
            wrapped = gen_a.obs_iter(prof, False)
            if repr(plain) != repr(wrapped) and not (plain[1] is not None and wrapped[1] is not None and plain[1][1] == 0 and wrapped[1][1] == 0
                                                     and repr(plain[0]) == repr(wrapped[0])):
                fails.append(f'profiling changes the iteration of {gen_a.coq_prog(node)[:300]}: {plain!r} vs wrapped {wrapped!r}')
                continue
            # the capability flags decide what stages stacked on the wrapper accept (selections, eager caches, frozen reshuffles): they
            # are those of the wrapped pipeline
            for flag in ('indexable', 'ordered'):
                fa, fb = gen_a.obs_call(lambda: bool(getattr(obj, flag))), gen_a.obs_call(lambda: bool(getattr(prof, flag)))
                if (fa[0], fa[1] if fa[0] == 'ok' else None) != (fb[0], fb[1] if fb[0] == 'ok' else None):
                    fails.append(f'profiling changes the {flag} flag of {gen_a.coq_prog(node)[:300]}: {fa} vs wrapped {fb}')
            ea, eb = gen_a.obs_call(lambda: [repr(x) for x in obj.cache(lazy=False)]), gen_a.obs_call(lambda: [repr(x) for x in ld.core.ProfilingDataset(obj).cache(lazy=False)])
            if (ea[0] == 'ok') != (eb[0] == 'ok') or (ea[0] == 'ok' and ea[1] != eb[1]):
                fails.append(f'profiling changes what an eager cache on top of {gen_a.coq_prog(node)[:300]} delivers: {str(ea)[:200]} vs wrapped {str(eb)[:200]}')
            b = gen_a.obs_call(lambda: len(prof))
            if (a[0] == 'ok') != (b[0] == 'ok') or (a[0] == 'ok' and a[1] != b[1]):
                fails.append(f'profiling changes len of {gen_a.coq_prog(node)[:300]}: {a} vs {b}')
            for i, x in plain_idx:
                y = gen_a.obs_call(lambda: prof[i])
                if repr(x) != repr(y) and not (x[0] == 'err' and y[0] == 'err'):
                    fails.append(f'profiling changes ds[{i}] of {gen_a.coq_prog(node)[:300]}: {x} vs {y}')
                    break
            # key iteration: the wrapped items() pipeline yields what the plain one yields
            try:
                wk = gen_a.obs_iter(ld.core.ProfilingDataset(obj.items()), False)
            except Exception as e:
                wk = ('ctor', type(e).__name__)
            if repr(pk) != repr(wk) and not (pk[1] is not None and (wk[0] == 'ctor' or wk[1] is not None)):
                fails.append(f'profiling changes items() of {gen_a.coq_prog(node)[:300]}: {pk!r} vs wrapped {wk!r}')
            if snapshot(obj) != snap:
                fails.append(f'wrapping {gen_a.coq_prog(node)[:300]} in ProfilingDataset modified the wrapped pipeline object')
    return fails


def raising(ld, r, count):
    """an upstream stage that raises: the exception propagates unchanged, and the failed fetch is counted"""
    fails = []
    for _ in range(count):
        n = r.randint(1, 6)
        common.tick()
        pos = r.randrange(n)

        def boom(x, pos=pos):
            if x == pos:
                raise ValueError('boom')
            return x
        ds = ld.new(list(range(n))).map(boom).map(lambda x: x)
        prof = ld.core.ProfilingDataset(ds)
        got = []
        try:
            for x in prof:
                got.append(x)
            fails.append('exception swallowed by the profiling wrapper')
        except ValueError:
            pass
        if got != list(range(pos)):
            fails.append(f'profiling wrapper delivered {got} before the failure at {pos}')
        top = prof.hit_count
        mid = prof.input_dataset.input_dataset.hit_count
        if top != [pos + 1, 1] or mid != [pos + 1, 1]:
            fails.append(f'failed fetch not counted separately: top={top} raising stage={mid}, expected [{pos + 1}, 1]')
        # behind thread prefetch
        ds2 = ld.new(list(range(n))).map(lambda x: x + 1).prefetch(2, 2)
        p2 = ld.core.ProfilingDataset(ds2)
        if list(p2) != [x + 1 for x in range(n)] or p2.hit_count[0] != n:
            fails.append(f'profiling behind thread prefetch: {list(p2)} hits={p2.hit_count}')
    return fails


# (n, keyed, lower stages, upper stages): a frozen reshuffle above a stage that is not indexable is refused - with and without
# the profiling wrapper, also when there is nothing to iterate (F20: the wrapper's `indexable` was a method, hence truthy)
FIXED_FREEZE = [(0, False, ['localshuffle', 'map', 'reshuffle'], ['prefetchN']),
                (0, True, ['filter', 'reshuffle'], ['prefetchN']),
                (0, False, ['filter', 'reshuffle'], ['catch']),
                (0, False, ['lazyapply', 'reshuffle'], ['prefetchN_catch']),
                (3, False, ['localshuffle', 'reshuffle'], ['prefetchN']),
                (1, True, ['filter', 'reshuffle'], ['lazyapply_top']),
                # F22: fetches through the frozen copy of a reshuffle are counted at the stage below it
                (4, True, ['map', 'reshuffle'], ['catch']), (5, False, ['map', 'map', 'reshuffle'], ['lazyapply_top']), (3, False, ['map', 'reshuffle'], ['catch', 'map'])]


def freeze_family(ld, r, count):
    """pipelines whose consumers ask their input for a frozen copy (catch, multi-worker prefetch, lazy apply) over
    stages that react to freezing (reshuffle per epoch, lazy apply) - plain vs. profiled, identically seeded"""
    import numpy as np
    fails = []
    with warnings.catch_warnings():
        warnings.simplefilter('ignore')
        for _ in range(count):
            n = r.randint(0, 7)
            common.tick()
            seed = r.randint(0, 10 ** 6)
            keyed = r.random() < 0.5
            lower = [r.choice(['map', 'reshuffle', 'reshuffle', 'lazyapply', 'localshuffle', 'filter', 'slice', 'shuffle1']) for _ in range(r.randint(1, 3))]
            upper = [r.choice(['catch', 'prefetchN', 'prefetchN_catch', 'lazyapply_top', 'catch_items', 'map'])for _ in range(r.randint(1, 2))]
            if _ < len(FIXED_FREEZE):
                n, keyed, lower, upper = FIXED_FREEZE[_]        # the repaired finding F20 and its neighbours replay first

            counters = []

            def build():
                del counters[:]
                rng = np.random.RandomState(seed)
                ds = ld.new({f'k{i}': i for i in range(n)} if keyed else list(range(n)))
                for st in lower + upper:
                    if st == 'map':
                        cf = _CountInc()
                        counters.append(cf)
                        ds = ds.map(cf)
                    elif st == 'reshuffle': ds = ds.shuffle(True, rng=rng)
                    elif st == 'shuffle1': ds = ds.shuffle(False, rng=rng)
                    elif st == 'localshuffle': ds = ds.shuffle(True, rng=rng, buffer_size=3)
                    elif st == 'lazyapply': ds = ds.apply(_ap_map, lazy=True)
                    elif st == 'lazyapply_top': ds = ds.apply(_ap_id, lazy=True)
                    elif st == 'filter': ds = ds.filter(_odd)
                    elif st == 'slice': ds = ds[:max(0, n - 1)] if ds.indexable else ds
                    elif st == 'catch': ds = ds.catch()
                    elif st == 'catch_items': ds = ds.catch()
                    elif st == 'prefetchN': ds = ds.prefetch(2, 2)
                    elif st == 'prefetchN_catch': ds = ds.prefetch(2, 3, catch_filter_exception=True)
                return ds
            try:
                plain_ds = build()
            except Exception:
                continue
            # in half of the cases an iterator is made and dropped without being advanced first - with and without the wrapper that
            # starts no epoch (no function of a lazy apply runs, no order is drawn)
            pre_iter = r.random() < 0.5
            if pre_iter:
                try:
                    iter(plain_ds)
                except Exception:
                    pass
            plain = gen_a.obs_iter(plain_ds, False)
            try:
                target = build()
                snap = snapshot(target)
                prof = ld.core.ProfilingDataset(target)
                if pre_iter:
                    try:
                        iter(prof)
                    except Exception:
                        pass
                wrapped = gen_a.obs_iter(prof, False)
                gen_a.obs_iter(prof, False)              # a second profiled epoch
                if snapshot(target) != snap:
                    fails.append(f'profiling new(range({n}){" keyed" if keyed else ""}).{".".join(lower + upper)} (seed {seed}) modified the wrapped pipeline object (hidden state of a stage changed)')
                # truthful counts also behind frozen copies: the wrapper around every mapped stage reports as many hits as its
                # function was applied (single-threaded consumers only: the counters are plain integers)
                if wrapped[0] != 'ctor' and not any(u.startswith('prefetchN') for u in upper):
                    for w in _walk_wrappers(prof):
                        mf = getattr(w.input_dataset, 'map_function', None)
                        if isinstance(mf, _CountInc) and w.hit_count[0] - w.hit_count[1] != mf.calls:      # a fetch that fails below the stage does not reach its function
                            fails.append(f'profiling new(range({n}){" keyed" if keyed else ""}).{".".join(lower + upper)} (seed {seed}), two epochs: the wrapper of a mapped stage reports '
                                         f'{w.hit_count[0]} hits ({w.hit_count[1]} of them failed), its function was applied {mf.calls} times')
                            break
            except Exception as e:
                wrapped = ('ctor', type(e).__name__)
            same = repr(plain) == repr(wrapped) or (plain[1] is not None and wrapped[0] != 'ctor' and wrapped[1] is not None
                                                    and plain[1][1] == 0 and wrapped[1][1] == 0 and repr(plain[0]) == repr(wrapped[0]))     # both refuse with a library error
            # selections by an index list (empty, and the first position): refused on a pipeline that is not indexable - with the wrapper too
            def sel(make):
                out = []
                for idx in ([], [0]):
                    try:
                        d = make()
                        out.append(('ok', [repr(x) for x in d[idx]]))
                    except Exception as e:
                        out.append(('err', 'IndexError' if isinstance(e, IndexError) else 'some error'))
                return out
            try:
                sp, sw = sel(build), sel(lambda: ld.core.ProfilingDataset(build()))
                if sp != sw:
                    fails.append(f'profiling changes what a selection ds[[]] / ds[[0]] of new(range({n}){" keyed" if keyed else ""}).{".".join(lower + upper)} delivers: {sp} vs wrapped {sw}')
            except Exception as e:
                fails.append(f'selection probe raised {type(e).__name__}: {e}'[:300])
            if not same:
                fails.append(f'profiling changes the iteration of new(range({n}){" keyed" if keyed else ""}).{".".join(lower + upper)} (seed {seed}): {plain!r} vs wrapped {wrapped!r}')
    return fails


def _mark(ex):
    ex['tags'].append('seen')          # a map function may modify the example it is given: every fetch hands out a fresh one
    return ex


def mutating_family(ld, r, count):
    """sources of every immutability mode under a map function that modifies its argument in place: epoch after epoch and
    index fetch after index fetch the profiled pipeline delivers what the plain pipeline delivers"""
    fails = []
    with warnings.catch_warnings():
        warnings.simplefilter('ignore')
        for _ in range(count):
            n = r.randint(1, 5)
            mode = r.choice(['pickle', 'wu', 'wu', 'dictpickle'])

            def build():
                exs = [{'i': i, 'tags': []} for i in range(n)]
                if mode == 'dictpickle':
                    d = ld.new({f'k{i}': e for i, e in enumerate(exs)})
                elif mode == 'wu':
                    d = ld.core.from_list(exs, 'wu')
                else:
                    d = ld.new(exs, immutable_warranty=mode)
                d = d.map(_mark)
                if r0 < 0.3: d = d.prefetch(1, 2)
                elif r0 < 0.5: d = d[::-1]
                return d
            r0 = r.random()
            plain, target = build(), build()
            prof = ld.core.ProfilingDataset(target)
            for epoch in range(3):
                a = [repr(x) for x in plain]
                b = [repr(x) for x in prof]
                if a != b:
                    fails.append(f'profiling changes the examples of a {mode} source under an in-place modifying map function in epoch {epoch + 1}: {b} vs plain {a}')
                    break
            else:
                if plain.indexable:
                    for _k in range(2):
                        i = r.randrange(n)
                        a, b = repr(plain[i]), repr(prof[i])
                        if a != b:
                            fails.append(f'profiling changes ds[{i}] of a {mode} source under an in-place modifying map function on a repeated fetch: {b} vs plain {a}')
                            break
    return fails


class _CountInc:
    """x + 1, counting its applications (per object; copies of the pipeline share the object)"""
    def __init__(self): self.calls = 0
    def __call__(self, x):
        self.calls += 1
        return x + 1


def _walk_wrappers(d, seen=None):
    seen = set() if seen is None else seen
    if id(d) in seen:
        return
    seen.add(id(d))
    if type(d).__name__ == 'ProfilingDataset':
        yield d
    if hasattr(d, 'input_dataset'):
        yield from _walk_wrappers(d.input_dataset, seen)
    for x in getattr(d, 'input_datasets', []) or []:
        yield from _walk_wrappers(x, seen)


def _inc(x): return x + 1
def _odd(x): return x % 2 == 1
def _ap_map(d): return d.map(_inc)
def _ap_id(d): return d


def cycle_family(ld, r, count):
    """endless pipelines (cycle): position access far beyond one round, partial iteration and partial key iteration deliver the
    same under the profiling wrapper (F21: the wrapper had no `ordered` flag, so ProfilingDataset(ds.cycle())[i] raised)"""
    import itertools
    fails = []
    g = gen_a.Gen(r, ld, err_rate=0.1, malformed=0.0)
    n = 0
    with warnings.catch_warnings():
        warnings.simplefilter('ignore')
        while n < count:
            node, obj = g.grow(r.choice([1, 2, 3]))
            if obj is None or 'cycle' in set(node.ops()):
                continue
            # cycling a pipeline that yields nothing spins forever (with or without the wrapper): only pipelines with a first example
            first = gen_a.obs_call(lambda: next(iter(obj), _NOTHING))
            if first[0] == 'ok' and first[1] is _NOTHING:
                continue
            n += 1
            above = r.choice(['plain', 'map', 'batch'])

            def build(o):
                c = o.cycle()
                return c if above == 'plain' else c.map(_ident20) if above == 'map' else c.batch(2)
            try:
                plain = build(obj)
            except Exception:
                continue
            k = r.randint(0, 9)

            def observe(d):
                out = []
                out.append(gen_a.obs_call(lambda: [repr(x) for x in itertools.islice(iter(d), k)]))
                for i in (0, 1, k, 2 * k + 1, 17):
                    out.append(gen_a.obs_call(lambda: repr(d[i])))
                out.append(gen_a.obs_call(lambda: [repr(x) for x in itertools.islice(iter(d.items()), k)]))
                return [(o[0], o[1]) if o[0] == 'ok' else ('err', 'IndexError' if o[1][0] == 'EIndex' else ('user', o[1]) if o[1][1] else 'some error') for o in out]
            a = observe(plain)
            try:
                b = observe(ld.core.ProfilingDataset(build(obj)))
            except Exception as e:
                b = ('ctor', type(e).__name__)
            if a != b:
                fails.append(f'profiling changes an endless pipeline: {gen_a.coq_prog(node)[:250]}.cycle() ({above}), first {k} examples / positions 0, 1, {k}, {2 * k + 1}, 17 / first {k} items: {a} vs wrapped {b}')
    return fails


_NOTHING = object()


def _ident20(x):
    return x


def run(tier):
    ld = common.import_impl()
    big = tier != 'quick'
    res = model_b.run_b('C20', tier, want_prof=True)
    r = common.rng_for('C20-direct')
    for msg in transparency(ld, r, 1500 if big else 250) + raising(ld, r, 200 if big else 30) + freeze_family(ld, r, 1500 if big else 200) + mutating_family(ld, r, 600 if big else 80) + cycle_family(ld, r, 800 if big else 120):
        res['failures'].append(dict(kind='program', summary=msg[:900], config={}))
    res['coverage']['transparency_programs'] = 1500 if big else 250
    res['coverage']['raising_cases'] = 200 if big else 30
    res['coverage']['freeze_family_pipelines'] = 1500 if big else 200
    res['coverage']['cycle_family_pipelines'] = 800 if big else 120
    res['coverage']['evaluations'] += (1500 if big else 250) + (200 if big else 30)
    return res


def replay(payload):
    return True
