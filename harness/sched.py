"""Controlled scheduling of the REAL lazy_dataset.parallel_utils code (no edit of /repo needed).

Exactly one managed thread runs at a time.  A running thread stops at a *yield point* just before
each access to state shared between threads and the scheduler (driven by a schedule = list of
thread names, entries naming a thread that is not enabled are skipped) picks who goes next.

Yield points
  * the queue / thread / executor / future operations: via shim objects substituted in the
    namespace of lazy_dataset.parallel_utils (`queue`, `threading`, `concurrent`)
  * reads / writes of the closure cells `shutdown` and `exc_info` of single_thread_prefetch: via
    sys.settrace with per-opcode events on the frames of that function and its nested worker
  * advancing the source (wrapper iterator) and the consumer's decision after each delivery
    (driver script)
"""
import sys, threading, dis, time, collections, types, random


class Deadlock(BaseException):
    pass


class SchedTimeout(Exception):
    pass


class Sched:
    def __init__(self, schedule, rng, wall=20.0, fallback='random'):
        self.cv = threading.Condition()
        self.waiting = {}            # name -> (label, enabled fn)
        self.done = set()
        self.current = 'C'
        self.schedule = list(schedule)
        self.pos = 0
        self.rng = rng
        self.choices = []            # the thread actually chosen at every step (the effective schedule)
        self.enabled_log = []        # the enabled set at every step (for systematic exploration)
        self.fallback = fallback     # policy once the schedule is used up: 'random' | 'first'
        self.log = []                # (thread, event, payload)
        self.deadlock = False
        self.deadline = time.time() + wall
        self.tls = threading.local()
        self.os_threads = []
        self.steps = 0

    # ---- identity
    def me(self):
        return getattr(self.tls, 'name', 'C')

    def emit(self, ev, payload=None):
        self.log.append((self.me(), ev, payload))

    # ---- core
    def _enabled(self):
        out = []
        for n, (lab, en) in self.waiting.items():
            try:
                ok = en()
            except Exception:
                ok = False
            if ok:
                out.append(n)
        return sorted(out)

    def _pick(self):
        """called with cv held by a thread that is about to wait or exit"""
        en = self._enabled()
        if not en:
            self.current = None
            if self.waiting:
                self.deadlock = True
            self.cv.notify_all()
            return
        choice = None
        while self.pos < len(self.schedule):
            c = self.schedule[self.pos]
            self.pos += 1
            if c in en:
                choice = c
                break
        if choice is None:
            choice = self.rng.choice(en) if self.fallback == 'random' else en[0]
        self.current = choice
        self.choices.append(choice)
        self.enabled_log.append(en)
        self.steps += 1
        self.cv.notify_all()

    def yield_point(self, label, enabled=lambda: True):
        name = self.me()
        with self.cv:
            if self.deadlock:
                raise Deadlock()
            self.waiting[name] = (label, enabled)
            self._pick()
            while self.current != name:
                if self.deadlock:
                    self.waiting.pop(name, None)
                    raise Deadlock()
                left = self.deadline - time.time()
                if left <= 0:
                    self.deadlock = True
                    self.cv.notify_all()
                    raise SchedTimeout(f'{name} stuck at {label}')
                self.cv.wait(min(left, 1.0))
            self.waiting.pop(name, None)

    def thread_exit(self):
        name = self.me()
        with self.cv:
            self.done.add(name)
            self.log.append((name, 'exit', None))
            if self.current == name:
                self._pick()

    def spawn(self, name, target):
        """start a managed OS thread; returns once it is parked at its first yield point"""
        ready = threading.Event()

        def body():
            self.tls.name = name
            sys.settrace(self.tracer)
            try:
                with self.cv:
                    self.waiting[name] = ('begin', lambda: True)
                    ready.set()
                    while self.current != name:
                        if self.deadlock:
                            self.waiting.pop(name, None)
                            return
                        left = self.deadline - time.time()
                        if left <= 0:
                            self.deadlock = True
                            self.cv.notify_all()
                            return
                        self.cv.wait(min(left, 1.0))
                    self.waiting.pop(name, None)
                try:
                    target()
                except Deadlock:
                    pass
                except BaseException as e:  # uncaught in a thread: Python prints it and the thread dies
                    self.log.append((name, 'died', type(e).__name__))
            finally:
                sys.settrace(None)
                self.thread_exit()
        t = threading.Thread(target=body, daemon=True)
        self.os_threads.append(t)
        t.start()
        ready.wait(5)
        return t

    # ---- opcode tracing of the closure-cell accesses
    TARGETS = {}       # code object -> {offset: (opname, argval)}
    CELLS = ('shutdown', 'exc_info')

    @classmethod
    def add_target(cls, code):
        cls.TARGETS[code] = {i.offset: (i.opname, i.argval) for i in dis.get_instructions(code)}
        for c in code.co_consts:
            if isinstance(c, types.CodeType):
                cls.add_target(c)

    def tracer(self, frame, event, arg):
        if frame.f_code in self.TARGETS:
            frame.f_trace_opcodes = True
            return self.local_tracer
        return None

    def local_tracer(self, frame, event, arg):
        if event == 'opcode':
            ins = self.TARGETS[frame.f_code].get(frame.f_lasti)
            if ins and ins[0] in ('LOAD_DEREF', 'STORE_DEREF') and ins[1] in self.CELLS:
                if getattr(self.tls, 'armed', True) and self.started:
                    kind = 'rd' if ins[0] == 'LOAD_DEREF' else 'wr'
                    try:
                        self.yield_point((kind, ins[1]))
                    except (Deadlock, SchedTimeout):
                        # never raise out of a trace function (CPython 3.12 can crash when an exception leaves an opcode trace
                        # hook while the frame is handling another exception): once a deadlock is flagged the thread runs on
                        # unscheduled until its next queue / thread operation, which raises in ordinary code
                        return self.local_tracer
                    val = frame.f_locals.get(ins[1]) if kind == 'rd' else None
                    self.emit(kind + '_' + ins[1], (bool(val) if ins[1] == 'shutdown' else (val is not None)) if kind == 'rd' else None)
        return self.local_tracer

    started = False      # becomes True at the first thread start / submit: earlier accesses are not shared


# ------------------------------------------------------------------ shims
class ShimEmpty(Exception):
    pass


class ShimFull(Exception):
    pass


class ShimQueue:
    """queue.Queue(maxsize) whose blocking operations are scheduler-aware"""
    def __init__(self, sched, maxsize=0, shared=True):
        self.s, self.maxsize, self.items, self.shared = sched, maxsize, collections.deque(), shared

    def put_nowait(self, item):
        return self.put(item, block=False)

    def put(self, item, block=True, timeout=None):
        if not block:
            if self.shared:
                self.s.yield_point('put_nowait')
            if 0 < self.maxsize <= len(self.items):
                raise ShimFull()
            if self.shared:
                self.s.emit('put', item)
            self.items.append(item)
            return
        if self.shared:
            self.s.yield_point('put', lambda: self.maxsize <= 0 or len(self.items) < self.maxsize)
            self.s.emit('put', item)
        self.items.append(item)

    def get(self, block=True, timeout=None):
        if not block:
            return self.get_nowait()
        if timeout is not None and self.shared:
            # a bounded wait: the thread stays runnable; if it is scheduled while the queue is empty its timeout has expired
            # (how long a timeout is in real time is not modelled: every point at which it may fire is explored)
            # fairness: after its timeout fired the thread is scheduled again only once another thread has taken a step (real time
            # passes for everybody) - or twice more if nobody else moves, after which a poll loop over an empty queue counts as stuck
            name = self.s.me()
            marks = self.__dict__.setdefault('_tmo', {})
            mark, idle = marks.get(name, (None, 0))

            def en():
                if self.items or mark is None:
                    return True
                if any(c != name for c in self.s.choices[mark:]):
                    return True
                return idle < 2
            self.s.yield_point('get_timeout', en)
            if not self.items:
                moved = mark is not None and any(c != name for c in self.s.choices[mark:])
                marks[name] = (len(self.s.choices), 0 if (moved or mark is None) else idle + 1)
                self.s.emit('get_timeout')
                raise ShimEmpty()
            marks.pop(name, None)
            item = self.items.popleft()
            self.s.emit('get', item)
            return item
        if self.shared:
            self.s.yield_point('get', lambda: len(self.items) > 0)
        item = self.items.popleft()
        if self.shared:
            self.s.emit('get', item)
        return item

    def get_nowait(self):
        if self.shared:
            self.s.yield_point('get_nowait')
        if not self.items:
            if self.shared:
                self.s.emit('drain_empty')
            raise ShimEmpty()
        item = self.items.popleft()
        if self.shared:
            self.s.emit('drain', item)
        return item

    def qsize(self): return len(self.items)
    def empty(self): return not self.items
    def full(self): return 0 < self.maxsize <= len(self.items)


class ShimThread:
    def __init__(self, sched, target, args=()):
        self.s, self.target, self.args = sched, target, args
        self.name = 'W'

    def start(self):
        self.s.yield_point('start')
        Sched.started = True
        self.s.started = True
        self.s.emit('start')
        self.s.spawn(self.name, lambda: self.target(*self.args))

    def join(self, timeout=None):
        if timeout is not None:
            # a bounded join: whenever it is scheduled while the thread is still running, its timeout has expired and it gives up
            self.s.yield_point('join_timeout')
            if self.name not in self.s.done:
                self.s.emit('join_timeout')
                return
            self.s.emit('join')
            return
        self.s.yield_point('join', lambda: self.name in self.s.done)
        self.s.emit('join')

    def is_alive(self):
        return self.name not in self.s.done


class ShimFuture:
    def __init__(self, ex, tid, fn, args, kwargs):
        self.ex, self.tid, self.fn, self.args, self.kwargs = ex, tid, fn, args, kwargs
        self.state = 'pending'   # pending running done cancelled
        self.value = self.exc = None

    def result(self, timeout=None):
        s = self.ex.s
        s.yield_point(('result', self.tid), lambda: self.state in ('done', 'cancelled'))
        s.emit('result', self.tid)
        if self.state == 'cancelled':
            import concurrent.futures
            raise concurrent.futures.CancelledError()
        if self.exc is not None:
            raise self.exc
        return self.value

    def cancel(self):
        if self.state == 'pending':
            self.state = 'cancelled'
            self.ex.s.emit('cancelled', self.tid)
            return True
        return self.state == 'cancelled'

    def done(self): return self.state in ('done', 'cancelled')
    def cancelled(self): return self.state == 'cancelled'


class ShimExecutor:
    """concurrent.futures.ThreadPoolExecutor(max_workers): FIFO work queue, W managed worker threads;
    `__exit__` = shutdown(wait=True): returns once every pending task ran or was cancelled and the
    workers are idle."""
    def __init__(self, sched, max_workers):
        self.s, self.W = sched, max_workers
        self.futs = []
        self.shutdown_flag = False
        self.workers = []
        self.busy = {}

    def __enter__(self): return self

    def _next_pending(self):
        for f in self.futs:
            if f.state == 'pending':
                return f
        return None

    def _spawn_workers(self):
        if self.workers:
            return
        Sched.started = True
        self.s.started = True
        for i in range(self.W):
            name = f'X{i}'
            self.workers.append(name)
            self.busy[name] = None
            self.s.spawn(name, lambda name=name: self._work(name))

    def _work(self, name):
        s = self.s
        while True:
            s.yield_point('take', lambda: self._next_pending() is not None or self.shutdown_flag)
            f = self._next_pending()
            if f is None:
                return                 # shutdown and nothing left
            f.state = 'running'
            self.busy[name] = f.tid
            s.emit('task_start', f.tid)
            try:
                f.value = f.fn(*f.args, **f.kwargs)
            except BaseException as e:  # noqa: futures capture BaseException too
                if isinstance(e, Deadlock):
                    raise
                f.exc = e
            s.yield_point(('finish', f.tid))
            f.state = 'done'
            self.busy[name] = None
            s.emit('task_finish', f.tid)

    def submit(self, fn, *args, **kwargs):
        self.s.yield_point('submit')
        f = ShimFuture(self, len(self.futs), fn, args, kwargs)
        self.futs.append(f)
        self.s.emit('submit', f.tid)
        self._spawn_workers()
        return f

    def __exit__(self, *a):
        self.s.yield_point('exit', lambda: all(f.state in ('done', 'cancelled') for f in self.futs))
        self.shutdown_flag = True
        self.s.emit('ex_exit')
        return False


class Namespace:
    pass


def install(pu, sched):
    """substitute the shims in the namespace of lazy_dataset.parallel_utils; returns an undo()"""
    import queue as rq, threading as rt, concurrent.futures as rcf
    old = (pu.queue, pu.threading, pu.concurrent)
    q = Namespace(); q.Queue = lambda maxsize=0: ShimQueue(sched, maxsize, shared=maxsize > 0); q.Empty = ShimEmpty; q.Full = ShimFull
    t = Namespace(); t.Thread = lambda target, args=(): ShimThread(sched, target, args)
    c = Namespace(); c.futures = Namespace()
    c.futures.ThreadPoolExecutor = lambda max_workers: ShimExecutor(sched, max_workers)
    c.futures.ProcessPoolExecutor = rcf.ProcessPoolExecutor
    c.futures.Future, c.futures.Executor = rcf.Future, rcf.Executor
    pu.queue, pu.threading, pu.concurrent = q, t, c
    Sched.TARGETS.clear()
    Sched.add_target(pu.single_thread_prefetch.__code__)
    Sched.started = False
    sched.started = False

    def undo():
        pu.queue, pu.threading, pu.concurrent = old
    return undo
