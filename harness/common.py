"""Shared machinery of the /verif checks: environment, Coq build + gates, running generated
case files inside Coq, evidence / replay / known-findings handling.

Everything random derives from VERIF_SEED.  The implementation under test is imported from
VERIF_REPO (default /repo) and the import location is asserted."""
import os, sys, json, time, re, subprocess, hashlib, fcntl, random, shutil, glob, threading

VERIF = os.path.dirname(os.path.dirname(os.path.abspath(__file__)))
COQ = os.path.join(VERIF, 'coq')
REPO = os.environ.get('VERIF_REPO', '/repo')
SEED = int(os.environ.get('VERIF_SEED', '0') or 0)
BUILD = os.environ.get('VERIF_BUILD') or os.path.join(VERIF, '_build')          # scratch for generated case files (ignored by git)
COQ_FLAGS = ['-Q', os.path.join(COQ, 'theories'), 'LD', '-Q', os.path.join(COQ, 'props'), 'LD.P',
             '-w', '-notation-overridden,-deprecated-hint-without-locality,-deprecated']
NPROC = min(16, os.cpu_count() or 4)

os.environ.setdefault('OMP_NUM_THREADS', '1')
os.environ.setdefault('MKL_NUM_THREADS', '1')
os.environ['LAZY_DATASET_VERIF'] = '1'


class HarnessError(Exception):
    """The machinery itself failed (distinct from a VIOLATION)."""


class ImplMisbehaviour(HarnessError):
    """the implementation did something the driver cannot process at all (an observation that never ends, a child process that
    dies with an exception ...): reported as a broken correspondence with the offending input, not as a tool failure"""
    pass


class CaseFileError(HarnessError):
    """a generated case file does not type-check: the implementation produced an observation outside the universe of the model
    (on the unchanged tree every case file is well-typed), so this is reported as a broken correspondence, not as a tool failure"""
    pass


import signal, contextlib


@contextlib.contextmanager
def watchdog(seconds, what):
    """abort a stuck harness step (main thread only) with a HarnessError"""
    if threading.current_thread() is not threading.main_thread():
        yield
        return

    def onalarm(sig, frm):
        raise ImplMisbehaviour(f'watchdog: {what() if callable(what) else what} exceeded {seconds}s')
    old = signal.signal(signal.SIGALRM, onalarm)
    prev = signal.alarm(seconds)
    try:
        yield
    finally:
        signal.alarm(0)
        signal.signal(signal.SIGALRM, old)
        if prev:
            signal.alarm(prev)


def import_impl():
    """Import lazy_dataset from VERIF_REPO and make sure that is really where it came from."""
    repo = os.path.abspath(REPO)
    if sys.path[0] != repo:
        sys.path.insert(0, repo)
    import lazy_dataset
    import lazy_dataset.core, lazy_dataset.parallel_utils  # noqa
    f = os.path.abspath(lazy_dataset.__file__)
    if not f.startswith(repo + os.sep):
        raise HarnessError(f'lazy_dataset imported from {f}, expected under {repo}')
    return lazy_dataset


# ----------------------------------------------------------------------------- Coq side
def _run(cmd, timeout, cwd=None):
    try:
        p = subprocess.run(cmd, cwd=cwd, stdout=subprocess.PIPE, stderr=subprocess.STDOUT,
                           timeout=timeout, text=True)
        return p.returncode, p.stdout
    except subprocess.TimeoutExpired as e:
        return 124, (e.stdout or '') + '\nTIMEOUT'


GATE_RE = re.compile(r'\b(Admitted|admit|Axiom|Axioms|Parameter|Parameters|Conjecture|Conjectures|Hypothesis|Variable|Variables|Hypotheses)\b'
                     r'|Unset\s+Guard|bypass_check|Admit\s+Obligations|-type-in-type|-impredicative-set|Unset\s+Universe\s+Checking|Unset\s+Positivity')


def strip_coq_comments(s):
    out, depth, i = [], 0, 0
    while i < len(s):
        if s.startswith('(*', i):
            depth += 1; i += 2
        elif s.startswith('*)', i) and depth:
            depth -= 1; i += 2
        else:
            if depth == 0:
                out.append(s[i])
            i += 1
    return ''.join(out)


def project_files():
    """the .v files of the development = those listed in _CoqProject"""
    out = []
    for line in open(os.path.join(COQ, '_CoqProject')):
        line = line.strip()
        if line.endswith('.v') and not line.startswith('-'):
            out.append(os.path.join(COQ, line))
    return out


def grep_gate():
    """No Admitted/admit/Axiom/Parameter/... anywhere in the development.  Variable/Hypothesis are
    only allowed inside a Section (we simply forbid them outside `Section ... End`)."""
    bad = []
    for f in project_files():
        src = strip_coq_comments(open(f).read())
        depth = 0
        for ln, line in enumerate(src.split('\n'), 1):
            if re.match(r'\s*Section\b', line):
                depth += 1
            if re.match(r'\s*End\b', line) and depth:
                depth -= 1
            for m in GATE_RE.finditer(line):
                w = m.group(0)
                if w in ('Variable', 'Variables', 'Hypothesis', 'Hypotheses') and depth > 0:
                    continue
                bad.append(f'{os.path.relpath(f, VERIF)}:{ln}: {w}')
    return bad


def coq_build():
    """Full .vo build (incremental) of /verif/coq under a lock.  Returns (ok, log)."""
    os.makedirs(BUILD, exist_ok=True)
    with open(os.path.join(BUILD, '.lock'), 'w') as lk:
        fcntl.flock(lk, fcntl.LOCK_EX)
        if not os.path.exists(os.path.join(COQ, 'Makefile')) or \
                os.path.getmtime(os.path.join(COQ, 'Makefile')) < os.path.getmtime(os.path.join(COQ, '_CoqProject')):
            rc, out = _run(['coq_makefile', '-f', '_CoqProject', '-o', 'Makefile'], 60, cwd=COQ)
            if rc:
                return False, out
        rc, out = _run(['make', f'-j{NPROC}', '-k'], 1500, cwd=COQ)
        return rc == 0, out


def prop_cone(prop_file):
    """.v files the property file depends on (transitively), via coqdep."""
    rc, out = _run(['coqdep', '-Q', 'theories', 'LD', '-Q', 'props', 'LD.P'] +
                   project_files(), 60, cwd=COQ)
    deps = {}
    for line in out.split('\n'):
        if ':' not in line:
            continue
        lhs, rhs = line.split(':', 1)
        tgt = [t for t in lhs.split() if t.endswith('.vo')]
        if not tgt:
            continue
        src = [os.path.abspath(os.path.join(COQ, t[:-1])) for t in rhs.split() if t.endswith('.vo')]
        deps[os.path.abspath(os.path.join(COQ, tgt[0][:-1]))] = src
    root = os.path.abspath(os.path.join(COQ, prop_file))
    seen, todo = set(), [root]
    while todo:
        f = todo.pop()
        if f in seen:
            continue
        seen.add(f)
        todo += deps.get(f, [])
    return sorted(seen)


def count_obligations(files):
    """Statements closed by Qed/Defined in the given files: (obligations, discharged)."""
    n_stmt = n_qed = 0
    for f in files:
        src = strip_coq_comments(open(f).read())
        n_stmt += len(re.findall(r'^\s*(?:Local\s+|Global\s+)?(Theorem|Lemma|Corollary|Example|Fact|Remark|Proposition)\b', src, re.M))
        n_qed += len(re.findall(r'\b(Qed|Defined)\s*\.', src))
    return n_stmt, min(n_qed, n_stmt)


def proof_side(prop_file):
    """Build, gate, re-check the property file and capture Print Assumptions.
    Returns dict(ok, reason, axioms, obligations, discharged, cone, log)."""
    t0 = time.time()
    res = dict(ok=False, reason='', axioms=[], obligations=0, discharged=0, cone=[], log='')
    ok, log = coq_build()
    res['log'] = log[-4000:]
    path = os.path.join(COQ, prop_file)
    if not os.path.exists(path):
        res['reason'] = f'{prop_file} missing'
        return res
    cone = prop_cone(prop_file)
    res['cone'] = [os.path.relpath(f, COQ) for f in cone]
    missing = [f for f in cone if not os.path.exists(f + 'o')]
    if missing:
        res['reason'] = 'not compiled: ' + ', '.join(os.path.relpath(f, COQ) for f in missing)
        return res
    bad = grep_gate()
    if bad:
        res['reason'] = 'gate: ' + '; '.join(bad[:5])
        return res
    rc, out = _run(['coqc'] + COQ_FLAGS + [path], 600, cwd=COQ)
    if rc:
        res['reason'] = 'property file does not check: ' + out[-1500:]
        return res
    axioms, closed = [], 0
    for blk in re.split(r'\n(?=Closed under the global context|Axioms:)', out):
        if blk.startswith('Closed under the global context'):
            closed += 1
        elif blk.startswith('Axioms:'):
            axioms += [l.strip() for l in blk.split('\n')[1:] if l.strip() and not l.startswith(' ' * 4)]
    res['axioms'] = sorted(set(a.split(':')[0].strip() for a in axioms))
    res['print_assumptions_closed'] = closed
    res['obligations'], res['discharged'] = count_obligations(cone)
    n_thm = len(re.findall(r'^\s*Theorem\b', strip_coq_comments(open(path).read()), re.M))
    res['property_theorems'] = n_thm
    res['ok'] = True
    res['wall_s'] = round(time.time() - t0, 1)
    return res


def coqchk(prop_file):
    """independent re-check of the compiled property file and everything it depends on (thorough tier)"""
    mod = 'LD.P.' + os.path.splitext(os.path.basename(prop_file))[0]
    rc, out = _run(['coqchk', '-silent', '-o', '-Q', 'theories', 'LD', '-Q', 'props', 'LD.P', mod], 1800, cwd=COQ)
    m = re.search(r'\* Axioms:(.*?)\n\s*\n\* Constants', out, re.S)
    axioms = [l.strip() for l in (m.group(1).split('\n') if m else []) if l.strip() and l.strip() != '<none>']
    unsafe = [sec for sec in ('type-in-type', 'unsafe (co)fixpoints', 'positivity is assumed')
              if not re.search(re.escape(sec) + r':\s*<none>', out)]
    return dict(ok=(rc == 0 and m is not None and not unsafe), rc=rc, axioms=axioms, unsafe=unsafe, tail=out[-600:])


def run_case_files(vfiles, timeout=900):
    """Compile generated case files in parallel; returns {file: stdout}.  Raises HarnessError on a
    Coq error (an ill-typed case file is a harness bug, not a violation)."""
    outs = {}
    lock = threading.Lock()
    sem = threading.Semaphore(NPROC)

    def one(f):
        with sem:
            rc, out = _run(['coqc'] + COQ_FLAGS + [f], timeout, cwd=os.path.dirname(f))
        # only the printed result matters: drop the compiled output right away (disk), and the case file itself
        # when it evaluated without error and is large (it is regenerated from the seed on replay)
        base = f[:-2]
        for ext in ('.vo', '.vok', '.vos', '.glob'):
            try: os.remove(base + ext)
            except OSError: pass
        try: os.remove(os.path.join(os.path.dirname(f), '.' + os.path.basename(base) + '.aux'))
        except OSError: pass
        if rc == 0 and os.path.getsize(f) > (1 << 20):
            try: os.remove(f)
            except OSError: pass
        with lock:
            outs[f] = (rc, out)
    ths = [threading.Thread(target=one, args=(f,)) for f in vfiles]
    [t.start() for t in ths]
    [t.join() for t in ths]
    for f, (rc, out) in outs.items():
        if rc:
            raise CaseFileError(f'coqc failed on {f}:\n{out[-3000:]}')
    return {f: out for f, (rc, out) in outs.items()}


_TICKS = [0]


def tick():
    """Cyclic garbage is collected only here, from the harness' own code in the main thread.  Automatic collection is switched off
    (main.py) because the finaliser of an abandoned prefetch generator joins threads (`with PoolExecutor`, `thread.join()`), and when
    CPython 3.12 happens to run the collector inside threading's own critical section (`_shutdown_locks_lock`, e.g. while a new
    thread bootstraps) that join self-deadlocks - observed once in a thorough run, see DESIGN.md section 4."""
    import gc
    _TICKS[0] += 1
    if _TICKS[0] % 8 == 0:
        gc.collect(1 if _TICKS[0] % 800 else 2)


def fresh_dir(name):
    d = os.path.join(BUILD, name)
    shutil.rmtree(d, ignore_errors=True)
    os.makedirs(d)
    return d


# ----------------------------------------------------------------------------- evidence etc.
def known_findings(prop):
    """Lines of KNOWN_FINDINGS.txt for this property: list of dict(kind, id, text)."""
    out = []
    p = os.path.join(VERIF, 'KNOWN_FINDINGS.txt')
    if not os.path.exists(p):
        return out
    for line in open(p):
        line = line.strip()
        if not line or line.startswith('#'):
            continue
        m = re.match(r'(finding|fixed):\s+property=(\S+)\s+(.*)', line)
        if m and prop in m.group(2).split(','):
            kind, rest = m.group(1), m.group(3)
            mid = re.search(r'\bid=(\S+)', rest)
            out.append(dict(kind=kind, id=mid.group(1) if mid else '', text=rest))
    return out


def write_replay(prop, payload):
    os.makedirs(os.path.join(VERIF, 'replays'), exist_ok=True)
    blob = json.dumps(payload, sort_keys=True, default=str)
    h = hashlib.sha1(blob.encode()).hexdigest()[:10]
    path = os.path.join(VERIF, 'replays', f'{prop}-{h}.json')
    with open(path, 'w') as f:
        json.dump(payload, f, indent=1, sort_keys=True, default=str)
    return path


def write_evidence(prop, tier, coverage, wall_s, violations, assumptions):
    os.makedirs(os.path.join(VERIF, 'evidence'), exist_ok=True)
    ev = dict(property_id=prop, tier=tier, seed=SEED, level='proof', coverage=coverage,
              assumptions=assumptions, wall_s=round(wall_s, 2), violations=violations)
    with open(os.path.join(VERIF, 'evidence', f'{prop}.json'), 'w') as f:
        json.dump(ev, f, indent=1, default=str)


def rng_for(name):
    return random.Random(f'{SEED}:{name}')


def trip_unrelated_cache_guard(ld):
    """An unrelated memory cache in the same process runs into its memory guard (keep_mem_free='100%': there is never that
    much free memory) and stops caching.  That decision belongs to that one cache: every other cache must behave as before."""
    import warnings
    with warnings.catch_warnings():
        warnings.simplefilter('ignore')
        s = ld.new([[1], [2], [3]]).map(lambda e: e).cache(keep_mem_free='100%')
        a = [list(s), list(s)]
        c = s.copy()
        a.append(list(c))
    return a


def unrelated_cache_traffic(ld, keys):
    """Other cache datasets of the same process that hold the SAME keys at other positions (and other lengths) are read by key,
    by position and by iteration.  Whatever a cache remembers belongs to that one object: every other cache must behave as before."""
    import warnings
    keys = list(keys)
    if not keys:
        return
    with warnings.catch_warnings():
        warnings.simplefilter('ignore')
        for order in (list(reversed(keys)), keys[1:] + keys[:1] + ['zz_extra']):
            d = ld.new({k: ('other', i) for i, k in enumerate(order)}).map(lambda e: e).cache()
            for k in order:
                d[k]
            for i in range(len(order)):
                d[i]
            list(d)
            list(d.items())
