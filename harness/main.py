"""./check <Cnn> [--tier quick|thorough] [--replay file]

1. proof side: full .vo build, grep gate, re-check props/Cnn.v and capture Print Assumptions
2. corpus + tie (correspondence of the model's executable definitions with /repo's working tree)
3. known findings are replayed and reported as KNOWN-FINDING lines
4. evidence is rewritten; exit 1 with a VIOLATION line if a proof obligation or the tie broke."""
import sys, os, time, json, argparse, importlib, traceback
from . import common


def _kill_children():
    """worker processes which a (changed) implementation left behind must not outlive the check: they would keep the
    caller's output pipe open"""
    try:
        import psutil
        for c in psutil.Process().children(recursive=True):
            try:
                c.kill()
            except Exception:
                pass
    except Exception:
        pass


def main():
    import gc, logging
    logging.disable(logging.WARNING)      # catch(warn=True) logs every dropped example
    if not os.environ.get('VERIF_AUTO_GC'):
        gc.disable()          # see common.tick()
    ap = argparse.ArgumentParser()
    ap.add_argument('prop')
    ap.add_argument('--tier', default=os.environ.get('VERIF_TIER') or 'quick', choices=['quick', 'thorough'])
    ap.add_argument('--replay')
    args = ap.parse_args()
    prop = args.prop.upper()
    t0 = time.time()
    mod = importlib.import_module(f'harness.props.{prop.lower()}')
    try:
        common.import_impl()
    except common.HarnessError:
        raise
    except BaseException as e:  # noqa
        if isinstance(e, (KeyboardInterrupt, SystemExit)):
            raise
        if args.replay:
            print('STILL-FAILS ' + args.replay + f' (the library does not import: {type(e).__name__}: {e})'[:300])
            sys.exit(1)
        # the library under VERIF_REPO cannot even be imported: nothing about the property can be shown
        payload = dict(property=prop, kind='history', seed=common.SEED, theorem_or_case=f'correspondence run of {prop}: import of lazy_dataset',
                       summary=f'lazy_dataset (core / parallel_utils / database) under {common.REPO if hasattr(common, "REPO") else "VERIF_REPO"} does not import: {type(e).__name__}: {e}'[:600])
        path = common.write_replay(prop, payload)
        print(f'VIOLATION property={prop} replay={path} no-failing-input-found', flush=True)
        os._exit(1)

    if args.replay:
        payload = json.load(open(args.replay))
        still = mod.replay(payload)
        print(('STILL-FAILS ' if still else 'PASSES ') + args.replay)
        sys.exit(1 if still else 0)

    # a run that does not come back is itself a report: the implementation (or the model evaluation) hangs
    import threading, faulthandler

    def _hung():
        limit = int(os.environ.get('VERIF_HANG_LIMIT') or (900 if args.tier == 'quick' else 4 * 3600))
        payload = dict(property=prop, kind='history', seed=common.SEED,
                       theorem_or_case=f'correspondence run of {prop} ({args.tier} tier)',
                       summary=f'the check did not finish within {limit} s in two consecutive attempts: the implementation (or a case evaluation) hangs; the property is no longer shown to hold')
        try:
            faulthandler.dump_traceback(file=sys.stderr)
        except Exception:
            pass
        if not os.environ.get('VERIF_SECOND_ATTEMPT'):
            # a run that does not come back is repeated once by ./check (exit status 75): what is reported is a run that hangs AGAIN -
            # a deadlock that a change of the library introduces shows both times, a one-off stall of the machine does not
            print(f'{prop}: the run did not finish within {limit} s - repeating it once', file=sys.stderr, flush=True)
            _kill_children()
            os._exit(75)
        path = common.write_replay(prop, payload)
        print(f'VIOLATION property={prop} replay={path} no-failing-input-found', flush=True)
        _kill_children()
        os._exit(1)
    _timer = threading.Timer(int(os.environ.get('VERIF_HANG_LIMIT') or (900 if args.tier == 'quick' else 4 * 3600)), _hung)
    _timer.daemon = True
    _timer.start()

    violations = []          # list of (replay payload, found_input: bool)
    known_lines = []

    # ---- 1. proof side
    ps = common.proof_side(mod.PROP_FILE)
    if not ps['ok']:
        violations.append((dict(property=prop, kind='obligation', theorem_or_case=mod.PROP_FILE,
                                reason=ps['reason'], log=ps.get('log', '')[-1500:]), False))

    chk = None
    if ps['ok'] and args.tier == 'thorough':
        chk = common.coqchk(mod.PROP_FILE)
        if not chk['ok']:
            violations.append((dict(property=prop, kind='obligation', theorem_or_case=mod.PROP_FILE,
                                    reason='coqchk does not accept the compiled development: ' + chk['tail']), False))

    # ---- 2. tie (+ corpus first), 3. known findings
    try:
        tie = mod.run(args.tier)
    except common.CaseFileError as e:
        tie = dict(coverage=dict(programs=0, evaluations=0, tie_aborted=True),
                   failures=[dict(kind='history', no_input=True,
                                  theorem_or_case=f'correspondence harness/props/{prop.lower()}.py: a generated case file is ill-typed',
                                  summary='an observation of the implementation lies outside the universe of the model (the generated Gallina case file does not type-check); the property is no longer shown to hold',
                                  detail=str(e)[-2500:], config={})],
                   assumptions=[])
    except common.ImplMisbehaviour as e:
        tie = dict(coverage=dict(programs=0, evaluations=0, tie_aborted=True),
                   failures=[dict(kind='history', theorem_or_case=f'correspondence harness/props/{prop.lower()}.py',
                                  summary=f'the implementation cannot be observed on a generated input: {e}'[:1500], config={})],
                   assumptions=[])
    except common.HarnessError:
        raise
    except (KeyboardInterrupt, SystemExit):
        raise
    except BaseException as e:       # noqa: the implementation behaved in a way the tie's driver cannot even process (incl. BaseException subclasses of the library)
        import traceback
        tb = traceback.format_exc()
        tie = dict(coverage=dict(programs=0, evaluations=0, tie_aborted=True),
                   failures=[dict(kind='history', no_input=True,
                                  theorem_or_case=f'correspondence harness/props/{prop.lower()}.py: the driver raised {type(e).__name__} while exercising the implementation',
                                  summary=f'the correspondence run could not be completed against the current code ({type(e).__name__}: {e}); the property is no longer shown to hold',
                                  traceback=tb[-3000:], config={})],
                   assumptions=[])
    common.tick(); gc.collect()
    try:                       # pathos keeps its process pools in a module-level cache: close them before the interpreter exits
        import pathos.helpers
        pathos.helpers.shutdown()
    except Exception:
        pass
    tie.pop('cases', None)          # dict(coverage=..., failures=[payload...], known=[(id, text)], assumptions=[...])
    kf = common.known_findings(prop)
    open_ids = {k['id']: k for k in kf if k['kind'] == 'finding'}
    for f in tie['failures']:
        fid = f.get('finding_id')
        if fid and fid in open_ids:
            known_lines.append((fid, f.get('summary', open_ids[fid]['text'])))
        else:
            violations.append((f, not f.get('no_input')))
    seen = set()
    for fid, text in known_lines:
        if fid not in seen:
            seen.add(fid)
            print(f'KNOWN-FINDING: property={prop} id={fid} {text}')

    # if the proof side broke and the tie found no failing input, the search already ran (the tie
    # evaluates the property's projection on the implementation over the whole generated space)
    cov = dict(tie['coverage'])
    cov.update(obligations=ps['obligations'], discharged=ps['discharged'] if ps['ok'] else 0,
               checker_cmd=f'make -C coq (coqc 8.16.1, full .vo) ; coqc {mod.PROP_FILE} (Print Assumptions)',
               axioms_reported=ps['axioms'],
               print_assumptions_closed=ps.get('print_assumptions_closed', 0),
               property_theorems=ps.get('property_theorems', 0),
               proof_cone=ps['cone'],
               coqchk=(dict(ran=True, ok=chk['ok'], axioms=chk['axioms']) if chk else dict(ran=False)),
               trusted_base=[
                   'Coq 8.16.1 kernel and its VM (vm_compute); no native_compute',
                   'axioms reported by Print Assumptions: ' + (', '.join(ps['axioms']) or 'none (Closed under the global context)'),
                   'hand-written Gallina model: ' + ', '.join(ps['cone']),
                   'correspondence harness: /verif/harness (generators, canonicaliser, Gallina printer, case files evaluated with vm_compute)',
               ] + list(getattr(mod, 'TRUSTED', [])))
    rc = 0
    if len(violations) > 5:
        print(f'({len(violations)} violating inputs found; writing replays for the first 5)')
    for payload, found in violations[:5]:
        payload.setdefault('property', prop)
        payload.setdefault('seed', common.SEED)
        path = common.write_replay(prop, payload)
        print(f'VIOLATION property={prop} replay={path}' + ('' if found else ' no-failing-input-found'))
        rc = 1
    common.write_evidence(prop, args.tier, cov, time.time() - t0, len(violations),
                          tie.get('assumptions', []) + list(getattr(mod, 'ASSUMPTIONS', [])))
    print(f'{prop}: tier={args.tier} proof_ok={ps["ok"]} obligations={ps["obligations"]} '
          f'cases={cov.get("programs", cov.get("evaluations"))} violations={len(violations)} '
          f'known={len(seen)} wall={time.time() - t0:.1f}s')
    sys.stdout.flush(); sys.stderr.flush()
    _kill_children()
    os._exit(rc)          # no interpreter finalisation: after a detected deadlock wedged (daemon) threads of the implementation are still around


if __name__ == '__main__':
    try:
        main()
    except common.HarnessError as e:
        traceback.print_exc()
        print(f'HARNESS-ERROR: {e}')
        sys.exit(3)
