"""Tie for Model B (Trace.v): WHEN user functions run (C08) and what the profiling wrapper counts (C20).
Instrumented user functions log every application; the log is sampled after construction, after every next()
and after ds[i]; ProfilingDataset hit counters are read per node."""
import os, re, itertools, collections, warnings
from . import common, fnlib as F

HEADER = """From Coq Require Import String.
From Coq Require Import List Arith ZArith Bool.
Require Import LD.Base LD.Fn LD.Trace LD.TraceTie.
Import ListNotations.
Open Scope Z_scope.
"""

LOG = []
EARLY = []
APPLIED = []


class LogF:
    """total user function: logs (stage id, argument) then applies the function code"""
    def __init__(self, sid, code, pred=False):
        self.sid, self.code, self.pred = sid, code, pred

    def __call__(self, v):
        LOG.append((self.sid, v))
        return F.py_p(self.code)(v) if self.pred else F.apply_f(self.code, v)


class Node:
    def __init__(self, op, sid, a=(), kids=()):
        self.op, self.sid, self.a, self.kids = op, sid, tuple(a), list(kids)

    def ids(self):
        out = [self.sid]
        for k in self.kids:
            out += k.ids()
        return out


def gen(r, ids, depth, need_index=False, need_len=None):
    """random lds; need_index: must be indexable; returns Node"""
    if depth <= 0 or r.random() < 0.2:
        n = need_len if need_len is not None else r.choice([0, 1, 2, 3, 4, 5, 6])
        base = r.randint(0, 50)
        return Node('src', next(ids), (tuple(range(base, base + n)),))
    ops = ['map', 'map', 'batch', 'concat', 'zip', 'slice']
    if not need_index:
        ops += ['filter', 'filter', 'unbatch']
    if need_len is not None:
        ops = ['map', 'map', 'src']
    op = r.choice(ops)
    sid = next(ids)
    if op == 'src':
        return gen(r, ids, 0, need_index, need_len)
    if op == 'map':
        f = r.choice([('FAdd', r.randint(1, 3)), ('FMul', 2), ('FAdd', 0)])
        return Node('map', sid, (f,), [gen(r, ids, depth - 1, need_index, need_len)])
    if op == 'filter':
        p = r.choice([('PModEq', 2, 0), ('PModEq', 3, 1), ('PLt', 30), ('PTrue',), ('PFalse',)])
        return Node('filter', sid, (p,), [gen(r, ids, depth - 1)])
    if op == 'batch':
        return Node('batch', sid, (r.choice([1, 2, 2, 3]),), [gen(r, ids, depth - 1, need_index)])
    if op == 'unbatch':
        inner = Node('batch', next(ids), (r.choice([1, 2, 3]),), [gen(r, ids, depth - 2)])
        if r.random() < 0.4:
            inner = Node('filter', next(ids), (('PTrue',),), [inner])
        return Node('unbatch', sid, (), [inner])
    if op == 'concat':
        return Node('concat', sid, (), [gen(r, ids, depth - 1, need_index), gen(r, ids, depth - 1, need_index)])
    if op == 'zip':
        n = r.choice([0, 1, 2, 3, 4])
        return Node('zip', sid, (), [gen(r, ids, depth - 1, need_index, n), gen(r, ids, depth - 1, need_index, n)])
    if op == 'slice':
        inner = gen(r, ids, depth - 1, True)
        n = out_len(inner)
        if r.random() < 0.5:
            # a slice OBJECT ds[a:b:c] (contiguous ranges, strides, negative bounds); the model sees the index list it denotes
            o = lambda: r.choice([None, None] + list(range(-n - 1, n + 2)))
            sl = (o(), o(), r.choice([None, None, 1, 1, 2, -1, 3]))
            return Node('slice', sid, (tuple(range(n)[slice(*sl)]), sl), [inner])
        idx = [r.randrange(n) for _ in range(r.randint(0, n + 1))] if n else []
        if r.random() < 0.5:
            idx = sorted(set(idx))
        return Node('slice', sid, (tuple(idx),), [inner])


def out_len(nd):
    try:
        return _out_len(nd)
    except TypeError:
        return None


def _out_len(nd):
    if nd.op in ('src', 'ksrc'): return len(nd.a[0])
    if nd.op in ('map', 'lazymap'): return _out_len(nd.kids[0])
    if nd.op == 'batch': return -(-_out_len(nd.kids[0]) // nd.a[0])
    if nd.op == 'concat': return _out_len(nd.kids[0]) + _out_len(nd.kids[1])
    if nd.op == 'zip': return _out_len(nd.kids[0])
    if nd.op == 'slice': return len(nd.a[0])
    raise TypeError


def build(nd, ld):
    K = [build(k, ld) for k in nd.kids]
    if nd.op == 'src': return ld.new(list(nd.a[0]))
    if nd.op == 'map': return K[0].map(LogF(nd.sid, nd.a[0]))
    if nd.op == 'lazymap':
        # ds.apply(fn, lazy=True): the model sees the map it denotes; calls of fn itself are user code too and are counted apart
        def ap(d, f=LogF(nd.sid, nd.a[0])):
            APPLIED.append(nd.sid)
            return d.map(f)
        return K[0].apply(ap, lazy=True)
    if nd.op == 'filter':
        # the documented default lazy=True, left out or spelled by any true value (a numpy bool from a comparison, 1 from a command line)
        import numpy as np
        sp = nd.sid % 4
        if sp == 0: return K[0].filter(LogF(nd.sid, nd.a[0], pred=True))
        return K[0].filter(LogF(nd.sid, nd.a[0], pred=True), lazy=(True, np.True_, 1)[sp - 1])
    if nd.op == 'batch': return K[0].batch(nd.a[0])
    if nd.op == 'unbatch': return K[0].unbatch()
    if nd.op == 'concat': return K[0].concatenate(K[1])
    if nd.op == 'zip': return K[0].zip(K[1])
    if nd.op == 'slice': return K[0][slice(*nd.a[1])] if len(nd.a) > 1 else K[0][list(nd.a[0])]
    raise ValueError(nd.op)


def coq_lds(nd):
    K = [coq_lds(k) for k in nd.kids]
    i = f'{nd.sid}%nat'
    if nd.op in ('src', 'ksrc'): return f'(LSrc {i} {F.coq_list([F.coq_val(v) for v in nd.a[0]])})'
    if nd.op in ('map', 'lazymap'):
        c = nd.a[0]
        fn = f'(deep_add {F.z(c[1])})' if c[0] == 'FAdd' else f'(deep_mul {F.z(c[1])})'
        return f'(LMap {i} {fn} {K[0]})'
    if nd.op == 'filter': return f'(LFilter {i} (interp_p {F.coq_p(nd.a[0])}) {K[0]})'
    if nd.op == 'batch': return f'(LBatch {i} {nd.a[0]}%nat {K[0]})'
    if nd.op == 'unbatch': return f'(LUnbatch {i} {K[0]})'
    if nd.op == 'concat': return f'(LConcat {i} {K[0]} {K[1]})'
    if nd.op == 'zip': return f'(LZip {i} {K[0]} {K[1]})'
    if nd.op == 'slice': return f'(LSlice {i} {F.coq_list([str(j) + "%nat" for j in nd.a[0]])} {K[0]})'


def take_log():
    out = list(LOG)
    LOG.clear()
    return out


def observe_iter(ds):
    """[(apps during this next(), value)], apps during the terminating next()"""
    segs = []
    it = iter(ds)
    early = take_log() + [('apply_fn', x) for x in APPLIED]
    del APPLIED[:]
    if early:
        EARLY.append(list(early))        # creating the iterator alone must not run user code (k = 0 results consumed)
    while True:
        try:
            v = next(it)
        except StopIteration:
            return segs, take_log()
        segs.append((take_log(), v))


def prof_counts(prof, nd):
    """hit counters of the profiling wrapper tree, in the order of Node.ids() (pre-order)"""
    inner = prof.input_dataset
    out = [tuple(prof.hit_count)]
    if nd.op == 'src':
        # new(list) is MapDataset(loads) over ListDataset: two wrapped nodes for one model source
        below = inner.input_dataset
        if tuple(below.hit_count) != tuple(prof.hit_count):
            out[0] = ('src-mismatch', tuple(prof.hit_count), tuple(below.hit_count))
        return out
    if hasattr(inner, 'input_datasets'):
        for p, k in zip(inner.input_datasets, nd.kids):
            out += prof_counts(p, k)
    else:
        out += prof_counts(inner.input_dataset, nd.kids[0])
    return out


def coq_apps(l):
    return F.coq_list(['(%d%%nat, %s)' % (s, F.coq_val(v)) for s, v in l])


def coq_hits(h):
    return F.coq_list(['(%d%%nat, %d%%nat)' % (a, b) for a, b in h])


def run_b(prop, tier, want_prof):
    ld = common.import_impl()
    r = common.rng_for(prop)
    big = tier != 'quick'
    N = 6000 if big else 500
    cases, meta, failures = [], [], []
    with warnings.catch_warnings():
        warnings.simplefilter('ignore')
        for _ in range(N):
            ids = itertools.count(1)
            nd = gen(r, ids, r.choice([1, 2, 3, 4]))
            common.tick()
            if _ % 10 == 0:
                # every tenth pipeline: a contiguous selection ds[a:b] with a > 0 above mapped stages (what is skipped must not be evaluated)
                n0 = r.randint(2, 6)
                inner = Node('map', next(ids), (('FAdd', 1),), [Node('src', next(ids), (tuple(range(10, 10 + n0)),))])
                if r.random() < 0.5:
                    inner = Node('map', next(ids), (('FMul', 2),), [inner])
                a = r.randint(1, n0 - 1)
                sl = (a, r.choice([None, n0, n0 - 1, -1]) if r.random() < 0.7 else None, r.choice([None, 1]))
                nd = Node('slice', next(ids), (tuple(range(n0)[slice(*sl)]), sl), [inner])
                if r.random() < 0.4:
                    nd = Node('map', next(ids), (('FAdd', 0),), [nd])
            if _ % 10 == 5:
                # every tenth pipeline: batches above mapped stages whose last batch is incomplete (or exactly full), read by position -
                # the incomplete batch must evaluate each of its examples once, like every other batch
                n0 = r.randint(1, 7)
                k0 = r.choice([2, 2, 3, 4])
                inner = Node('map', next(ids), (('FAdd', 1),), [Node('src', next(ids), (tuple(range(20, 20 + n0)),))])
                if r.random() < 0.5:
                    inner = Node('map', next(ids), (('FMul', 2),), [inner])
                nd = Node('batch', next(ids), (k0,), [inner])
                top = r.random()
                if top < 0.25:
                    nd = Node('map', next(ids), (('FAdd', 0),), [nd])
                elif top < 0.4:
                    nb = -(-n0 // k0)
                    idx = tuple(r.sample(range(nb), nb))
                    nd = Node('slice', next(ids), (idx,), [nd])
            if not want_prof and r.random() < 0.12:
                nd = Node('lazymap', next(ids), (r.choice([('FAdd', 1), ('FMul', 2)]),), [nd])      # a lazily applied stage on top
            take_log()
            del EARLY[:]
            del APPLIED[:]
            try:
                ds = build(nd, ld)
            except Exception as e:
                # every generated pipeline is a valid construction (the model builds it): a refusal here is a failing input
                built = take_log()
                failures.append(dict(kind='program', summary=f'constructing {coq_lds(nd)[:300]} raised {type(e).__name__}: {e}'[:500] + (f'; user functions already applied: {built[:5]}' if built else ''), config={}))
                continue
            built = take_log() + [('apply_fn', x) for x in APPLIED]
            if built:
                failures.append(dict(kind='program', summary=f'constructing {coq_lds(nd)[:300]} already applied user functions: {built[:5]}', config={}))
            segs, fin = observe_iter(ds)
            if EARLY:
                failures.append(dict(kind='program', summary=f'iter() of {coq_lds(nd)[:300]} ran user functions before any result was requested: {EARLY[0][:5]}', config={}))
            # second iteration must behave the same (nothing cached / consumed)
            segs2, fin2 = observe_iter(ds)
            if repr((segs, fin)) != repr((segs2, fin2)):
                failures.append(dict(kind='program', summary=f'second iteration of {coq_lds(nd)[:300]} applies user functions differently', config={}))
            gets = []
            n = out_len(nd)
            if n is not None and all(x.op not in ('filter', 'unbatch', 'lazymap') for x in walk(nd)):
                for i in (range(n + 2) if n <= 5 else sorted(set([0, n - 1, n, r.randint(0, n + 1)]))):
                    if i < 0:
                        continue
                    take_log()
                    try:
                        v = ds[i]
                        gets.append((i, (take_log(), v)))
                    except IndexError:
                        take_log()
                        gets.append((i, None))
            prof_iter, prof_get = [], []
            if want_prof:
                for k in sorted(set([0, 1, len(segs), len(segs) + 1, r.randint(0, len(segs) + 1)])):
                    p = ld.core.ProfilingDataset(ds)
                    got = list(itertools.islice(iter(p), k)) if k <= len(segs) else list(p)
                    if got != [s[1] for s in segs][:k]:
                        failures.append(dict(kind='program', summary=f'the profiling wrapper changes the examples: {got} vs {[s[1] for s in segs][:k]}', config={}))
                    prof_iter.append((k, prof_counts(p, nd)))
                for (i, g) in gets:
                    p = ld.core.ProfilingDataset(ds)
                    try:
                        v = p[i]
                        if g is None or repr(v) != repr(g[1]):
                            failures.append(dict(kind='program', summary=f'profiling wrapper: ds[{i}] = {v!r} vs unwrapped {g}', config={}))
                    except IndexError:
                        if g is not None:
                            failures.append(dict(kind='program', summary=f'profiling wrapper: ds[{i}] raised IndexError, unwrapped gives {g[1]!r}', config={}))
                    prof_get.append((i, prof_counts(p, nd)))
                take_log()
            bad_prof = [x for k, h in prof_iter + prof_get for x in h if x and x[0] == 'src-mismatch']
            if bad_prof:
                failures.append(dict(kind='program', summary=f'profiling: the two wrapped source nodes disagree: {bad_prof[:2]}', config={}))
                prof_iter, prof_get = [], []
            c = '(mkBC %s (%s, %s) %s %s %s)' % (
                coq_lds(nd),
                F.coq_list(['(%s, %s)' % (coq_apps(a), F.coq_val(v)) for a, v in segs]), coq_apps(fin),
                F.coq_list(['(%d%%nat, %s)' % (i, 'None' if g is None else '(Some (%s, %s))' % (coq_apps(g[0]), F.coq_val(g[1]))) for i, g in gets]),
                F.coq_list(['(%d%%nat, %s)' % (k, coq_hits(h)) for k, h in prof_iter]),
                F.coq_list(['(%d%%nat, %s)' % (i, coq_hits(h)) for i, h in prof_get]))
            cases.append(c)
            meta.append((nd, segs, fin, gets, prof_iter, prof_get))
    d = common.fresh_dir(f'{prop}_{tier}')
    files = []
    per = 150
    for s in range(0, len(cases), per):
        f = os.path.join(d, f't_{s // per:03d}.v')
        with open(f, 'w') as fh:
            fh.write(HEADER)
            fh.write('Definition cases : list bcase := [\n' + ';\n'.join(cases[s:s + per]) + '\n].\n')
            fh.write('Eval vm_compute in (bbad 0 cases).\n')
        files.append((s, f))
    outs = common.run_case_files([f for _, f in files])
    nbad = 0
    for s, f in files:
        out = outs[f]
        body = re.sub(r'\s+', ' ', out[out.index('=') + 1:out.rindex(':')])
        for m in re.finditer(r'\((\d+)%nat, \[([^\]]*)\]\)', body):
            i, what = s + int(m.group(1)), [int(x) for x in re.findall(r'\d+', m.group(2))]
            names = {1: 'iteration (per next() applications / values)', 2: 'ds[i] applications', 3: 'hit counts after k next()', 4: 'hit counts after ds[i]'}
            rel = [w for w in what if (w in (3, 4)) == want_prof or not want_prof and w in (1, 2)]
            if not rel:
                continue
            nbad += 1
            nd = meta[i][0]
            failures.append(dict(kind='program', summary=f'model and implementation disagree on {", ".join(names[w] for w in rel)}: {coq_lds(nd)[:400]} impl: segs={meta[i][1]!r} final={meta[i][2]!r} prof={meta[i][4]!r}'[:1200], config={}))
    kcov = {}
    if not want_prof:
        kf, kcov = keyed_checks(ld, r, tier, f'{prop}_{tier}_keyed')
        failures += kf
        nf, ncov = inter_checks(ld, r, tier, f'{prop}_{tier}_inter')
        failures += nf
        kcov.update(ncov)
    ops = collections.Counter(x.op for m in meta for x in walk(m[0]))
    cov = dict(programs=len(cases), evaluations=len(cases), distinct=len(set(cases)),
               distinct_nontrivial=len(set(c for c, m in zip(cases, meta) if len(list(walk(m[0]))) >= 3 and len(m[1]) >= 2)),
               rule='random lazy pipelines (map, filter, batch, unbatch, concatenate, zip, index-list slice over sources of length 0..6, depth <= 4) with an instrumented user function at '
                    'every stage; the application log is sampled after construction, after EVERY next() and after ds[i]; '
                    + ('ProfilingDataset hit / failed counters per node after k next() calls (k = 0, 1, random, all, all+1) and after ds[i]; ' if want_prof else '')
                    + 'non-trivial = >= 3 stages and >= 2 results',
               stage_histogram=dict(ops), traces_validated_against_impl=len(cases), disagreements_checked=nbad,
               next_calls_observed=sum(len(m[1]) + 1 for m in meta), index_accesses_observed=sum(len(m[3]) for m in meta),
               samples=[dict(pipeline=coq_lds(m[0])[:300], per_next=[(a, v) for a, v in m[1]][:4], final=m[2]) for m in meta[:2]],
               exhaustive=False)
    cov.update(kcov)
    return dict(coverage=cov, failures=failures, assumptions=['CPython generator semantics: code after a yield runs only at the next next()'])


# ------------------------------------------------------------------ keyed access ds[key] (TraceKey.v)
KHEADER = HEADER.replace('LD.TraceTie', 'LD.TraceTie LD.TraceKey') if 'LD.TraceTie' in HEADER else HEADER + 'Require Import LD.TraceKey.\n'


def gen_k(r, ids, depth, need_index=False):
    """pipelines over dict-backed sources; the key string of a source example encodes (source stage id, position)"""
    if depth <= 0 or r.random() < 0.2:
        n = r.choice([0, 1, 2, 3, 4, 5])
        base = r.randint(0, 50)
        return Node('ksrc', next(ids), (tuple(range(base, base + n)),))
    ops = ['map', 'map', 'concat', 'slice', 'map']
    if not need_index:
        ops += ['filter', 'filter', 'filter']
    if r.random() < 0.06:
        ops = ['batch', 'zip']
    op = r.choice(ops)
    sid = next(ids)
    if op == 'map':
        f = r.choice([('FAdd', r.randint(1, 3)), ('FMul', 2), ('FAdd', 0)])
        return Node('map', sid, (f,), [gen_k(r, ids, depth - 1, need_index)])
    if op == 'filter':
        p = r.choice([('PModEq', 2, 0), ('PModEq', 3, 1), ('PLt', 30), ('PTrue',), ('PTrue',), ('PFalse',)])
        return Node('filter', sid, (p,), [gen_k(r, ids, depth - 1)])
    if op == 'batch':
        return Node('batch', sid, (r.choice([1, 2]),), [gen_k(r, ids, depth - 1, need_index)])
    if op == 'concat':
        return Node('concat', sid, (), [gen_k(r, ids, depth - 1, need_index), gen_k(r, ids, depth - 1, need_index)])
    if op == 'zip':
        a = Node('ksrc', next(ids), ((1, 2),)); b = Node('ksrc', next(ids), ((3, 4),))
        return Node('zip', sid, (), [a, b])
    if op == 'slice':
        inner = gen_k(r, ids, depth - 1, True)
        n = out_len(inner)
        idx = r.sample(range(n), r.randint(0, n)) if n else []       # no position twice: keys stay unique
        if r.random() < 0.5:
            idx = sorted(idx)
        return Node('slice', sid, (tuple(idx),), [inner])


def kkey(sid, pos):
    return f's{sid}_{pos}'


def parse_key(k):
    a, b = k[1:].split('_')
    return int(a), int(b)


def build_k(nd, ld):
    if nd.op == 'ksrc':
        return ld.new({kkey(nd.sid, i): v for i, v in enumerate(nd.a[0])})
    K = [build_k(k, ld) for k in nd.kids]
    if nd.op == 'map': return K[0].map(LogF(nd.sid, nd.a[0]))
    if nd.op == 'filter': return K[0].filter(LogF(nd.sid, nd.a[0], pred=True))
    if nd.op == 'batch': return K[0].batch(nd.a[0])
    if nd.op == 'concat': return K[0].concatenate(K[1])
    if nd.op == 'zip': return K[0].zip(K[1])
    if nd.op == 'slice': return K[0][list(nd.a[0])]
    raise ValueError(nd.op)


def coq_key(k):
    return '(%d%%nat, %d%%nat)' % k


def keyed_checks(ld, r, tier, tag):
    """ds[key] through map / filter / concatenate / selection chains with an instrumented function at every stage:
    the application log of ONE lookup is compared with TraceKey.getk_s (each stage on the path once, nothing else)"""
    big = tier != 'quick'
    N = 3000 if big else 300
    cases, meta, failures = [], [], []
    with warnings.catch_warnings():
        warnings.simplefilter('ignore')
        for _ in range(N):
            ids = itertools.count(1)
            nd = gen_k(r, ids, r.choice([1, 2, 3, 4]))
            common.tick()
            take_log()
            try:
                ds = build_k(nd, ld)
            except Exception as e:
                continue
            if take_log():
                failures.append(dict(kind='program', summary=f'constructing {coq_lds(nd)[:300]} already applied user functions', config={}))
            try:
                keys = [parse_key(k) for k in ds.keys()]
            except Exception:
                keys = None
            if take_log():
                failures.append(dict(kind='program', summary=f'keys() of {coq_lds(nd)[:300]} applied user functions', config={}))
            universe = []
            for x in walk(nd):
                if x.op == 'ksrc':
                    universe += [(x.sid, i) for i in range(len(x.a[0]) + 1)]
            universe.append((999, 0))
            gets = []
            for k in universe:
                take_log()
                try:
                    v = ds[kkey(*k)]
                    gets.append((k, ('val', take_log(), v)))
                except LookupError:
                    gets.append((k, ('miss', take_log())))
                except Exception as e:
                    take_log()
                    gets.append((k, ('unsup',)))
                # direct reading of C08: one lookup applies every stage's function at most once
                g = gets[-1][1]
                if g[0] != 'unsup':
                    sids = [a[0] for a in g[1]]
                    if len(sids) != len(set(sids)):
                        failures.append(dict(kind='program', summary=f'ds[{kkey(*k)!r}] of {coq_lds(nd)[:300]} applied a stage function more than once: applications {g[1]}', config={}))
            def cobs(g):
                if g[0] == 'val': return f'(OVal {coq_apps(g[1])} {F.coq_val(g[2])})'
                if g[0] == 'miss': return f'(OMiss {coq_apps(g[1])})'
                return 'OUnsup'
            cases.append('(mkKC %s %s %s)' % (coq_lds(nd), 'None' if keys is None else '(Some %s)' % F.coq_list([coq_key(k) for k in keys]),
                                          F.coq_list(['(%s, %s)' % (coq_key(k), cobs(g)) for k, g in gets])))
            meta.append((nd, keys, gets))
    d = common.fresh_dir(tag)
    files = []
    per = 150
    for s0 in range(0, len(cases), per):
        f = os.path.join(d, f'k_{s0 // per:03d}.v')
        with open(f, 'w') as fh:
            fh.write(KHEADER)
            fh.write('Definition cases : list kcase := [\n' + ';\n'.join(cases[s0:s0 + per]) + '\n].\n')
            fh.write('Eval vm_compute in (kbad 0 cases).\n')
        files.append((s0, f))
    outs = common.run_case_files([f for _, f in files])
    nbad = 0
    for s0, f in files:
        out = outs[f]
        body = re.sub(r'\s+', ' ', out[out.index('=') + 1:out.rindex(':')])
        for m in re.finditer(r'\((\d+)%nat, \[([^\]]*)\]\)', body):
            i = s0 + int(m.group(1))
            nbad += 1
            nd, keys, gets = meta[i]
            failures.append(dict(kind='program', summary=f'model and implementation disagree on keyed access ({m.group(2)}; 1 = keys(), 2 = ds[key] applications / value): {coq_lds(nd)[:400]} impl keys={keys} lookups={gets!r}'[:1400], config={}))
    hist = collections.Counter(g[0] for m in meta for k, g in m[2])
    return failures, dict(keyed_pipelines=len(cases), keyed_lookups=sum(len(m[2]) for m in meta), keyed_outcomes=dict(hist), keyed_disagreements=nbad)


# ------------------------------------------------------------------ intersperse (TraceInter.v)
def inter_checks(ld, r, tier, tag):
    """intersperse of 2..3 lazy pipelines with an instrumented function at every stage: per next() exactly one element of one
    input is evaluated (nothing is read ahead from the other inputs), compared with TraceInter.inter_s"""
    big = tier != 'quick'
    N = 1500 if big else 150
    cases, meta, failures = [], [], []
    with warnings.catch_warnings():
        warnings.simplefilter('ignore')
        while len(cases) < N:
            common.tick()
            ids = itertools.count(1)
            kids = []
            for _ in range(r.choice([2, 2, 3])):
                nd = gen(r, ids, r.choice([1, 2, 3]), need_index=True)
                kids.append(nd)
            if any(not out_len(k) for k in kids):
                continue
            top = next(ids)
            take_log()
            try:
                ds = ld.intersperse(*[build(k, ld) for k in kids])
            except Exception:
                continue
            if take_log():
                failures.append(dict(kind='program', summary='constructing an intersperse applied user functions', config={}))
            del EARLY[:]
            del APPLIED[:]           # (left over from the last pipeline of the previous family)
            segs, fin = observe_iter(ds)
            if EARLY:
                failures.append(dict(kind='program', summary=f'iter() of an intersperse ran user functions before any result was requested: {EARLY[0][:5]}', config={}))
            cases.append('(mkNC %d%%nat %s (%s, %s))' % (top, F.coq_list([coq_lds(k) for k in kids]),
                                                       F.coq_list(['(%s, %s)' % (coq_apps(a), F.coq_val(v)) for a, v in segs]), coq_apps(fin)))
            meta.append((kids, segs, fin))
    d = common.fresh_dir(tag)
    files = []
    per = 150
    hdr = HEADER.replace('LD.TraceTie', 'LD.TraceTie LD.TraceInter')
    for s0 in range(0, len(cases), per):
        f = os.path.join(d, f'n_{s0 // per:03d}.v')
        with open(f, 'w') as fh:
            fh.write(hdr)
            fh.write('Definition cases : list ncase := [\n' + ';\n'.join(cases[s0:s0 + per]) + '\n].\n')
            fh.write('Eval vm_compute in (nbad 0 cases).\n')
        files.append((s0, f))
    outs = common.run_case_files([f for _, f in files])
    nbad = 0
    for s0, f in files:
        out = outs[f]
        body = out[out.index('=') + 1:out.rindex(':')]
        for x in re.findall(r'\d+', body):
            i = s0 + int(x)
            nbad += 1
            kids, segs, fin = meta[i]
            failures.append(dict(kind='program', summary=f'model and implementation disagree on the per-next() applications of intersperse({", ".join(coq_lds(k)[:150] for k in kids)}): impl segs={segs!r} final={fin!r}'[:1400], config={}))
    return failures, dict(intersperse_pipelines=len(cases), intersperse_disagreements=nbad)


def walk(nd):
    yield nd
    for k in nd.kids:
        yield from walk(k)
