#!/venv/bin/python
"""tools/mutate.py - systematic small mutations of /repo's library source (text-level, located with ast positions), used to find
blind spots of the checks (complements the hand-made seeded changes; nothing here is part of a registered check).

  tools/mutate.py list <file.py>                 print the mutation sites: id kind line text
  tools/mutate.py apply <file.py> <id> <outdir>  write a copy of /repo/lazy_dataset with that one mutation applied into <outdir>/lazy_dataset
  tools/mutate.py run <file.py> <id> <checks..>  apply in a scratch dir under /tmp/mut, run the quick checks against it until one reports a
                                                 VIOLATION, print one result line, remove the scratch dir
"""
import ast, sys, os, io, shutil, subprocess, tokenize, json

REPO = '/repo'
V = os.path.dirname(os.path.dirname(os.path.abspath(__file__)))
SKIP_FUNCS = {'__repr__', '_repr_pretty_', '__str__', '__reduce__', 'check_len', '_get_memory_size_disabled'}
DELSTMT = bool(os.environ.get('MUT_DELSTMT'))
CMP = {ast.Lt: ('<', '<='), ast.LtE: ('<=', '<'), ast.Gt: ('>', '>='), ast.GtE: ('>=', '>'), ast.Eq: ('==', '!='), ast.NotEq: ('!=', '=='),
       ast.Is: ('is', 'is not'), ast.IsNot: ('is not', 'is'), ast.In: ('in', 'not in'), ast.NotIn: ('not in', 'in')}


def sites(path):
    src = open(path).read()
    lines = src.split('\n')
    tree = ast.parse(src)
    out = []

    def text(node):
        if node.lineno != node.end_lineno:
            return None
        return lines[node.lineno - 1][node.col_offset:node.end_col_offset]

    def between(a, b):
        """source text between the end of node a and the start of node b (same line only)"""
        if a.end_lineno != b.lineno:
            return None
        return (a.end_lineno, a.end_col_offset, b.col_offset, lines[a.end_lineno - 1][a.end_col_offset:b.col_offset])

    def visit(node, fn, skip):
        if isinstance(node, (ast.FunctionDef, ast.AsyncFunctionDef)):
            fn = node.name
            if fn in SKIP_FUNCS:
                return
        if isinstance(node, ast.If) and isinstance(node.test, ast.Compare) and isinstance(node.test.left, ast.Name) and node.test.left.id == '__name__':
            return
        if isinstance(node, (ast.Raise, ast.JoinedStr)):
            return
        if isinstance(node, ast.Assert):
            visit(node.test, fn, skip)
            return
        if isinstance(node, ast.Expr) and isinstance(node.value, ast.Constant) and isinstance(node.value.value, str):
            return          # docstring
        if isinstance(node, ast.Call):
            f = node.func
            nm = f.attr if isinstance(f, ast.Attribute) else getattr(f, 'id', '')
            if nm in ('warn', 'info', 'warning', 'debug', 'error', 'shorten', 'indent', 'format'):
                return
        # --- mutations at this node
        if isinstance(node, ast.Compare):
            left = node.left
            for op, right in zip(node.ops, node.comparators):
                bt = between(left, right)
                if bt and type(op) in CMP:
                    ln, c0, c1, tx = bt
                    old, new = CMP[type(op)]
                    if tx.strip() == old:
                        out.append(dict(kind='cmp', line=ln, c0=c0, c1=c1, new=tx.replace(old, new), fn=fn))
                left = right
        if isinstance(node, ast.BoolOp):
            for a, b in zip(node.values, node.values[1:]):
                bt = between(a, b)
                if bt:
                    ln, c0, c1, tx = bt
                    old = 'and' if isinstance(node.op, ast.And) else 'or'
                    if tx.strip() == old:
                        out.append(dict(kind='bool', line=ln, c0=c0, c1=c1, new=tx.replace(old, 'or' if old == 'and' else 'and'), fn=fn))
        if isinstance(node, ast.Constant) and isinstance(node.value, int) and not isinstance(node.value, bool) and node.lineno == node.end_lineno:
            v = node.value
            out.append(dict(kind='const', line=node.lineno, c0=node.col_offset, c1=node.end_col_offset, new=str({0: 1, 1: 0}.get(v, v + 1)), fn=fn))
        if isinstance(node, ast.Constant) and isinstance(node.value, bool) and node.lineno == node.end_lineno:
            out.append(dict(kind='boolconst', line=node.lineno, c0=node.col_offset, c1=node.end_col_offset, new=str(not node.value), fn=fn))
        if isinstance(node, ast.UnaryOp) and isinstance(node.op, ast.Not) and node.lineno == node.end_lineno:
            t = text(node)
            if t and t.startswith('not '):
                out.append(dict(kind='not', line=node.lineno, c0=node.col_offset, c1=node.col_offset + 4, new='', fn=fn))
        if isinstance(node, ast.BinOp) and isinstance(node.op, (ast.Add, ast.Sub)):
            bt = between(node.left, node.right)
            if bt:
                ln, c0, c1, tx = bt
                old = '+' if isinstance(node.op, ast.Add) else '-'
                if tx.strip() == old:
                    out.append(dict(kind='arith', line=ln, c0=c0, c1=c1, new=tx.replace(old, '-' if old == '+' else '+'), fn=fn))
        if isinstance(node, ast.Call) and node.keywords:
            for kw in node.keywords:
                if kw.arg is None or kw.lineno != kw.end_lineno or kw.arg in ('name', 'protocol', 'dtype', 'width', 'placeholder', 'file', 'end'):
                    continue          # representation / message only
                line = lines[kw.lineno - 1]
                c1 = kw.end_col_offset
                rest = line[c1:]
                if rest.lstrip().startswith(','):
                    c1 += len(rest) - len(rest.lstrip()) + 1
                out.append(dict(kind='dropkw', line=kw.lineno, c0=kw.col_offset, c1=c1, new='', fn=fn, note=kw.arg))
        # a simple statement dropped (replaced by `pass`): assignments, augmented assignments, bare calls, single-line returns of a value
        if DELSTMT and fn is not None and isinstance(node, (ast.Assign, ast.AugAssign, ast.Expr, ast.Return)) and node.lineno == node.end_lineno:
            ok = True
            if isinstance(node, ast.Expr) and not isinstance(node.value, (ast.Call, ast.Yield, ast.YieldFrom)):
                ok = False
            if isinstance(node, ast.Expr) and isinstance(node.value, (ast.Yield, ast.YieldFrom)):
                ok = False                     # dropping a yield changes the function kind: too crude
            if isinstance(node, ast.Return) and node.value is None:
                ok = False
            if isinstance(node, ast.Expr) and isinstance(node.value, ast.Call):
                f = node.value.func
                nm = f.attr if isinstance(f, ast.Attribute) else getattr(f, 'id', '')
                if nm in ('warn', 'info', 'warning', 'debug', 'error', 'print'):
                    ok = False
            if ok:
                line = lines[node.lineno - 1]
                out.append(dict(kind='delstmt', line=node.lineno, c0=node.col_offset, c1=len(line), new='pass', fn=fn))
        if isinstance(node, (ast.If, ast.While)) and not isinstance(node.test, (ast.Compare, ast.BoolOp, ast.UnaryOp)) and node.test.lineno == node.test.end_lineno:
            t = node.test
            out.append(dict(kind='negate', line=t.lineno, c0=t.col_offset, c1=t.end_col_offset, new='(not ' + lines[t.lineno - 1][t.col_offset:t.end_col_offset] + ')', fn=fn))
        for ch in ast.iter_child_nodes(node):
            visit(ch, fn, skip)
    visit(tree, None, False)
    for i, s in enumerate(out):
        s['id'] = i
        s['old'] = lines[s['line'] - 1][s['c0']:s['c1']]
        s['text'] = lines[s['line'] - 1].strip()
    return src, out


def apply(path, mid, outdir):
    src, ss = sites(path)
    s = ss[mid]
    lines = src.split('\n')
    l = lines[s['line'] - 1]
    lines[s['line'] - 1] = l[:s['c0']] + s['new'] + l[s['c1']:]
    dst = os.path.join(outdir, 'lazy_dataset')
    if os.path.exists(dst):
        shutil.rmtree(dst)
    shutil.copytree(os.path.join(REPO, 'lazy_dataset'), dst)
    open(os.path.join(dst, os.path.basename(path)), 'w').write('\n'.join(lines))
    return s, lines[s['line'] - 1]


def main():
    cmd, path = sys.argv[1], sys.argv[2]
    if cmd == 'list':
        _, ss = sites(path)
        for s in ss:
            print(s['id'], s['kind'], s['line'], s.get('fn'), repr(s['old']), '->', repr(s['new']), '|', s['text'][:90])
        return
    mid = int(sys.argv[3])
    if cmd == 'apply':
        print(apply(path, mid, sys.argv[4]))
        return
    if cmd == 'run':
        checks = sys.argv[4:]
        tmp = f'/tmp/mut/{os.path.basename(path)}_{mid}'
        os.makedirs(tmp, exist_ok=True)
        try:
            s, newline = apply(path, mid, tmp)
            env = dict(os.environ, VERIF_REPO=tmp, VERIF_BUILD=os.path.join(tmp, 'build'), PYTHONDONTWRITEBYTECODE='1')
            p = subprocess.run(['/venv/bin/python', '-c', 'import sys; sys.path.insert(0, sys.argv[1]); import lazy_dataset, lazy_dataset.database, lazy_dataset.parallel_utils'] + [tmp],
                               capture_output=True, text=True, cwd='/tmp', env=env)
            res = dict(id=mid, kind=s['kind'], line=s['line'], fn=s.get('fn'), new=newline.strip()[:110])
            if p.returncode:
                res['status'] = 'import-fails'
            else:
                res['status'] = 'SURVIVED'
                for c in checks:
                    q = subprocess.run([os.path.join(V, 'check'), c, '--tier', 'quick'], capture_output=True, text=True, env=env, timeout=1500)
                    if q.returncode == 1 and f'VIOLATION property={c}' in q.stdout:
                        res['status'] = 'caught:' + c
                        break
                    if q.returncode not in (0, 1):
                        res['status'] = f'tool-error:{c}:{q.returncode}'
                        res['err'] = (q.stdout + q.stderr)[-300:]
                        break
            print(json.dumps(res), flush=True)
        finally:
            shutil.rmtree(tmp, ignore_errors=True)


if __name__ == '__main__':
    main()
