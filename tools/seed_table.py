#!/venv/bin/python
"""prints the markdown table of seeded changes for DESIGN.md section 6"""
import json, glob, os, re
rows = []
for d in sorted(glob.glob('/verif/seeded/*/')):
    m = json.load(open(d + 'meta.json'))
    diff = open(d + 'patch.diff').read()
    files = sorted(set(re.findall(r'^\+\+\+ b/(\S+)', diff, re.M)))
    need = ' '.join(m.get('needs_to_manifest', '').split())[:260]
    rows.append((os.path.basename(d.rstrip('/')), m['breaks_property'], ', '.join(files), need, ', '.join(m['detected_by']) or 'MISSED',
                 '; '.join(k for k in ('rebased', 'note') if k in m)))
print('| seed | property | file | what it is / what it needs to manifest | caught by |')
print('|---|---|---|---|---|')
for r in rows:
    print(f'| {r[0]} | {r[1]} | {r[2]} | {r[3]} | {r[4]} |')
