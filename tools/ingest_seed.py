#!/venv/bin/python
"""tools/ingest_seed.py <Cnn> [check ids ...]: confirm a seeded change produced in the scratch worktree /tmp/wt/<Cnn>
(diff applies, demonstration fails with it and passes without, the unedited suite still gives 204 passed), run the
given quick checks against it, store it as /verif/seeded/<Cnn>/ and remove the worktree."""
import sys, os, subprocess, json, shutil, re
seed = sys.argv[1]
prop = seed[:3]
checks = sys.argv[2:] or [prop]
wt = f'/tmp/wt/{seed}'
env = dict(os.environ, OMP_NUM_THREADS='1', MKL_NUM_THREADS='1')
diff = subprocess.run(['git', '-C', wt, 'diff', '--', 'lazy_dataset'], capture_output=True, text=True).stdout
if not diff.strip():
    sys.exit(f'{seed}: no source change in {wt}')
def run(cmd, **kw):
    return subprocess.run(cmd, capture_output=True, text=True, **kw)
demo = os.path.join(wt, 'demo.py')
a = run(['/venv/bin/python', demo, '/repo'], env=env, timeout=600).returncode
b = run(['/venv/bin/python', demo, wt], env=env, timeout=600)
print(f'demo: original rc={a}, changed rc={b.returncode}: {b.stdout.strip()[-300:]}')
env2 = {k: v for k, v in os.environ.items() if k not in ('OMP_NUM_THREADS', 'MKL_NUM_THREADS')}
# the demonstration is not part of the change: keep it out of pytest's doctest-module collection
os.makedirs('/tmp/wt/_aside', exist_ok=True)
shutil.move(demo, f'/tmp/wt/_aside/{seed}_demo.py')
demo = f'/tmp/wt/_aside/{seed}_demo.py'
t = run(['/venv/bin/python', '-m', 'pytest', '-q', '-p', 'no:cacheprovider', '--timeout=900', '--continue-on-collection-errors'], cwd=wt, env=env2, timeout=1800)
tail = t.stdout.strip().split('\n')[-1]
print('suite:', tail)
suite_ok = '204 passed' in tail and '29 failed' in tail
results = {}
for c in checks:
    r = run(['/verif/check', c, '--tier', 'quick'], env=dict(os.environ, VERIF_REPO=wt), timeout=1800)
    viol = [l for l in r.stdout.split('\n') if l.startswith('VIOLATION')]
    results[c] = dict(rc=r.returncode, caught=bool(r.returncode == 1 and viol), first=viol[0] if viol else r.stdout.strip().split('\n')[-1][:200])
    print(c, results[c])
    # keep one replay summary
    if viol:
        m = re.search(r'replay=(\S+)', viol[0])
        if m and os.path.exists(m.group(1)):
            results[c]['summary'] = json.load(open(m.group(1))).get('summary', '')[:400]
ok = a == 0 and b.returncode != 0 and suite_ok
dst = f'/verif/seeded/{seed}'
os.makedirs(dst, exist_ok=True)
# the diff is stored relative to the repository root (apply with: git -C /repo apply seeded/<id>/patch.diff)
open(os.path.join(dst, 'patch.diff'), 'w').write(diff)
shutil.copy(demo, os.path.join(dst, 'demo.py'))
notes = open(os.path.join(wt, 'NOTES.md')).read() if os.path.exists(os.path.join(wt, 'NOTES.md')) else ''
meta = dict(breaks_property=prop, needs_to_manifest=notes, confirmed=dict(demo_on_original_rc=a, demo_on_changed_rc=b.returncode, suite_tail=tail, valid=ok),
            checks_run={c: dict(caught=v['caught'], rc=v['rc'], line=v['first'], summary=v.get('summary', '')) for c, v in results.items()},
            detected_by=[c for c, v in results.items() if v['caught']],
            how_run='quick checks with VERIF_REPO pointing at the scratch worktree carrying the change (tools/ingest_seed.py); ./selftest re-applies patch.diff to a scratch copy')
json.dump(meta, open(os.path.join(dst, 'meta.json'), 'w'), indent=1)
print('VALID' if ok else 'INVALID (kept for the record only if valid)', 'detected_by', meta['detected_by'])
if not ok:
    shutil.rmtree(dst)
    print('worktree kept for inspection:', wt)
else:
    subprocess.run(['git', '-C', '/repo', 'worktree', 'remove', '--force', wt])
