#!/venv/bin/python
"""tools/retest_seed.py <seedid> <check> [<check>...]: re-run checks against seeded/<seedid>/patch.diff applied to a scratch
copy of /repo's library (outside /repo and /verif) and merge the outcome into seeded/<seedid>/meta.json (detected_by, checks_run)."""
import sys, os, json, subprocess, tempfile, shutil, re
V = os.path.dirname(os.path.dirname(os.path.abspath(__file__)))
sid, checks = sys.argv[1], sys.argv[2:]
d = os.path.join(V, 'seeded', sid)
meta = json.load(open(os.path.join(d, 'meta.json')))
tmp = tempfile.mkdtemp(prefix='retest_', dir='/tmp')
try:
    shutil.copytree('/repo/lazy_dataset', os.path.join(tmp, 'lazy_dataset'))
    subprocess.run(['patch', '-s', '-p1', '-i', os.path.join(d, 'patch.diff')], cwd=tmp, check=True)
    for c in checks:
        p = subprocess.run([os.path.join(V, 'check'), c, '--tier', 'quick'], env=dict(os.environ, VERIF_REPO=tmp), capture_output=True, text=True)
        lines = [l for l in p.stdout.splitlines() if l.startswith('VIOLATION')]
        caught = p.returncode == 1 and bool(lines) and lines[0].startswith(f'VIOLATION property={c}')
        summ = ''
        if lines:
            m = re.search(r'replay=(\S+)', lines[0])
            try:
                summ = json.load(open(m.group(1))).get('summary', '')[:400]
            except Exception:
                pass
        meta.setdefault('checks_run', {})[c] = dict(caught=caught, rc=p.returncode, line=(lines[0] if lines else (p.stdout.strip().splitlines() or ['(no output)'])[-1]), summary=summ)
        det = set(meta.get('detected_by', []))
        (det.add if caught else det.discard)(c)
        meta['detected_by'] = sorted(det)
        print(sid, c, 'caught' if caught else f'MISSED rc={p.returncode}', (lines[0] if lines else '')[-60:])
finally:
    shutil.rmtree(tmp, ignore_errors=True)
json.dump(meta, open(os.path.join(d, 'meta.json'), 'w'), indent=1)
