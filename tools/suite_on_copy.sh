#!/bin/bash
# tools/suite_on_copy.sh: run the pinned baseline suite on a scratch copy of /repo's working tree (tracked files) and
# compare the passing set with BASELINE.json's stable_pass; removes the copy.
set -e
tmp=$(mktemp -d /tmp/basecopy_XXXXXX)
cd /repo && git ls-files > $tmp.lst && rsync -a --files-from=$tmp.lst /repo/ $tmp/
cd $tmp && env -u OMP_NUM_THREADS -u MKL_NUM_THREADS /venv/bin/python -m pytest -q -p no:cacheprovider --timeout=900 --continue-on-collection-errors --junitxml=$tmp/j.xml 2>&1 | tail -1
J=$tmp/j.xml /venv/bin/python - <<'P'
import json, os, xml.etree.ElementTree as ET
b = json.load(open('/root/.vp/BASELINE.json'))
passed = set()
for tc in ET.parse(os.environ['J']).iter('testcase'):
    if not list(tc): passed.add(tc.get('classname') + '::' + tc.get('name'))
sp = set(b['stable_pass'])
print('stable_pass', len(sp), 'missing', len(sp - passed), sorted(sp - passed)[:5])
P
cd /; rm -rf $tmp $tmp.lst
