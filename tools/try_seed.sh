#!/bin/bash
# tools/try_seed.sh <seedid> <check> [tier]: apply seeded/<seedid>/patch.diff to a scratch copy, run one check against it, print the tail
cd "$(dirname "$0")/.."
id=$1; p=$2; tier=${3:-quick}
tmp=$(mktemp -d /tmp/tryseed_XXXXXX)
cp -r /repo/lazy_dataset $tmp/ && (cd $tmp && patch -s -p1 < /verif/seeded/$id/patch.diff) || { echo "PATCH FAILED"; rm -rf $tmp; exit 2; }
VERIF_REPO=$tmp ./check $p --tier $tier 2>&1 | grep -v conda | tail -${4:-6}
rm -rf $tmp
