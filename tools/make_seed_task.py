#!/venv/bin/python
"""tools/make_seed_task.py <suffix> [props...]: write /tmp/wt/TASK_<prop><suffix>.md for an independent mutation agent.
The task text contains ONLY the property text (properties.jsonl), the scratch worktree path and short descriptions of the
changes earlier agents already produced for that property (so that the new one differs) - nothing about the checks in /verif."""
import sys, os, json, glob
V = os.path.dirname(os.path.dirname(os.path.abspath(__file__)))
suffix = sys.argv[1]
props = {}
for l in open(os.path.join(V, 'properties.jsonl')):
    d = json.loads(l)
    props[d['id']] = d
want = sys.argv[2:] or sorted(props)
os.makedirs('/tmp/wt', exist_ok=True)
hint = os.environ.get('SEED_HINT', '')
hint = (hint + '\n') if hint else ''
for pid in want:
    p = props[pid]
    wt = f'/tmp/wt/{pid}{suffix}'
    anch = p.get('anchors', {})
    files = anch.get('files', []) if isinstance(anch, dict) else anch
    text = (f"{pid} - {p['title']}\n\nStatement: {p['statement']}\n\nQuantified over: {p.get('quantifier', {}).get('text', '')}\n\n"
            f"Code anchors: {', '.join(str(f) for f in files)}\n")
    earlier = []
    for sd in sorted(glob.glob(os.path.join(V, 'seeded', pid + '*'))):
        m = json.load(open(os.path.join(sd, 'meta.json')))
        earlier.append(' '.join(m.get('needs_to_manifest', '').split())[:900])
    prev = ''
    if earlier:
        prev = ('\nIMPORTANT: other engineers already produced the following changes for this property; yours must be DIFFERENT in kind and located in a '
                'different function / mechanism (ideally exercising a different clause of the property statement, a different module or class - e.g. one of the less prominent dataset classes, constructors or helper functions that the property also covers - or a different kind of input, history or parameter value):\n---\n'
                + '\n---\n'.join(earlier) + '\n---\n')
    body = f"""You are testing how well a verification harness detects subtle bugs. You get ONE semantic property of the Python library fgnt/lazy_dataset (a lazy dataset pipeline library: map/filter/slice/shuffle/batch/zip/cache combinators plus threaded/process prefetch) and your own scratch git worktree of the repository at {wt} (work ONLY inside that directory; never touch /repo or /verif - do not read, list or search anything under /verif either - and never run pytest or anything else with /repo as working directory (it would overwrite files there); do not run git commands other than `git -C {wt} diff` / `git -C {wt} status`).

The property:
---
{text}
{prev}
---

Your task: make ONE small, realistic change to the library source under {wt}/lazy_dataset/ (the kind of slip a maintainer could make in a refactoring: an off-by-one, a wrong comparison, a dropped branch, a swapped argument, a missing copy, state that leaks between calls, a changed default, an over-eager optimisation, ...) that BREAKS this property, while
  (a) the library still imports and the existing test suite still passes exactly as before: run `cd {wt} && env -u OMP_NUM_THREADS -u MKL_NUM_THREADS /venv/bin/python -m pytest -q -p no:cacheprovider --timeout=900 --continue-on-collection-errors 2>&1 | tail -5` - on the unchanged tree this prints `29 failed, 204 passed` (the 29 failures are environment-related and expected; they must stay the same 29 and the 204 must still pass); the suite includes doctests in the source files, so do not break a doctest;
  (b) the break needs something SPECIFIC to manifest - a particular interleaving, a fault at a particular point, a multi-step sequence of operations, an unusual input (empty / negative / duplicate / boundary values / unusual types), or two cooperating sites that each look fine alone - NOT something every ordinary use would expose at once.
Note: to run code that uses multi-worker prefetch / parallel map you must set `OMP_NUM_THREADS=1 MKL_NUM_THREADS=1` in the environment; to import your modified copy use `sys.path.insert(0, '{wt}')` and assert `lazy_dataset.__file__` starts with '{wt}'.

Deliver, inside {wt}:
  1. the source change itself (leave it applied in the worktree);
  2. `{wt}/demo.py`: a small self-contained program (put ALL of its logic, including any os.environ changes and imports of lazy_dataset, inside `def main()` guarded by `if __name__ == '__main__':` - the test suite's doctest collection imports every .py file in the tree, so an unguarded demo changes the suite result) (it inserts the repository root given as sys.argv[1] at sys.path[0], imports lazy_dataset from there) that exits 0 on the ORIGINAL code and exits 1 (printing what went wrong) on the CHANGED code; verify both: run it with `{wt}` (must fail) and with `/repo` (must pass; /repo is the unchanged library, read-only for you; run it from a cwd other than /repo with PYTHONDONTWRITEBYTECODE=1);
  3. `{wt}/NOTES.md`: 5-10 lines: what you changed, why it breaks the property, what exactly is needed for it to manifest, and the pytest tail line you observed with the change applied.
{hint}Spend your effort on making the change subtle and realistic rather than exotic. Final answer: a short summary (the diff, what it needs to manifest, demo results on both trees, pytest tail).
"""
    open(f'/tmp/wt/TASK_{pid}{suffix}.md', 'w').write(body)
    print('wrote', f'/tmp/wt/TASK_{pid}{suffix}.md', len(body))
