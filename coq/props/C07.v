(* C07 - Prefetch read-ahead is bounded by the buffer size: invariants over all schedules; the
   bounds do not mention the dataset length. *)
From Coq Require Import List Arith Bool Lia.
Require LD.PrefetchST LD.PrefetchSTSafety LD.Pool LD.PoolSafety.

Theorem C07_st_readahead : forall B K cb, 1 <= B -> forall src0 s,
  PrefetchST.reach B K cb (PrefetchST.init src0) s ->
  PrefetchST.pulled s <= length (PrefetchST.delivered s) + B + 2.
Proof. exact PrefetchSTSafety.st_readahead. Qed.
Print Assumptions C07_st_readahead.

(* futures not yet taken by the consumer (= applications started or startable beyond those delivered) *)
Theorem C07_pool_started : forall B W K fn src0, 1 <= B -> 1 <= W -> forall s,
  Pool.reach B W K fn (Pool.init src0) s -> length (Pool.tasks s) - Pool.qh s <= B.
Proof. exact PoolSafety.pool_started_bound. Qed.
Print Assumptions C07_pool_started.

Theorem C07_pool_pulled : forall B W K fn src0, 1 <= B -> 1 <= W -> forall s,
  Pool.reach B W K fn (Pool.init src0) s -> Pool.pulled s <= length (Pool.tasks s) + 1.
Proof. exact PoolSafety.pool_pulled_bound. Qed.
Print Assumptions C07_pool_pulled.

(* the bound B + 2 is attained (B = 1: one in the consumer's hand, one queued, one in the worker's hand) *)
Example C07_st_readahead_tight :
  let s := PrefetchST.run 1 None true (PrefetchST.init (PrefetchST.SOk 1 :: PrefetchST.SOk 2 :: PrefetchST.SOk 3 :: nil))
             (PrefetchST.TC :: PrefetchST.TW :: PrefetchST.TW :: PrefetchST.TW :: PrefetchST.TW :: PrefetchST.TC ::
              PrefetchST.TW :: PrefetchST.TW :: PrefetchST.TW :: PrefetchST.TW :: PrefetchST.TW :: PrefetchST.TW :: nil) in
  PrefetchST.pulled s = length (PrefetchST.delivered s) + 1 + 2.
Proof. vm_compute. reflexivity. Qed.
