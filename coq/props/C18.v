(* C18 - Sorting and grouping reorder without losing or inventing examples.
   sort(key_fn) computes `sort_order` from the KEY VALUES ONLY (its type is list skey -> bool -> list nat: the
   examples themselves are never compared) and then selects by position (SliceDataset), so keys stay attached
   to their examples by C03. *)
From Coq Require Import String List Arith ZArith Permutation Sorted.
Require Import LD.Base LD.PySlice LD.Pipeline LD.Build LD.BuildExtra LD.SortProofs.
Import ListNotations.
Local Open Scope nat_scope.

Theorem C18_sort_is_permutation : forall vals rev, Permutation (sort_order vals rev) (seq 0 (length vals)).
Proof. exact sort_order_perm. Qed.
Print Assumptions C18_sort_is_permutation.

Theorem C18_sort_keys_nondecreasing : forall vals, homogeneous vals = true ->
  StronglySorted skey_le (map (fun i => nth i vals (KInt 0)) (sort_order vals false)).
Proof. exact sort_order_sorted. Qed.
Print Assumptions C18_sort_keys_nondecreasing.

Theorem C18_sort_keys_nonincreasing_with_reverse : forall vals, homogeneous vals = true ->
  StronglySorted (fun a b => skey_le b a) (map (fun i => nth i vals (KInt 0)) (sort_order vals true)).
Proof. exact sort_order_sorted_rev. Qed.
Print Assumptions C18_sort_keys_nonincreasing_with_reverse.

(* ties are decided by position (the sort is on (key, position)), so the result is unique *)
Theorem C18_sort_ties_by_position : forall vals, homogeneous vals = true ->
  forall i j, i < j -> j < length vals ->
  skey_cmp (nth i vals (KInt 0)) (nth j vals (KInt 0)) = Some Eq ->
  before i j (sort_order vals false) /\ before j i (sort_order vals true).
Proof. exact sort_order_ties. Qed.
Print Assumptions C18_sort_ties_by_position.

(* without a key function the example keys are the sort keys, reverse included (F5, fixed by 6b34c15) *)
Theorem C18_sort_by_example_keys : forall p d ks rev d',
  build p = Ok d -> keys_ d = Ok ks -> build (PSort None rev p) = Ok d' ->
  exists ks', keys_ d' = Ok ks' /\ Permutation ks' ks /\
              StronglySorted (fun a b => if rev then String.leb b a = true else String.leb a b = true) ks'.
Proof. exact sort_none_keys. Qed.
Print Assumptions C18_sort_by_example_keys.

(* groupby: the groups partition the positions, ascending inside a group, each position in the group of its id *)
Theorem C18_groupby_partition : forall ids,
  let gs := group_positions ids in
  Permutation (concat (map snd gs)) (seq 0 (length ids)) /\
  NoDup (map fst gs) /\
  Forall (fun g => StronglySorted lt (snd g) /\
                   Forall (fun i => skey_eqb (nth i ids (KInt 0)) (fst g) = true) (snd g)) gs.
Proof. exact group_positions_partition. Qed.
Print Assumptions C18_groupby_partition.

Theorem C18_groupby_member : forall ids i, i < length ids ->
  exists l, In (nth i ids (KInt 0), l) (group_positions ids) /\ In i l.
Proof. exact group_positions_member. Qed.
Print Assumptions C18_groupby_member.
