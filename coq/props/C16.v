(* C16 - Combinators obey their algebraic laws.  Each law is an equality of eager references (tbl); by
   C16_same_reference_same_observations (which rests on tbl_agrees) two well-formed descriptors with the same
   reference are observationally equal: same iteration, same length, same element at every integer index. *)
From Coq Require Import String List Arith ZArith Sorted.
Require Import LD.Base LD.PySlice LD.Pipeline LD.Build LD.BuildExtra LD.Ref LD.Laws LD.Laws2 LD.SplitProofs.
Import ListNotations.

Theorem C16_same_reference_same_observations : forall d1 d2 t,
  wfb d1 = true -> wfb d2 = true -> tbl d1 = Some t -> tbl d2 = Some t ->
  iter_ false d1 = iter_ false d2 /\
  (forall m1 m2, len_ d1 = Ok m1 -> len_ d2 = Ok m2 -> m1 = m2) /\
  (indexable d1 = true -> ikeyed d1 = true -> indexable d2 = true -> ikeyed d2 = true ->
     len_ d1 = len_ d2 /\ forall i, get_i d1 i = get_i d2 i).
Proof. exact same_tbl_same_obs. Qed.
Print Assumptions C16_same_reference_same_observations.

Theorem C16_batch_unbatch : forall d t n drop, (1 <= n)%nat -> tbl d = Some t -> drop = false ->
  tbl (DUnbatch (DBatch n drop d)) = Some (nokey (vals t)).
Proof. exact law_batch_unbatch. Qed.
Print Assumptions C16_batch_unbatch.

Theorem C16_concat_split : forall d t k,
  wfb d = true -> tbl d = Some t -> ixok d = true -> (1 <= k <= Z.of_nat (length t))%Z ->
  exists shards ts, split_all k d = Ok shards /\ length shards = Z.to_nat k /\
    Forall2 (fun s ts => wfb s = true /\ tbl s = Some ts) shards ts /\ concat ts = t /\
    tbl (DConcat shards) = Some t.
Proof. exact shards_reassemble. Qed.
Print Assumptions C16_concat_split.

Theorem C16_slice_is_list_slice : forall (A : Type) (l : list A) a b c idx, c <> 0%Z ->
  slice_indices (length l) a b (Some c) = Ok idx -> select idx l = Some (py_list_slice l a b c).
Proof. exact @slice_is_list_slice. Qed.
Print Assumptions C16_slice_is_list_slice.

Theorem C16_nested_slices : forall d t a1 b1 c1 a2 b2 c2 i1 i2,
  ixok d = true -> tbl d = Some t -> c1 <> 0%Z -> c2 <> 0%Z ->
  slice_indices (length t) a1 b1 (Some c1) = Ok i1 -> slice_indices (length i1) a2 b2 (Some c2) = Ok i2 ->
  tbl (DSlice i2 (DSlice i1 d)) = Some (py_list_slice (py_list_slice t a1 b1 c1) a2 b2 c2).
Proof. exact law_nested_slices. Qed.
Print Assumptions C16_nested_slices.

Theorem C16_map_map : forall f g d, tbl (DMap g (DMap f d)) = tbl (DMap (fun v => bind (f v) g) d).
Proof. exact law_map_map. Qed.
Theorem C16_map_slice : forall f idx d t, ixok d = true ->
  tbl (DSlice idx (DMap f d)) = Some t -> tbl (DMap f (DSlice idx d)) = Some t.
Proof. exact law_map_slice. Qed.
Theorem C16_map_concat : forall f l, tbl (DMap f (DConcat l)) = tbl (DConcat (map (DMap f) l)).
Proof. exact law_map_concat. Qed.
Theorem C16_map_batch : forall f n drop d t,
  tbl (DBatch n drop (DMap f d)) = Some t -> tbl (DMap (batch_map_fn f) (DBatch n drop d)) = Some t.
Proof. exact law_map_batch. Qed.
Theorem C16_map_cache : forall f d, tbl (DCache (DMap f d)) = tbl (DMap f (DCache d)).
Proof. exact law_map_cache_strong. Qed.
Theorem C16_tile : forall d t r, tbl d = Some t -> tbl (DConcat (repeat d r)) = Some (concat (repeat t r)).
Proof. exact law_tile. Qed.
Theorem C16_filter_select : forall p idx (t t1 : tab), select idx t = Some t1 -> StronglySorted lt idx ->
  forall tf, filter_rows p t = Some tf -> exists tf1, filter_rows p t1 = Some tf1 /\
     exists idx', StronglySorted lt idx' /\ select idx' tf = Some tf1.
Proof. exact law_filter_select. Qed.
Print Assumptions C16_map_map.
Print Assumptions C16_map_slice.
Print Assumptions C16_map_concat.
Print Assumptions C16_map_batch.
Print Assumptions C16_map_cache.
Print Assumptions C16_tile.
Print Assumptions C16_filter_select.

(* ---- round 14 (Laws2.v): filters compose, filter distributes over concatenation, nested concatenations flatten,
   arbitrary integer-array selections compose, the identity selection ---- *)
Theorem C16_filter_filter : forall q p d,
  tbl (DFilter p (DFilter q d)) = tbl (DFilter (and_then q p) d).
Proof. exact law_filter_filter. Qed.
Theorem C16_filter_concat : forall p l, tbl (DFilter p (DConcat l)) = tbl (DConcat (map (DFilter p) l)).
Proof. exact law_filter_concat. Qed.
Theorem C16_concat_single : forall d, tbl (DConcat [d]) = tbl d.
Proof. exact law_concat_single. Qed.
Theorem C16_concat_flatten : forall l1 l2 l3,
  tbl (DConcat (l1 ++ DConcat l2 :: l3)) = tbl (DConcat (l1 ++ l2 ++ l3)).
Proof. exact law_concat_flatten. Qed.
Theorem C16_slice_slice : forall i j jj d t1,
  tbl (DSlice j d) = Some t1 -> select i j = Some jj ->
  tbl (DSlice i (DSlice j d)) = tbl (DSlice jj d).
Proof. exact law_slice_slice. Qed.
Theorem C16_slice_slice_range : forall i j d t1,
  tbl (DSlice j d) = Some t1 -> select i j = None -> tbl (DSlice i (DSlice j d)) = None.
Proof. exact law_slice_slice_range. Qed.
Theorem C16_slice_all : forall d t, ixok d = true -> tbl d = Some t ->
  tbl (DSlice (seq 0 (length t)) d) = Some t.
Proof. exact law_slice_all. Qed.
Theorem C16_unbatch_concat : forall l, tbl (DUnbatch (DConcat l)) = tbl (DConcat (map DUnbatch l)).
Proof. exact law_unbatch_concat. Qed.
Print Assumptions C16_unbatch_concat.
Print Assumptions C16_filter_filter.
Print Assumptions C16_filter_concat.
Print Assumptions C16_concat_single.
Print Assumptions C16_concat_flatten.
Print Assumptions C16_slice_slice.
Print Assumptions C16_slice_slice_range.
Print Assumptions C16_slice_all.

(* non-vacuity: the premises of the selection laws are met by a concrete pipeline *)
Example C16_slice_slice_inhabited :
  tbl (DSlice [2; 0; 2]%nat (DList [VInt 5; VInt 6; VInt 7])) <> None /\ select [1; 1; 0]%nat [2; 0; 2]%nat = Some [0; 0; 2]%nat
  /\ tbl (DSlice [1; 1; 0]%nat (DSlice [2; 0; 2]%nat (DList [VInt 5; VInt 6; VInt 7])))
     = Some (nokey [VInt 5; VInt 5; VInt 7]).
Proof. vm_compute. repeat split; discriminate. Qed.
