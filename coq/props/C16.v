(* C16 - Combinators obey their algebraic laws.  Each law is an equality of eager references (tbl); by
   C16_same_reference_same_observations (which rests on tbl_agrees) two well-formed descriptors with the same
   reference are observationally equal: same iteration, same length, same element at every integer index. *)
From Coq Require Import String List Arith ZArith Sorted.
Require Import LD.Base LD.PySlice LD.Pipeline LD.Build LD.BuildExtra LD.Ref LD.Laws LD.SplitProofs.
Import ListNotations.

Theorem C16_same_reference_same_observations : forall d1 d2 t,
  wfb d1 = true -> wfb d2 = true -> tbl d1 = Some t -> tbl d2 = Some t ->
  iter_ false d1 = iter_ false d2 /\
  (forall m1 m2, len_ d1 = Ok m1 -> len_ d2 = Ok m2 -> m1 = m2) /\
  (indexable d1 = true -> ikeyed d1 = true -> indexable d2 = true -> ikeyed d2 = true ->
     len_ d1 = len_ d2 /\ forall i, get_i d1 i = get_i d2 i).
Proof. exact same_tbl_same_obs. Qed.
Print Assumptions C16_same_reference_same_observations.

Theorem C16_batch_unbatch : forall d t n drop, (1 <= n)%nat -> tbl d = Some t -> drop = false ->
  tbl (DUnbatch (DBatch n drop d)) = Some (nokey (vals t)).
Proof. exact law_batch_unbatch. Qed.
Print Assumptions C16_batch_unbatch.

Theorem C16_concat_split : forall d t k,
  wfb d = true -> tbl d = Some t -> ixok d = true -> (1 <= k <= Z.of_nat (length t))%Z ->
  exists shards ts, split_all k d = Ok shards /\ length shards = Z.to_nat k /\
    Forall2 (fun s ts => wfb s = true /\ tbl s = Some ts) shards ts /\ concat ts = t /\
    tbl (DConcat shards) = Some t.
Proof. exact shards_reassemble. Qed.
Print Assumptions C16_concat_split.

Theorem C16_slice_is_list_slice : forall (A : Type) (l : list A) a b c idx, c <> 0%Z ->
  slice_indices (length l) a b (Some c) = Ok idx -> select idx l = Some (py_list_slice l a b c).
Proof. exact @slice_is_list_slice. Qed.
Print Assumptions C16_slice_is_list_slice.

Theorem C16_nested_slices : forall d t a1 b1 c1 a2 b2 c2 i1 i2,
  ixok d = true -> tbl d = Some t -> c1 <> 0%Z -> c2 <> 0%Z ->
  slice_indices (length t) a1 b1 (Some c1) = Ok i1 -> slice_indices (length i1) a2 b2 (Some c2) = Ok i2 ->
  tbl (DSlice i2 (DSlice i1 d)) = Some (py_list_slice (py_list_slice t a1 b1 c1) a2 b2 c2).
Proof. exact law_nested_slices. Qed.
Print Assumptions C16_nested_slices.

Theorem C16_map_map : forall f g d, tbl (DMap g (DMap f d)) = tbl (DMap (fun v => bind (f v) g) d).
Proof. exact law_map_map. Qed.
Theorem C16_map_slice : forall f idx d t, ixok d = true ->
  tbl (DSlice idx (DMap f d)) = Some t -> tbl (DMap f (DSlice idx d)) = Some t.
Proof. exact law_map_slice. Qed.
Theorem C16_map_concat : forall f l, tbl (DMap f (DConcat l)) = tbl (DConcat (map (DMap f) l)).
Proof. exact law_map_concat. Qed.
Theorem C16_map_batch : forall f n drop d t,
  tbl (DBatch n drop (DMap f d)) = Some t -> tbl (DMap (batch_map_fn f) (DBatch n drop d)) = Some t.
Proof. exact law_map_batch. Qed.
Theorem C16_map_cache : forall f d, tbl (DCache (DMap f d)) = tbl (DMap f (DCache d)).
Proof. exact law_map_cache_strong. Qed.
Theorem C16_tile : forall d t r, tbl d = Some t -> tbl (DConcat (repeat d r)) = Some (concat (repeat t r)).
Proof. exact law_tile. Qed.
Theorem C16_filter_select : forall p idx (t t1 : tab), select idx t = Some t1 -> StronglySorted lt idx ->
  forall tf, filter_rows p t = Some tf -> exists tf1, filter_rows p t1 = Some tf1 /\
     exists idx', StronglySorted lt idx' /\ select idx' tf = Some tf1.
Proof. exact law_filter_select. Qed.
Print Assumptions C16_map_map.
Print Assumptions C16_map_slice.
Print Assumptions C16_map_concat.
Print Assumptions C16_map_batch.
Print Assumptions C16_map_cache.
Print Assumptions C16_tile.
Print Assumptions C16_filter_select.
