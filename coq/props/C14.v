(* C14 - Exception-based filtering drops exactly the failing examples. *)
From Coq Require Import String List Arith ZArith.
Require Import LD.Base LD.PySlice LD.Pipeline LD.Build LD.Ref LD.CatchProofs.
Import ListNotations.
Open Scope Z_scope.

(* drop_selected is the specification (CatchProofs.v): outcomes whose exception is selected BY SUBCLASS are
   dropped, values stay in order, the first non-selected exception ends the stream with exactly that exception *)
Theorem C14_catch_exact : forall d E n, len_ d = Ok n ->
  iter_ false (DCatch E d) = drop_selected E (map (get_i d) (zseq n)).
Proof. exact catch_exact. Qed.
Print Assumptions C14_catch_exact.

Theorem C14_catch_exact_keys : forall d E ks, keys_ d = Ok ks ->
  iter_ true (DCatch E d) = drop_selected E (map (fun k => keyed k (get_k d k)) ks).
Proof. exact catch_exact_keys. Qed.
Print Assumptions C14_catch_exact_keys.

Theorem C14_prefetch_catch_exact : forall d E w b n, len_ d = Ok n ->
  iter_ false (DPrefetch w b (Some E) d) = drop_selected E (map (get_i d) (zseq n)).
Proof. exact prefetch_catch_exact. Qed.
Print Assumptions C14_prefetch_catch_exact.

(* the shape of the specification: either nothing stops the stream, or the first non-selected error does *)
Theorem C14_spec_first_other_error : forall E l1 e l2,
  Forall (fun r => is_stop E r = false) l1 -> selected E e = false ->
  drop_selected E (l1 ++ Err e :: l2) = (oks l1, Raised e).
Proof. exact drop_selected_first. Qed.
Print Assumptions C14_spec_first_other_error.

(* wherever in the upstream chain the exception originates: per-position outcomes compose *)
Theorem C14_outcome_map : forall f d i, get_i (DMap f d) i = bind (get_i d i) f.
Proof. exact outcome_map. Qed.
Theorem C14_outcome_slice : forall idx d i, get_i (DSlice idx d) i = (do j <- py_nth idx i; get_i d (Z.of_nat j)).
Proof. exact outcome_slice. Qed.
Theorem C14_selected_subclass : forall E e c, In c E -> isa (ecl e) c = true -> selected E e = true.
Proof. exact selected_subclass. Qed.
Theorem C14_items_not_defined_escapes : forall E,
  Forall (fun c => isa c EException = true) E -> selected E (lib EItemsNDBase) = false.
Proof. exact items_not_defined_escapes. Qed.

(* lazy filter, eager filter and raising FilterException under catch select the same examples *)
Theorem C14_three_filters_agree : forall d t p tag t',
  wfb d = true -> tbl d = Some t -> ixok d = true -> filter_rows p t = Some t' ->
  iter_ false (DFilter p d) = (vals t', End) /\
  iter_ false (DCatch [EFilter] (DMap (raise_unless p tag) d)) = (vals t', End) /\
  exists idx, positions_where p (vals t) = Ok idx /\
  exists d', mk_slice (SlInts idx) d = Ok d' /\ iter_ false d' = (vals t', End).
Proof. exact three_filters_agree. Qed.
Print Assumptions C14_three_filters_agree.
