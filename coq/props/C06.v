(* C06 - Errors in background work surface at the right position, never swallowed.
   cb = true is the code after the `fix:` commit 5dadab2 (the worker catches BaseException); the
   refutation witness for the originally pinned code (cb = false) is kept as a theorem. *)
From Coq Require Import List Arith Bool.
Require LD.PrefetchST LD.PrefetchSTOutcome LD.Pool LD.PoolOutcome LD.PoolSafety.

Theorem C06_st_error_position : forall B, 1 <= B -> forall src0 s,
  PrefetchST.reach B None true (PrefetchST.init src0) s -> PrefetchST.cp s = PrefetchST.CEnd ->
  PrefetchST.delivered s = PrefetchST.oks_before src0 /\
  match PrefetchSTOutcome.first_fail src0 with
  | Some (_, t) => PrefetchST.exc s = Some t         (* that same exception is re-raised *)
  | None => PrefetchST.exc s = None
  end.
Proof.
  intros B HB src0 s R E.
  destruct (PrefetchSTOutcome.st_exhaust_outcome B true HB src0 s R E) as (D & _ & O).
  split; [exact D|]. destruct (PrefetchSTOutcome.first_fail src0) as [[ie t]|].
  - rewrite orb_true_r in O. exact (proj1 O).
  - exact (proj1 O).
Qed.
Print Assumptions C06_st_error_position.

(* finding F8 (fixed by 5dadab2): with `except Exception` a BaseException ended the stream silently *)
Theorem C06_st_base_exception_swallowed_before_fix :
  exists s, PrefetchST.reach 1 None false (PrefetchST.init (PrefetchST.SOk 1 :: PrefetchST.SFail false 7 :: nil)) s /\
            PrefetchST.cp s = PrefetchST.CEnd /\ PrefetchST.exc s = None /\ PrefetchST.delivered s = 1 :: nil.
Proof. exact PrefetchSTOutcome.st_base_exception_swallowed. Qed.
Print Assumptions C06_st_base_exception_swallowed_before_fix.

(* pool: results up to the first failing application, then that failure; a failure of the
   (foreground) source surfaces at once, after the results handed out while the buffer filled *)
Theorem C06_pool_error_position : forall B W fn, 1 <= B -> 1 <= W -> forall src0 s h,
  Pool.reach B W None fn (Pool.init src0) s -> Pool.pc s = Pool.PEnd h ->
  (Pool.delivered s, h) = PoolOutcome.pool_spec fn B src0.
Proof. exact PoolOutcome.pool_exhaust_outcome. Qed.
Print Assumptions C06_pool_error_position.
