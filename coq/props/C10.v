(* C10 - Memory cache is transparent, computes each example once, and freezes it.
   Cache.v models CacheDataset over ALL access histories (index of either sign, iteration, copies sharing the
   cache, any memory oracle); `up j c` is what the c-th evaluation of example j returns, so "freshly random"
   upstream pipelines are covered.  Key lookups and slices are sequences of MGet (see the tie). *)
From Coq Require Import List Arith ZArith Bool.
Require Import LD.Cache LD.CacheProofs.
Import ListNotations.

(* while memory permits: every access returns the FIRST computed value, the upstream runs at most once per example *)
Theorem C10_once_while_memory_permits : forall (V : Type) n (up : nat -> nat -> V) limited m ops s outs,
  mem_fine V limited (minit V n m) -> mrun V n up limited (minit V n m) ops = (s, outs) ->
  (forall j, nth j (calls V s) 0 <= 1) /\
  (forall j, nth j (calls V s) 0 = 1 -> lookup V j (cache V s) = Some (up j 0)) /\
  Forall2 (out_first V n up) ops outs.
Proof. exact once_while_memory_permits. Qed.
Print Assumptions C10_once_while_memory_permits.

(* any memory oracle: once cached, frozen forever (never removed, never overwritten), for every later history *)
Theorem C10_cache_frozen : forall (V : Type) n (up : nat -> nat -> V) limited ops s j v,
  lookup V j (cache V s) = Some v -> lookup V j (cache V (fst (mrun V n up limited s ops))) = Some v.
Proof. exact cache_frozen_run. Qed.
Print Assumptions C10_cache_frozen.

(* a cached example is served unchanged through ANY handle (copies share the cache), by an index of either sign,
   without touching the upstream: the whole state, call counters included, is unchanged *)
Theorem C10_hits_return_cached : forall (V : Type) n (up : nat -> nat -> V) limited s h z j v,
  lookup V j (cache V s) = Some v -> norm n z = Some j -> h < length (latches V s) ->
  mstep V n up limited s (MGet h z) = (s, MVal V v).
Proof. exact hits_return_cached. Qed.
Print Assumptions C10_hits_return_cached.

(* any memory oracle: every returned value is one the pipeline produces for that example *)
Theorem C10_results_are_upstream : forall (V : Type) n (up : nat -> nat -> V) limited s h z s' v,
  reachable V n up limited s -> mstep V n up limited s (MGet h z) = (s', MVal V v) ->
  exists j c, norm n z = Some j /\ v = up j c.
Proof. intros V n up limited s h z s' v R. apply (results_are_upstream V n up limited). exact (reachable_inv V n up limited s R). Qed.
Print Assumptions C10_results_are_upstream.

(* after the threshold is crossed (or while the oracle says "low") nothing more is cached; a latch never resets *)
Theorem C10_low_memory_no_growth : forall (V : Type) (up : nat -> nat -> V) limited, limited = true ->
  forall s h j, (nth h (latches V s) true = false \/ exists r, mem V s = false :: r) ->
  cache V (fst (get1 V up limited s h j)) = cache V s.
Proof. exact low_memory_no_growth. Qed.
Print Assumptions C10_low_memory_no_growth.

Theorem C10_iteration_is_indexing : forall (V : Type) n (up : nat -> nat -> V) limited s h,
  h < length (latches V s) ->
  exists s' vs, mstep V n up limited s (MIter h) = (s', MVals V vs) /\
    mrun V n up limited s (map (fun j => MGet h (Z.of_nat j)) (seq 0 n)) = (s', map (MVal V) vs).
Proof. exact iter_is_gets. Qed.
Print Assumptions C10_iteration_is_indexing.
