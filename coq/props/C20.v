(* C20 - The profiling wrapper is transparent and counts truthfully.
   The hit count ProfilingDataset reports for a node is the number of `Fetch id` events of Model B (a node handing
   an element to its consumer), failed fetches are `Fail id` events; the tie validates exactly this identification
   against the real counters of every node after k next() calls and after ds[i].  Transparency is immediate in the
   model (events do not influence values) and is measured on the implementation by the tie. *)
From Coq Require Import List Arith Bool.
Require Import LD.Base LD.Trace LD.TraceProofs.
Import ListNotations.
Local Open Scope nat_scope.

(* over a full iteration every node hands over exactly as many elements as it yields *)
Theorem C20_hits_equal_yielded : forall d id d', lwf d -> iter_only d = true -> NoDup (ids_of d) -> sub id d = Some d' ->
  fetches_of id (all_events (iter_s d)) = length (lref d').
Proof. exact fetch_count_full. Qed.
Print Assumptions C20_hits_equal_yielded.

(* after consuming k results the root reports min(k, len) hits *)
Theorem C20_root_hits_after_k : forall d k, lwf d -> ~ In (root_id d) (tl (ids_of d)) ->
  fetches_of (root_id d) (events_upto k (iter_s d)) = Nat.min k (length (lref d)).
Proof. exact fetch_count_prefix. Qed.
Print Assumptions C20_root_hits_after_k.

(* pure iteration never produces a failed fetch (they arise only from index probing past the end) *)
Theorem C20_no_failed_fetch_in_iteration : forall d, iter_only d = true -> forall id, fails_of id (all_events (iter_s d)) = 0.
Proof. exact no_fail_in_iteration. Qed.
Print Assumptions C20_no_failed_fetch_in_iteration.

(* the wrapper cannot change values: they are a function of the pipeline alone *)
Theorem C20_values_unaffected : forall d, lwf d -> values (iter_s d) = lref d.
Proof. exact values_ref. Qed.
Print Assumptions C20_values_unaffected.
