(* C11 - Disk cache is reused exactly and cleared exactly when asked.  Cache.v (Section Disk): one directory
   that survives DKill (process death at ANY point between two steps), reference-counted wrappers. *)
From Coq Require Import List Arith ZArith Bool.
Require Import LD.Cache LD.CacheProofs.
Import ListNotations.

Theorem C11_never_misplaced : forall (V : Type) n (up : nat -> V) s c j v,
  dreach V n up s -> dir V s = Some c -> dlookup V j c = Some v -> v = up j /\ j < n.
Proof. exact disk_dir_sound. Qed.
Print Assumptions C11_never_misplaced.

Theorem C11_values : forall (V : Type) n (up : nat -> V) s h z s' v,
  dreach V n up s -> dstep V n up s (DGet h z) = (s', DVal V v) -> exists j, dnorm n z = Some j /\ v = up j.
Proof. exact disk_values. Qed.
Print Assumptions C11_values.

(* a stored example is served without recomputation (state, call counters included, unchanged) ... *)
Theorem C11_reuse_no_recompute : forall (V : Type) n (up : nat -> V) s h z c j v,
  dir V s = Some c -> dlookup V j c = Some v -> dnorm n z = Some j -> wrapper_of V s h <> None ->
  dstep V n up s (DGet h z) = (s, DVal V v).
Proof. exact reuse_no_recompute. Qed.
Print Assumptions C11_reuse_no_recompute.

(* ... also after the writing process was killed at any point, and after reopening with reuse=True *)
Theorem C11_survives_kill : forall (V : Type) n (up : nat -> V) s c j v,
  dir V s = Some c -> dlookup V j c = Some v ->
  dir V (fst (dstep V n up s DKill)) = Some c /\ dcalls V (fst (dstep V n up s DKill)) = repeat 0 n.
Proof. exact stored_survives_kill. Qed.
Print Assumptions C11_survives_kill.

Theorem C11_reopen_reuse : forall (V : Type) n (up : nat -> V) s clear c, dir V s = Some c ->
  exists h, snd (dstep V n up s (DOpen true clear)) = DNew V h /\
            dir V (fst (dstep V n up s (DOpen true clear))) = Some c /\
            dcalls V (fst (dstep V n up s (DOpen true clear))) = dcalls V s /\
            wrapper_of V (fst (dstep V n up s (DOpen true clear))) h = Some (length (wrappers V s), mkW clear 1 true).
Proof. exact open_reuse. Qed.
Print Assumptions C11_reopen_reuse.

Theorem C11_refuse_nonempty : forall (V : Type) n (up : nat -> V) s clear,
  dir V s <> None -> dstep V n up s (DOpen false clear) = (s, DRefused V).
Proof. exact refuse_nonempty. Qed.
Print Assumptions C11_refuse_nonempty.

(* the directory is removed exactly when the LAST dataset sharing the cache is released and clear=True *)
Theorem C11_removed_iff_last_and_clear : forall (V : Type) n (up : nat -> V) s h w wr,
  dreach V n up s -> wrapper_of V s h = Some (w, wr) -> dir V s <> None ->
  (dir V (fst (dstep V n up s (DRelease h))) = None <-> hcount w (handles V s) = 1 /\ w_clear wr = true).
Proof. exact removed_iff_last_and_clear. Qed.
Print Assumptions C11_removed_iff_last_and_clear.
