(* C17 - Dynamic bucketing conserves examples and honours its limits.
   Bucket.v models DynamicBucketDataset.__iter__ generically in the bucket class; ts_run instantiates it
   with DynamicTimeSeriesBucket over exact rationals (the tie runs the real class on Fractions). *)
From Coq Require Import List Arith Bool Permutation Sorted QArith.
Import ListNotations.
Require Import LD.Bucket LD.BucketProofs.
Local Close Scope Q_scope.

(* everything at once for the time-series bucket: the run never trips the assertion in maybe_append, every input
   example leaves in exactly one batch (emitted or, with drop_incomplete, dropped), at every hand-over at most
   max_buffered_examples consumed examples are withheld, and every emitted batch is non-empty, has at most
   batch_size examples, satisfies the padding-rate bound and (if it has more than one example) max_total_size *)
Theorem C17_time_series_bucket : forall batch_size rate mts expiration max_buffered drop sortmode xs,
  1 <= batch_size -> (0 <= rate)%Q -> (rate < 1)%Q ->
  exists evs,
    ts_run batch_size rate mts expiration max_buffered drop sortmode xs = Some evs /\
    Permutation (payloads tex (map fst evs)) xs /\
    (forall M, max_buffered = Some M -> Forall (fun ev => snd ev <= M) evs) /\
    (Forall (fun x => (0 <= snd x)%Q) xs ->
     forall l, In l (emitted tex (map fst evs)) ->
       (l <> [] /\ length l <= batch_size) /\
       (forall m m', In m l -> In m' l -> (snd m' * (1 - rate) <= snd m)%Q) /\
       (forall mx, mts = Some mx -> 1 < length l -> forall m, In m l -> (qlen (length l) * snd m <= mx)%Q)).
Proof. exact ts_run_spec. Qed.
Print Assumptions C17_time_series_bucket.

(* generic in the bucket class (any class obeying the two data laws, any sort that permutes): *)
Section Generic.
  Variables (ex bucket : Type) (bdata : bucket -> list ex) (binit : ex -> bucket)
            (bappend : bucket -> ex -> option bucket) (bcomplete : bucket -> bool)
            (expiration max_buffered : option nat) (drop : bool) (srt : list ex -> list ex).
  Hypothesis binit_data : forall x, bdata (binit x) = [x].
  Hypothesis bappend_data : forall b x b', bappend b x = Some b' -> bdata b' = bdata b ++ [x].
  Hypothesis srt_perm : forall l, Permutation (srt l) l.
  Notation run := (run ex bucket bdata binit bappend bcomplete expiration max_buffered drop srt).
  Notation step := (step ex bucket bdata binit bappend bcomplete expiration max_buffered drop srt).

  Theorem C17_never_asserts : forall xs, run [] 0 xs <> None.
  Proof. exact (never_asserts0 ex bucket bdata binit bappend bcomplete expiration max_buffered drop srt binit_data bappend_data srt_perm). Qed.

  Theorem C17_conservation_keep : forall xs os, drop = false -> run [] 0 xs = Some os ->
    dropped ex os = [] /\ Permutation (concat (emitted ex os)) xs.
  Proof. exact (conservation_keep ex bucket bdata binit bappend bcomplete expiration max_buffered drop srt binit_data bappend_data srt_perm). Qed.

  Theorem C17_conservation_drop : forall xs os, drop = true -> run [] 0 xs = Some os ->
    (forall l, ~ In (Emit ex false l) os) /\ Permutation (concat (emitted ex os) ++ concat (dropped ex os)) xs.
  Proof. exact (conservation_drop ex bucket bdata binit bappend bcomplete expiration max_buffered drop srt binit_data bappend_data srt_perm). Qed.

  (* exactly the batches that never completed are dropped / flushed: an output is marked completed iff its bucket was *)
  Theorem C17_release_kinds : forall xs os, run [] 0 xs = Some os ->
    Forall (fun o => exists b, Permutation (payload ex o) (bdata b) /\ bdata b <> [] /\
                     bcomplete b = match o with Emit _ c _ => c | Drop _ _ => false end) os.
  Proof.
    intros xs os H.
    exact (release_kinds ex bucket bdata binit bappend bcomplete expiration max_buffered drop srt binit_data bappend_data srt_perm
                         xs [] 0 os (Forall_nil _) H).
  Qed.

  (* no bucket outlives `expiration` further examples *)
  Theorem C17_expiry : forall E, expiration = Some E -> forall bs i x bs' o,
    ExpInv bucket E i bs -> step bs i x = Some (bs', o) ->
    ExpInv bucket E (S i) bs' /\ Forall (fun o => snd o <= i /\ i - snd o < E) bs'.
  Proof.
    intros E HE bs i x bs' o I S. split.
    - exact (expiry_step ex bucket bdata binit bappend bcomplete expiration max_buffered drop srt binit_data bappend_data srt_perm E HE bs i x bs' o I S).
    - apply ExpInv_age. exact (expiry_step ex bucket bdata binit bappend bcomplete expiration max_buffered drop srt binit_data bappend_data srt_perm E HE bs i x bs' o I S).
  Qed.
End Generic.
Print Assumptions C17_never_asserts.
Print Assumptions C17_conservation_keep.
Print Assumptions C17_conservation_drop.
Print Assumptions C17_release_kinds.
Print Assumptions C17_expiry.

(* F11 (fixed by 7a9514b): the originally pinned assess() ignored the new example's own length *)
Theorem C17_total_size_refuted_before_fix :
  run tex tsb tdata (ts_init (9 # 10)%Q) (ts_append_old (9 # 10)%Q) (ts_complete 2 (Some (4 # 1)%Q))
      None None false (fun l => l) [] 0 f11_xs = Some [Emit tex true f11_xs] /\
  Qlt_bool' (4 # 1)%Q (qlen (length f11_xs) * (3 # 1))%Q = true.
Proof. exact f11_before_fix. Qed.
Print Assumptions C17_total_size_refuted_before_fix.
