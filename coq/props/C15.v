(* C15 - Shards partition the dataset. *)
From Coq Require Import String List Arith ZArith.
Require Import LD.Base LD.PySlice LD.Pipeline LD.Build LD.BuildExtra LD.Ref LD.SplitProofs.
Import ListNotations.
Local Open Scope nat_scope.

(* np.array_split(np.arange(n), k) as modelled: k shards whose concatenation in index order is 0..n-1
   (hence pairwise disjoint, covering, relative order kept) and whose sizes differ by at most one *)
Theorem C15_array_split_partition : forall n k, 1 <= k ->
  concat (array_split n k) = seq 0 n /\ length (array_split n k) = k /\
  (forall a b, In a (map (@length nat) (array_split n k)) -> In b (map (@length nat) (array_split n k)) -> a <= b + 1).
Proof. exact array_split_partition. Qed.
Print Assumptions C15_array_split_partition.

Theorem C15_exactly_once : forall n k i, 1 <= k -> i < n ->
  exists! j, j < k /\ In i (nth j (array_split n k) []).
Proof. exact array_split_exactly_once. Qed.
Print Assumptions C15_exactly_once.

Theorem C15_split_refuses : forall n k, (k < 1 \/ Z.of_nat n < k)%Z -> split_indices n k = Err (lib EValue).
Proof. exact split_refuses. Qed.
Print Assumptions C15_split_refuses.

(* dataset level: for every indexable pipeline the shards reassemble to the dataset *)
Theorem C15_shards_reassemble : forall d t k,
  wfb d = true -> tbl d = Some t -> ixok d = true -> (1 <= k <= Z.of_nat (length t))%Z ->
  exists shards ts,
    split_all k d = Ok shards /\ length shards = Z.to_nat k /\
    Forall2 (fun s ts => wfb s = true /\ tbl s = Some ts) shards ts /\ concat ts = t /\
    tbl (DConcat shards) = Some t.
Proof. exact shards_reassemble. Qed.
Print Assumptions C15_shards_reassemble.

Theorem C15_shard_is_split_nth : forall p d k i, build p = Ok d ->
  build (PShard k i p) = (do shards <- split_all k d; py_nth shards i).
Proof. exact shard_is_split_nth. Qed.
Print Assumptions C15_shard_is_split_nth.
