(* C05 - Stopping a prefetching iteration anywhere terminates cleanly (every schedule, every stop
   point K = close after K examples | None = exhaustion / source failure, every buffer size >= 1). *)
From Coq Require Import List Arith Bool.
Require LD.PrefetchST LD.PrefetchSTProofs LD.PrefetchSTOutcome LD.Pool LD.PoolProofs LD.PoolOutcome.

(* no deadlock: a reachable non-terminal state always has an enabled thread *)
Theorem C05_st_progress : forall B K cb, 1 <= B -> forall l s,
  PrefetchST.reach B K cb (PrefetchST.init l) s -> ~ PrefetchST.terminal K s ->
  exists t s', PrefetchST.step B K cb s t = Some s'.
Proof. exact PrefetchSTProofs.progress. Qed.
Print Assumptions C05_st_progress.

(* finite time: every step decreases a natural-number measure, so every schedule ends *)
Theorem C05_st_measure : forall B K cb, 1 <= B -> forall s t s',
  PrefetchST.step B K cb s t = Some s' -> PrefetchSTProofs.mu s' < PrefetchSTProofs.mu s.
Proof. exact PrefetchSTProofs.measure_decreases. Qed.
Print Assumptions C05_st_measure.

(* when control is back with the consumer the thread has exited and nothing can run any more *)
Theorem C05_st_terminal_joined : forall B cb, 1 <= B -> forall src0 K s,
  PrefetchST.reach B K cb (PrefetchST.init src0) s -> PrefetchST.cp s = PrefetchST.CEnd ->
  PrefetchST.wp s = PrefetchST.WEnd /\ forall t, PrefetchST.step B K cb s t = None.
Proof.
  intros B cb HB src0 K s R E. split.
  - exact (PrefetchSTOutcome.st_terminal_joined B cb HB src0 K s R E).
  - exact (PrefetchSTOutcome.st_no_step_after_end B cb HB src0 K s R E).
Qed.
Print Assumptions C05_st_terminal_joined.

(* after the consumer set the shutdown flag the source is advanced at most once more *)
Theorem C05_st_pulls_after_shutdown : forall B cb, 1 <= B -> forall src0 K s s',
  PrefetchST.reach B K cb (PrefetchST.init src0) s -> PrefetchST.shutdown s = true ->
  PrefetchST.reach B K cb s s' ->
  PrefetchST.pulled s' <= PrefetchST.pulled s + (match PrefetchST.wp s with PrefetchST.W1 => 1 | _ => 0 end).
Proof. exact PrefetchSTOutcome.st_pulls_after_shutdown. Qed.
Print Assumptions C05_st_pulls_after_shutdown.

Theorem C05_pool_progress : forall B W K fn, 1 <= B -> 1 <= W -> forall src0 s,
  Pool.reach B W K fn (Pool.init src0) s -> ~ PoolOutcome.terminal K s ->
  exists t s', Pool.step B W K fn s t = Some s'.
Proof. exact PoolOutcome.pool_progress. Qed.
Print Assumptions C05_pool_progress.

Theorem C05_pool_measure : forall B W K fn, 1 <= B -> forall s t s',
  PoolProofs.QInv s -> Pool.step B W K fn s t = Some s' -> PoolProofs.mu s' < PoolProofs.mu s.
Proof. exact PoolProofs.measure_decreases. Qed.
Print Assumptions C05_pool_measure.

Theorem C05_pool_terminal_quiescent : forall B W K fn, 1 <= B -> 1 <= W -> forall src0 s h,
  Pool.reach B W K fn (Pool.init src0) s -> Pool.pc s = Pool.PEnd h ->
  Pool.quiescent (Pool.tasks s) = true /\ forall t, Pool.step B W K fn s t = None.
Proof.
  intros B W K fn HB HW src0 s h R E. split.
  - exact (PoolOutcome.pool_terminal_quiescent B W K fn HB HW src0 s h R E).
  - exact (PoolOutcome.pool_no_step_after_end B W K fn HB HW src0 s h R E).
Qed.
Print Assumptions C05_pool_terminal_quiescent.

(* early stop: what had not started is cancelled, and nothing starts afterwards *)
Theorem C05_pool_close_cancels : forall B W K fn, 1 <= B -> 1 <= W -> forall src0 s,
  Pool.reach B W K fn (Pool.init src0) s ->
  Pool.pc s = Pool.PExit Pool.Closed \/ Pool.pc s = Pool.PEnd Pool.Closed ->
  (forall t, In t (Pool.tasks s) -> Pool.tst t <> Pool.Pending) /\ Pool.step B W K fn s Pool.TStart = None.
Proof.
  intros B W K fn HB HW src0 s R E. split.
  - exact (PoolOutcome.pool_close_cancels B W K fn HB HW src0 s R E).
  - exact (PoolOutcome.pool_no_start_after_close B W K fn HB HW src0 s R E).
Qed.
Print Assumptions C05_pool_close_cancels.
