(* C09 - Examples handed out are isolated from the stored data. *)
From Coq Require Import List Arith Bool.
Require Import LD.Isolation.
Import ListNotations.

(* every storage mode: a history that mutates only objects obtained from the dataset never changes what any
   later access (by any path: each is an IRead) returns *)
Theorem C09_isolation : forall (V : Type) (m : mode) (examples : list V) ops,
  (forall k o, nth_error ops k = Some o -> forall s', s' = fst (irun V (iinit V m examples) (firstn k ops)) -> user_only V s' o) ->
  reads_pristine V examples ops (snd (irun V (iinit V m examples) ops)).
Proof. intros V m examples ops H. apply isolation; [apply iinit_inv|exact H]. Qed.
Print Assumptions C09_isolation.

(* serialising modes (pickle, wu; memory and disk cache store blobs too): ANY history, including mutation of
   the original container after construction *)
Theorem C09_original_container_immaterial : forall (V : Type) (m : mode) (examples : list V) ops,
  m <> Copy -> reads_pristine V examples ops (snd (irun V (iinit V m examples) ops)).
Proof. intros V m examples ops H. apply isolation_serialising. apply iinit_blob. exact H. Qed.
Print Assumptions C09_original_container_immaterial.

(* copy mode keeps references to the caller's objects: the second claim is deliberately not made for it *)
Theorem C09_copy_mode_sees_original_mutation :
  snd (irun nat (iinit nat Copy [10; 20]) [IMutateOriginal nat 0 99; IRead nat 0]) = [INone nat; IVal nat 2 99].
Proof. exact copy_mode_sees_original_mutation. Qed.

(* memory / disk cache over an upstream that hands out shared objects: the first access freezes the example; from
   then on it is served unchanged after any history of reads and mutations of any object, the upstream's included *)
Theorem C09_cache_first_access_freezes : forall (V : Type) s i h v,
  lstep V s (LRead V i) = (fst (lstep V s (LRead V i)), LVal V h v) -> frozen V (fst (lstep V s (LRead V i))) i v.
Proof. exact first_access_freezes. Qed.
Theorem C09_cache_frozen_reads : forall (V : Type) s ops i v,
  frozen V s i v -> exists h, snd (lstep V (fst (lrun V s ops)) (LRead V i)) = LVal V h v.
Proof. exact frozen_reads. Qed.
Print Assumptions C09_cache_first_access_freezes.
Print Assumptions C09_cache_frozen_reads.
