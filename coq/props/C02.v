(* C02 - Length and integer indexing agree with iteration. *)
From Coq Require Import String List ZArith.
Require Import LD.Base LD.Pipeline LD.Ref LD.PropsA.
Open Scope Z_scope.

Theorem C02_index_agrees : forall d t,
  wfb d = true -> tbl d = Some t -> indexable d = true -> ikeyed d = true ->
  let n := Z.of_nat (length t) in
  len_ d = Ok (length t) /\
  (forall i, 0 <= i < n -> exists v, nth_error (vals t) (Z.to_nat i) = Some v /\
                                    get_i d i = Ok v /\ get_i d (i - n) = Ok v) /\
  (forall i, i < - n \/ n <= i -> get_i d i = Err (lib EIndex)).
Proof. exact index_agrees. Qed.
Print Assumptions C02_index_agrees.

Theorem C02_sized_len_is_count : forall d t m,
  wfb d = true -> tbl d = Some t -> len_ d = Ok m -> m = length (fst (iter_ false d)).
Proof. exact sized_len_is_count. Qed.
Print Assumptions C02_sized_len_is_count.

(* known finding F15: the premise `ikeyed` cannot be dropped *)
Theorem C02_items_dupkeys_index_refuted :
  wfb f15_witness = true /\ indexable f15_witness = true /\ len_ f15_witness = Ok 2%nat /\
  (exists t, tbl f15_witness = Some t /\ length t = 2%nat) /\
  get_i f15_witness 0 = Err (lib EAssert).
Proof. exact items_dupkeys_index_refuted. Qed.
Print Assumptions C02_items_dupkeys_index_refuted.
