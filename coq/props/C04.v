(* C04 - Prefetch and parallel map are transparent: same examples, same order, for EVERY schedule.
   PrefetchST = parallel_utils.single_thread_prefetch, Pool = lazy_parallel_map over an abstract
   executor; `reach` quantifies over all interleavings / completion orders, any buffer size >= 1,
   any worker count >= 1, any source length, any stop point K. *)
From Coq Require Import List Arith Bool.
Require LD.PrefetchST LD.PrefetchSTSafety LD.PrefetchSTOutcome LD.Pool LD.PoolSafety LD.PoolOutcome.

Theorem C04_st_delivered_prefix : forall B K cb, 1 <= B -> forall src0 s,
  PrefetchST.reach B K cb (PrefetchST.init src0) s ->
  exists rest, PrefetchST.delivered s ++ rest = PrefetchST.oks_before src0.
Proof. exact PrefetchSTSafety.st_delivered_prefix. Qed.
Print Assumptions C04_st_delivered_prefix.

(* an exhausting consumer gets everything that precedes the first failure *)
Theorem C04_st_exhaust_complete : forall B cb, 1 <= B -> forall src0 s,
  PrefetchST.reach B None cb (PrefetchST.init src0) s -> PrefetchST.cp s = PrefetchST.CEnd ->
  PrefetchST.delivered s = PrefetchST.oks_before src0.
Proof. intros B cb HB src0 s R E. exact (proj1 (PrefetchSTOutcome.st_exhaust_outcome B cb HB src0 s R E)). Qed.
Print Assumptions C04_st_exhaust_complete.

Theorem C04_pool_delivered_in_order : forall B W K fn src0, 1 <= B -> 1 <= W -> forall s,
  Pool.reach B W K fn (Pool.init src0) s ->
  exists args rest, PoolSafety.oks_before src0 = args ++ rest /\
                    Forall2 (fun a x => fn a = Pool.ROk x) args (Pool.delivered s).
Proof. exact PoolSafety.pool_delivered_in_order. Qed.
Print Assumptions C04_pool_delivered_in_order.

(* the exhausting consumer's result IS the sequential semantics, whatever the completion order *)
Theorem C04_pool_exhaust_is_sequential : forall B W fn, 1 <= B -> 1 <= W -> forall src0 s h,
  Pool.reach B W None fn (Pool.init src0) s -> Pool.pc s = Pool.PEnd h ->
  (Pool.delivered s, h) = PoolOutcome.pool_spec fn B src0.
Proof. exact PoolOutcome.pool_exhaust_outcome. Qed.
Print Assumptions C04_pool_exhaust_is_sequential.

(* each task runs at most once: Pending -> Running -> Done | Pending -> Cancelled *)
Theorem C04_pool_each_task_once : forall B W K fn s t s' id x,
  Pool.step B W K fn s t = Some s' -> Pool.stat (Pool.tasks s) id = Some x ->
  exists y, Pool.stat (Pool.tasks s') id = Some y /\ PoolOutcome.srank x <= PoolOutcome.srank y /\
            (PoolOutcome.srank x = 2 -> y = x).
Proof. exact PoolOutcome.pool_status_monotone. Qed.
Print Assumptions C04_pool_each_task_once.
