(* C13 - Explicit seeds reproduce orders; frozen copies stay frozen; copies are faithful.
   Shuffle.v Part 4: every random stage draws from the generator it OWNS (an id into a store of streams; id 0 is
   numpy's global state).  `epochs` is a function of (pipeline, index-array state, store): equal seeds (equal
   streams) give equal orders in every epoch by functionality; the theorems below say which streams matter. *)
From Coq Require Import List Arith Bool.
Require Import LD.Shuffle LD.ShuffleProofs LD.ShuffleFreeze LD.ShuffleFreezeProofs.
Import ListNotations.

(* an epoch sequence depends only on the streams of the generators the pipeline's stages own, and leaves every
   other generator untouched *)
Theorem C13_frame : forall d m arrs st st',
  (forall g, In g (rngs_of d) -> nth_error st g = nth_error st' g) ->
  match epochs d arrs st m, epochs d arrs st' m with
  | Some (os, s1), Some (os', s1') =>
      os = os' /\ (forall g, In g (rngs_of d) -> nth_error s1 g = nth_error s1' g) /\
      (forall g, ~ In g (rngs_of d) -> nth_error s1 g = nth_error st g /\ nth_error s1' g = nth_error st' g)
  | None, None => True
  | _, _ => False
  end.
Proof.
  intros d m arrs st st' H. pose proof (epochs_frame d m arrs st st' H) as E.
  destruct (epochs d arrs st m) as [[os s1]|]; destruct (epochs d arrs st' m) as [[os' s1']|]; exact E.
Qed.
Print Assumptions C13_frame.

(* independent of the global numpy state; the same holds for copy() (repaired code: copies keep their generators)
   and for the pipeline behind prefetch (XPrefetch is part of rds) *)
Theorem C13_global_state_irrelevant : forall d arrs st st' m,
  ~ In 0 (rngs_of d) -> (forall g, g <> 0 -> nth_error st g = nth_error st' g) ->
  option_map fst (epochs (copy_fixed d) arrs st m) = option_map fst (epochs d arrs st' m).
Proof. exact copy_fixed_global_irrelevant. Qed.
Print Assumptions C13_global_state_irrelevant.

(* F10 (fixed by 6509712): the originally pinned copy() fell back to the global generator *)
Theorem C13_copy_refuted_before_fix :
  exists d st st' a, ~ In 0 (rngs_of d) /\ (forall g, g <> 0 -> nth_error st g = nth_error st' g) /\
    option_map fst (epochs (copy_pinned d) a st 1) <> option_map fst (epochs (copy_pinned d) a st' 1).
Proof. exact copy_pinned_depends_on_global. Qed.
Print Assumptions C13_copy_refuted_before_fix.

(* a one-time shuffle iterates in one fixed order forever and consumes no draw *)
Theorem C13_shuffle_once_constant : forall perm n m arrs st,
  epochs (XShuffleOnce perm (XSrc n)) arrs st m = Some (repeat (map (fun i => nth i (seq 0 n) 0) perm) m, st).
Proof. exact shuffle_once_src_epochs. Qed.
Print Assumptions C13_shuffle_once_constant.

(* lazy apply of a per-epoch reshuffle: every epoch is exactly the permutation drawn from ITS generator ... *)
Theorem C13_lazy_apply_epoch_is_draw : forall g n sigma st st1 arrs k,
  take_draw st g = Some (DShuffle sigma, st1) -> length sigma = n ->
  epoch (XApply g (XSrc n)) arrs k st = Some (map (fun i => nth i (seq 0 n) 0) sigma, arrs, k, st1).
Proof. exact apply_epoch_is_draw. Qed.
Print Assumptions C13_lazy_apply_epoch_is_draw.
(* ... and its copy(freeze=True) is a one-time shuffle: one fixed order forever (C13_shuffle_once_constant) *)

(* frozen copies stay frozen: whatever happens afterwards - further epochs of the pipeline they were copied from, further
   freezes, iterations over any copy - the order of an existing frozen copy never changes, and it is a permutation *)
Theorem C13_frozen_stays_frozen : forall ops s c a, nth_error (frozen s) c = Some a -> nth_error (frozen (frun s ops)) c = Some a.
Proof. exact frozen_stable. Qed.
Theorem C13_frozen_is_permutation : forall n ops, Forall (fop_ok n) ops ->
  Forall (fun a => Permutation.Permutation a (seq 0 n)) (frozen (frun (finit n) ops)).
Proof. exact frozen_is_perm. Qed.
Print Assumptions C13_frozen_stays_frozen.
Print Assumptions C13_frozen_is_permutation.
