(* C08 - Evaluation is demand-driven: nothing runs early, nothing runs twice.
   Trace.v: an iteration is a stream of segments (the events of the j-th next() call, element j) plus the events
   of the terminating next() call; `events_upto k` = everything that happened while the first k results were
   consumed.  `lwf` = batch sizes >= 1, slice indices in range of an indexable input, zip inputs indexable and of
   equal length.  Constructing a pipeline produces no event at all in this semantics; that the implementation
   agrees is part of the tie (the application log must be empty after building). *)
From Coq Require Import List Arith Bool.
Require Import LD.Base LD.Trace LD.TraceTie LD.TraceProofs LD.TraceKey LD.TraceKeyProofs LD.TraceInter LD.TraceInterProofs.
Import ListNotations.
Local Open Scope nat_scope.

Theorem C08_values_are_reference : forall d, lwf d -> values (iter_s d) = lref d.
Proof. exact values_ref. Qed.
Print Assumptions C08_values_are_reference.

(* consuming k results applies a mapped function to exactly the first k input examples, once each, in order ... *)
Theorem C08_map_demand : forall id f d k, ~ In id (ids_of d) -> lwf d ->
  apps_of id (events_upto k (iter_s (LMap id f d))) = firstn k (lref d).
Proof. exact map_demand. Qed.
Print Assumptions C08_map_demand.
(* ... and causes upstream exactly what k results of its input cause: nothing is pulled ahead *)
Theorem C08_map_pulls_nothing_ahead : forall id f d k,
  drop id (events_upto k (iter_s (LMap id f d))) = drop id (events_upto k (iter_s d)).
Proof. exact map_upstream_events. Qed.
Print Assumptions C08_map_pulls_nothing_ahead.

(* a filter applies its predicate to the shortest input prefix that contains k passing examples (to everything,
   rejected tail included, once the iteration is exhausted) *)
Theorem C08_filter_demand : forall id p d k, ~ In id (ids_of d) -> lwf d ->
  apps_of id (if k <=? length (fst (iter_s (LFilter id p d))) then events_upto k (iter_s (LFilter id p d))
              else all_events (iter_s (LFilter id p d))) = upto_kth_pass p k (lref d).
Proof. exact filter_demand. Qed.
Print Assumptions C08_filter_demand.

(* k batches cost exactly k * n input results: never more than the batch being built *)
Theorem C08_batch_demand : forall id n d k id', 1 <= n -> id' <> id ->
  apps_of id' (if k <=? length (fst (iter_s (LBatch id n d))) then events_upto k (iter_s (LBatch id n d))
               else all_events (iter_s (LBatch id n d)))
  = apps_of id' (if k * n <=? length (fst (iter_s d)) then events_upto (k * n) (iter_s d) else all_events (iter_s d)).
Proof. exact batch_demand. Qed.
Print Assumptions C08_batch_demand.

(* once per example per stage, in source order, over a full iteration *)
Theorem C08_map_once_in_order : forall id f d, ~ In id (ids_of d) -> lwf d ->
  apps_of id (all_events (iter_s (LMap id f d))) = lref d.
Proof. exact map_all. Qed.
Theorem C08_filter_once_in_order : forall id p d, ~ In id (ids_of d) -> lwf d ->
  apps_of id (all_events (iter_s (LFilter id p d))) = lref d.
Proof. exact filter_all. Qed.
Print Assumptions C08_map_once_in_order.
Print Assumptions C08_filter_once_in_order.

(* ds[i] applies user functions only to the examples that make up that one result *)
Theorem C08_getitem_map_support : forall id f d i e v, ~ In id (ids_of d) ->
  get_s (LMap id f d) i = Some (e, v) ->
  exists e' v', get_s d i = Some (e', v') /\ apps_of id e = [v'] /\ v = f v' /\
                (forall id', id' <> id -> apps_of id' e = apps_of id' e').
Proof. exact get_map_support. Qed.
Theorem C08_getitem_batch_support : forall id n d j e v id', 1 <= n ->
  get_s (LBatch id n d) j = Some (e, v) ->
  apps_of id' e = flat_map (fun t => match get_s d (j * n + t) with Some (e', _) => apps_of id' e' | None => [] end) (seq 0 n).
Proof. exact get_batch_support. Qed.
Theorem C08_getitem_slice_support : forall id idx d i,
  get_s (LSlice id idx d) i =
  match nth_error idx i with
  | Some j => match get_s d j with Some (e, v) => Some (e ++ [Fetch id], v) | None => None end
  | None => None
  end.
Proof. exact get_slice_support. Qed.
Print Assumptions C08_getitem_map_support.
Print Assumptions C08_getitem_batch_support.
Print Assumptions C08_getitem_slice_support.

(* ds[key] (TraceKey.v: map / filter / concatenate / selection over dict-backed sources; a key names one source
   example): one lookup applies the function of every stage at most once, and only functions of stages of this
   pipeline ... *)
Theorem C08_getkey_once_per_stage : forall d k, NoDup (ids_of d) -> NoDup (map fst (apps (events_of (getk_s d k)))).
Proof. exact getk_apps_once. Qed.
Theorem C08_getkey_only_own_stages : forall d k i a, In (i, a) (apps (events_of (getk_s d k))) -> In i (ids_of d).
Proof. exact getk_apps_ids. Qed.
(* ... returns an example of the dataset ... *)
Theorem C08_getkey_value_is_example : forall d, NoDup (ids_of d) -> forall k e v, getk_s d k = KVal e v -> In v (lref d).
Proof. exact getk_value_in_ref. Qed.
(* ... and, where the pipeline has a key view, looking up the i-th key causes exactly the events (hence the same
   function applications) and returns exactly the value of looking up position i. *)
Theorem C08_getkey_is_getindex : forall d, NoDup (ids_of d) -> lwf d -> forall ks i k,
  keys_s d = Some ks -> nth_error ks i = Some k -> exists e v, get_s d i = Some (e, v) /\ getk_s d k = KVal e v.
Proof. exact getk_agrees_with_index. Qed.
Print Assumptions C08_getkey_once_per_stage.
Print Assumptions C08_getkey_only_own_stages.
Print Assumptions C08_getkey_value_is_example.
Print Assumptions C08_getkey_is_getindex.

(* intersperse of any number of lazy pipelines (TraceInter.v): values are the merged reference; the j-th result is - event for
   event, hence function application for function application - the next not yet consumed element of the ONE input the order
   table names at position j (plus the fetch of the intersperse stage itself): nothing is evaluated ahead in any input *)
Theorem C08_intersperse_values : forall id ds, Forall lwf ds -> values (inter_s id ds) = inter_ref ds.
Proof. exact inter_values_ref. Qed.
Theorem C08_intersperse_demand : forall id order ins j di,
  (forall d l', nth_error ins d = Some l' -> count_occ Nat.eq_dec order d <= length l') ->
  (forall d, In d order -> d < length ins) ->
  nth_error order j = Some di ->
  exists l s, nth_error ins di = Some l /\ nth_error l (count_occ Nat.eq_dec (firstn j order) di) = Some s /\
              nth_error (inter_segs id order ins) j = Some (tag_fetch id s).
Proof. exact inter_segment_origin. Qed.
Print Assumptions C08_intersperse_values.
Print Assumptions C08_intersperse_demand.
