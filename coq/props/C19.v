(* C19 - The database layer builds correct, isolated datasets from its source.  Database.v: pure model of the
   merged description and of get_examples / get_dataset, heap model of _merge_database_dicts (dict objects with
   identity), and the weak memo.  The model follows the code after the fix for F12. *)
From Coq Require Import String List Arith Bool.
Require Import LD.Base LD.Database LD.DatabaseProofs.
Import ListNotations.
Local Open Scope nat_scope.

(* each stored example exactly once, in stored order, extended by its example_id and the requested name *)
Theorem C19_get_dataset_content : forall d name ex,
  dget name (alias d) = None -> dget name (datasets d) = Some ex -> ex <> [] ->
  get_examples d name = Ok (map (augment name) ex) /\ map fst (map (augment name) ex) = map fst ex.
Proof. exact get_dataset_content. Qed.
Print Assumptions C19_get_dataset_content.

Theorem C19_augment : forall name kv,
  fst (augment name kv) = fst kv /\
  dget "example_id"%string (snd (augment name kv)) = Some (VStr (fst kv)) /\
  dget "dataset"%string (snd (augment name kv)) = Some (VStr name) /\
  (forall k, k <> "example_id"%string -> k <> "dataset"%string -> dget k (snd (augment name kv)) = dget k (snd kv)).
Proof. exact augment_spec. Qed.
Print Assumptions C19_augment.

(* an alias yields the concatenation of its members; a list of names the concatenation of their datasets *)
Theorem C19_alias_is_concat : forall d name members exs,
  dget name (alias d) = Some members ->
  Forall2 (fun m ex => dget m (datasets d) = Some ex) members exs ->
  NoDup (concat (map dkeys exs)) -> concat exs <> [] ->
  get_examples d name = Ok (map (augment name) (concat exs)).
Proof. exact alias_is_concat. Qed.
Print Assumptions C19_alias_is_concat.

Theorem C19_list_is_concat : forall d names ts, names <> [] ->
  mapM (get_dataset1 d) names = Ok ts -> get_dataset_list d names = Ok (concat ts).
Proof. exact list_is_concat. Qed.
Print Assumptions C19_list_is_concat.

(* rejections: overlapping example ids inside an alias, duplicate dataset / alias names across merged parts *)
Theorem C19_overlap_rejected : forall d name members exs,
  dget name (alias d) = Some members ->
  Forall2 (fun m ex => dget m (datasets d) = Some ex) members exs ->
  Forall (fun ex => NoDup (dkeys ex)) exs -> ~ NoDup (concat (map dkeys exs)) ->
  get_examples d name = Err (lib EAssert).
Proof. exact overlap_rejected. Qed.
Print Assumptions C19_overlap_rejected.

Theorem C19_duplicate_dataset_rejected : forall acc p ds n,
  p_extra p = [] -> p_datasets p = Some ds -> In n (dkeys ds) ->
  In n (dkeys (datasets acc)) \/ In n (dkeys (alias acc)) -> merge_step acc p = Err (lib EAssert).
Proof. exact duplicate_dataset_rejected. Qed.
Theorem C19_duplicate_alias_rejected : forall acc p ds al n,
  p_extra p = [] -> p_datasets p = Some ds -> p_alias p = Some al -> In n (dkeys al) ->
  In n (dkeys (datasets acc)) \/ In n (dkeys (alias acc)) -> merge_step acc p = Err (lib EAssert).
Proof. exact duplicate_alias_rejected. Qed.
Print Assumptions C19_duplicate_dataset_rejected.
Print Assumptions C19_duplicate_alias_rejected.

(* nothing stored in any part is lost or changed by merging *)
Theorem C19_merge_keeps_every : forall p0 rest d ds0 p ds,
  merge (p0 :: rest) = Ok d -> p_datasets p0 = Some ds0 -> Forall part_names_nodup rest ->
  In p (p0 :: rest) -> p_datasets p = Some ds ->
  forall n ex, dget n ds = Some ex -> dget n (datasets d) = Some ex.
Proof. exact merge_keeps_every. Qed.
Print Assumptions C19_merge_keeps_every.

(* building the merged description never changes ANY dictionary object that existed before *)
Theorem C19_sources_unchanged : forall h parts h' res,
  hmerge h parts = Some (h', res) -> forall a, a < List.length h -> hget h' a = hget h a.
Proof. exact hmerge_frame_strong. Qed.
Print Assumptions C19_sources_unchanged.

(* repeated requests are served from one shared dataset while it is alive *)
Theorem C19_memo_shared_while_alive : forall m name ops id,
  snd (memo_step m (MGetDs name)) = Some id -> Forall (fun o => o <> MDropDs name) ops ->
  let m' := fold_left (fun s o => fst (memo_step s o)) ops (fst (memo_step m (MGetDs name))) in
  snd (memo_step m' (MGetDs name)) = Some id.
Proof. exact memo_shared_while_alive. Qed.
Print Assumptions C19_memo_shared_while_alive.
