(* C12 - Every shuffle is a permutation, for every iterator in flight.  The random generator is an oracle:
   whatever permutation / choice numpy produces is a universally quantified argument. *)
From Coq Require Import List Arith Bool Permutation.
Require Import LD.Shuffle LD.ShuffleProofs LD.ShuffleFreeze LD.ShuffleFreezeProofs LD.ShuffleCopies LD.ShuffleCopiesProofs LD.LocalIter LD.LocalIterProofs.
Require LD.Ref.
Import ListNotations.

(* one-time shuffle, frozen copy of a reshuffle, sort: a position selection by a permutation is a permutation *)
Theorem C12_selection_by_permutation : forall (A : Type) idx (l l' : list A),
  Ref.select idx l = Some l' -> Permutation idx (seq 0 (length l)) -> Permutation l' l.
Proof. intros A. exact (@select_perm A). Qed.
Print Assumptions C12_selection_by_permutation.

(* sampling without replacement: distinct positions => each chosen example at most once *)
Theorem C12_sampling_without_replacement : forall (A : Type) idx (l l' : list A),
  Ref.select idx l = Some l' -> NoDup idx -> exists rest, Permutation (l' ++ rest) l.
Proof. intros A. exact (@select_nodup_sub A). Qed.
Print Assumptions C12_sampling_without_replacement.

Theorem C12_shuffled_tiling : forall (A : Type) (t : list A) ts,
  Forall (fun t' => Permutation t' t) ts -> Permutation (concat ts) (concat (repeat t (length ts))).
Proof. intros A. exact (@tile_shuffle_perm A). Qed.
Print Assumptions C12_shuffled_tiling.

(* per-epoch reshuffle: what an iterator has yielded is always a prefix of the freshly shuffled index array, and
   after n items a permutation - while next() calls of ANY other iterators interleave, provided no other iterator
   is STARTED in between *)
Theorem C12_reshuffle_single_start : forall n s sigma ops,
  is_perm n (arr s) -> is_perm n sigma ->
  Forall (fun o => match o with RStart _ => False | RNext _ => True end) ops ->
  let it := length (pos s) in
  let s' := rrun (rstep s (RStart sigma)) ops in
  length (outs s) = length (pos s) ->
  (exists p, nth_error (pos s') it = Some p /\ p = length (nth it (outs s') [])) /\
  nth it (outs s') [] = firstn (length (nth it (outs s') [])) (apply_perm sigma (arr s)) /\
  (length (nth it (outs s') []) = n -> is_perm n (nth it (outs s') [])).
Proof. exact reshuffle_single_iter. Qed.
Print Assumptions C12_reshuffle_single_start.

(* KNOWN FINDING F9: the full statement ("also while other iterations over the same object are in progress") is
   false of the code: a second start reshuffles the shared index array in place *)
Theorem C12_reshuffle_interleaved_refuted :
  exists n ops, Forall (fun o => match o with RStart sg => is_perm n sg | RNext _ => True end) ops /\
    let s := rrun (rinit n) ops in length (nth 0 (outs s) []) = n /\ ~ is_perm n (nth 0 (outs s) []).
Proof. exact reshuffle_interleaved_refuted. Qed.
Print Assumptions C12_reshuffle_interleaved_refuted.

(* buffer-local shuffle: a permutation for every oracle, and never more than buffer_size - 1 positions early;
   its buffer is per iterator, so iterators in flight do not interact *)
Theorem C12_local_shuffle_perm : forall (A : Type) B choices sigma (xs : list A) d,
  1 <= B -> length choices >= length xs -> Forall (fun c => c < B) choices ->
  is_perm (length (snd (local_stream B [] choices xs))) sigma ->
  Permutation (local_shuffle B choices sigma xs d) xs.
Proof. intros A. exact (@local_shuffle_perm A). Qed.
Print Assumptions C12_local_shuffle_perm.

Theorem C12_local_shuffle_displacement : forall B choices sigma n,
  1 <= B -> length choices >= n -> Forall (fun c => c < B) choices ->
  is_perm (length (snd (local_stream B [] choices (seq 0 n)))) sigma ->
  forall i j, nth_error (local_shuffle B choices sigma (seq 0 n) 0) i = Some j -> j <= i + B - 1.
Proof. exact local_shuffle_displacement. Qed.
Print Assumptions C12_local_shuffle_displacement.

(* frozen copies of a per-epoch reshuffle in flight (copy(freeze=True); catch / lazy apply / multi-worker prefetch take one
   per iteration) - ShuffleFreeze.v: for EVERY history of epochs and next() calls on the source object, further freezes
   and next() calls on iterators over the frozen copies, and every oracle permutation: an iterator over a frozen copy
   never yields an example twice, and once exhausted it has yielded every example exactly once *)
Theorem C12_frozen_copy_in_flight_nodup : forall n ops it c p, Forall (fop_ok n) ops ->
  nth_error (fpos (frun (finit n) ops)) it = Some (c, p) -> NoDup (nth it (fouts (frun (finit n) ops)) []).
Proof. exact frozen_iteration_nodup. Qed.
Theorem C12_frozen_copy_exhausted_is_perm : forall n ops it c p, Forall (fop_ok n) ops ->
  nth_error (fpos (frun (finit n) ops)) it = Some (c, p) -> c < length (frozen (frun (finit n) ops)) ->
  p = length (nth c (frozen (frun (finit n) ops)) []) -> Permutation (nth it (fouts (frun (finit n) ops)) []) (seq 0 n).
Proof. exact frozen_iteration_is_the_copy_lt. Qed.
(* the same model with a frozen copy that keeps a reference to the source's index array instead of a snapshot
   (what the seeded changes C12b / C13c do) is refuted *)
Theorem C12_frozen_alias_refuted : exists n ops it, Forall (fop_ok n) ops /\ ~ NoDup (nth it (fouts (frun_alias (finit n) ops)) []).
Proof. exact frozen_alias_refuted. Qed.
Print Assumptions C12_frozen_copy_in_flight_nodup.
Print Assumptions C12_frozen_copy_exhausted_is_perm.
Print Assumptions C12_frozen_alias_refuted.

(* a per-epoch reshuffle dataset and its PLAIN copies (copy(), a copy of a copy, the copy under a copied map stage, the
   profiler's internal copy) - ShuffleCopies.v: every object has an index array of its own.  For every history of epochs,
   next() calls and further copies on ALL objects and every oracle: an iterator started on object o yields a prefix of the
   array object o got at that start and, after n items, a permutation of the positions - provided no other iterator of
   object o ITSELF is started in between (that case is the known finding F9 above) *)
Theorem C12_plain_copies_do_not_interact : forall n pre sigma ops o st,
  Forall (cop_ok n) pre -> Permutation sigma (seq 0 n) -> Forall (no_start_on o) ops ->
  nth_error (crun n (cinit n) pre) o = Some st ->
  let it := length (pos st) in
  let s' := crun n (crun n (cinit n) pre) (COn o (RStart sigma) :: ops) in
  exists st', nth_error s' o = Some st' /\
    nth it (outs st') [] = firstn (length (nth it (outs st') [])) (apply_perm sigma (arr st)) /\
    (length (nth it (outs st') []) = n -> Permutation (nth it (outs st') []) (seq 0 n)).
Proof. exact copies_single_start. Qed.
Theorem C12_reachable_objects_hold_permutations : forall n ops, Forall (cop_ok n) ops -> Forall (obj_ok n) (crun n (cinit n) ops).
Proof. exact crun_inv. Qed.
(* the same model with copies that share ONE index array (what the seeded changes C12h / C20d do) is refuted *)
Theorem C12_plain_copy_alias_refuted :
  exists n ops, Forall (cop_ok n) ops /\ Forall (no_start_on 0) (tl ops) /\
    exists ps os, nth_error (aobjs (arun (ainit n) ops)) 0 = Some (ps, os) /\ ~ NoDup (nth 0 os []).
Proof. exact copies_alias_refuted. Qed.
Print Assumptions C12_plain_copies_do_not_interact.
Print Assumptions C12_reachable_objects_hold_permutations.
Print Assumptions C12_plain_copy_alias_refuted.

(* buffer-local shuffle, iterators in flight (LocalIter.v: every next() of every iterator is a step; each iterator owns its
   buffer): for EVERY history - any number of iterators over the same dataset, started at any time, advanced in any order, any
   oracle values - what an iterator has delivered plus what it still holds is a permutation of the examples; so an exhausted
   iterator has delivered every example exactly once and an iterator in flight has delivered none twice *)
Theorem C12_local_iterators_conserve : forall B xs ops, 1 <= B -> Forall (lop_ok B) ops -> Forall (liter_inv B xs) (lrun B xs ops).
Proof. exact local_iterators_conserve. Qed.
Theorem C12_local_iterator_exhausted_is_perm : forall B xs ops it st, 1 <= B -> Forall (lop_ok B) ops ->
  nth_error (lrun B xs ops) it = Some st -> lexhausted st -> Permutation (lout st) xs.
Proof. exact local_iterator_exhausted_is_perm. Qed.
Theorem C12_local_iterator_in_flight_nodup : forall B xs ops it st, 1 <= B -> Forall (lop_ok B) ops -> NoDup xs ->
  nth_error (lrun B xs ops) it = Some st -> NoDup (lout st).
Proof. exact local_iterator_in_flight_nodup. Qed.
(* the variant with ONE buffer per dataset object (what the seeded changes C12 / C12i do) is refuted *)
Theorem C12_local_shared_buffer_refuted :
  exists B xs ops, 1 <= B /\ Forall (lop_ok B) ops /\ NoDup xs /\
    exists rest tl_ out, nth_error (siters (lrun_shared B xs ops)) 0 = Some (rest, tl_, out) /\ ~ NoDup out.
Proof. exact local_shared_buffer_refuted. Qed.
Print Assumptions C12_local_iterators_conserve.
Print Assumptions C12_local_iterator_exhausted_is_perm.
Print Assumptions C12_local_iterator_in_flight_nodup.
Print Assumptions C12_local_shared_buffer_refuted.
