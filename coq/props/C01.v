(* C01 - Iterating a pipeline equals the eager reference semantics, repeatably.
   `tbl d` is the eager reference (Python-list operations only, Ref.v); `iter_ wk d` is the model of
   d.__iter__(with_key=wk) following the code path of every stage class (Pipeline.v).  The descriptor
   is immutable and iter_ is a function of it, so a second iteration yields the same trace; the
   stateful stages are C10 (cache), C12/C13 (shuffles) and the tie iterates every object repeatedly. *)
From Coq Require Import String List ZArith.
Require Import LD.Base LD.Pipeline LD.Ref LD.PropsA.

Theorem C01_iter_is_reference : forall d t,
  wfb d = true -> tbl d = Some t -> iter_ false d = (vals t, End).
Proof. exact iter_is_reference. Qed.
Print Assumptions C01_iter_is_reference.

Theorem C01_items_iter_is_reference : forall d t,
  wfb d = true -> tbl d = Some t -> keyedb d = true -> iter_ true d = (pairs t, End).
Proof. exact items_iter_is_reference. Qed.
Print Assumptions C01_items_iter_is_reference.
