(* C01 - Iterating a pipeline equals the eager reference semantics, repeatably.
   `tbl d` is the eager reference (Python-list operations only, Ref.v); `iter_ wk d` is the model of
   d.__iter__(with_key=wk) following the code path of every stage class (Pipeline.v).  The descriptor
   is immutable and iter_ is a function of it, so a second iteration yields the same trace; the
   stateful stages are C10 (cache), C12/C13 (shuffles) and the tie iterates every object repeatedly. *)
From Coq Require Import String List ZArith.
Require Import LD.Base LD.Pipeline LD.Ref LD.PropsA LD.CycleProofs.

Theorem C01_iter_is_reference : forall d t,
  wfb d = true -> tbl d = Some t -> iter_ false d = (vals t, End).
Proof. exact iter_is_reference. Qed.
Print Assumptions C01_iter_is_reference.

Theorem C01_items_iter_is_reference : forall d t,
  wfb d = true -> tbl d = Some t -> keyedb d = true -> iter_ true d = (pairs t, End).
Proof. exact items_iter_is_reference. Qed.
Print Assumptions C01_items_iter_is_reference.

(* cycle(): the first k examples of islice(ds.cycle(), k) are the first k of the endless repetition of the pipeline's
   reference (an empty pass cannot finish: the model reports it as an error marker) *)
Theorem C01_cycle_is_repetition : forall d t k, wfb d = true -> tbl d = Some t -> t <> nil ->
  take_cycle false k d = (firstn k (concat (repeat (vals t) (S k))), End).
Proof. exact cycle_is_repetition. Qed.
Print Assumptions C01_cycle_is_repetition.
Theorem C01_cycle_items_is_repetition : forall d t k, wfb d = true -> tbl d = Some t -> t <> nil -> keyedb d = true ->
  take_cycle true k d = (firstn k (concat (repeat (pairs t) (S k))), End).
Proof. exact cycle_items_is_repetition. Qed.
Print Assumptions C01_cycle_items_is_repetition.
