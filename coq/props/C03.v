(* C03 - Keys, items and key lookup are aligned with iteration order. *)
From Coq Require Import String List ZArith.
Require Import LD.Base LD.Pipeline LD.Ref LD.PropsA.

Theorem C03_keys_aligned : forall d t ks,
  wfb d = true -> tbl d = Some t -> keys_ d = Ok ks ->
  ks = map fst t /\ length ks = length (fst (iter_ false d)) /\
  iter_ true d = (pairs t, End) /\ iter_ false d = (vals t, End) /\
  (forall j k v, nth_error t j = Some (k, v) -> get_k d k = Ok v) /\
  (forall k, ~ In k ks -> exists e, get_k d k = Err e).
Proof. exact keys_aligned. Qed.
Print Assumptions C03_keys_aligned.

(* stages without keys() (filter, catch, prefetch ...) still pair every example with its own key *)
Theorem C03_items_pairs_own_key : forall d t,
  wfb d = true -> tbl d = Some t -> keyedb d = true -> iter_ true d = (pairs t, End).
Proof. exact items_iter_is_reference. Qed.
Print Assumptions C03_items_pairs_own_key.
