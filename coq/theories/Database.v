(* Database.v - Model G: lazy_dataset/database.py.
   Part 1 (pure): merged description -> get_examples / get_dataset content, refusals.
   Part 2 (heap): _merge_database_dicts on a heap of dict objects with identity, to state that the
                  source dictionaries are not mutated.
   Part 3: the weak memo of _get_dataset.
   Definitions only; proofs in DatabaseProofs.v.  The code modelled is the one after the fix for F12. *)
From Coq Require Import String.
From Coq Require Import List Arith ZArith Bool Lia.
Require Import LD.Base.
Import ListNotations.

(* ---------------------------------------------------------------- Part 1 *)
Definition example := list (string * val).                      (* an example dict, insertion ordered *)
Definition dsdict := list (string * example).                   (* example_id -> example *)
Definition dsmap := list (string * dsdict).                     (* 'datasets' *)
Definition aliasmap := list (string * list string).             (* 'alias' *)
(* one description part; None = the key is absent *)
Record part := mkPart { p_datasets : option dsmap; p_alias : option aliasmap; p_extra : list string }.
Record db := mkDb { datasets : dsmap; alias : aliasmap }.

Fixpoint dget {A} (k : string) (d : list (string * A)) : option A :=
  match d with [] => None | (k', v) :: r => if String.eqb k k' then Some v else dget k r end.
(* d[k] = v on a Python dict: overwrite in place, else append *)
Fixpoint dset {A} (k : string) (v : A) (d : list (string * A)) : list (string * A) :=
  match d with
  | [] => [(k, v)]
  | (k', v') :: r => if String.eqb k k' then (k, v) :: r else (k', v') :: dset k v r
  end.
(* d.update(e) / {**d, **e} *)
Definition dupdate {A} (d e : list (string * A)) : list (string * A) := fold_left (fun acc kv => dset (fst kv) (snd kv) acc) e d.
Definition dkeys {A} (d : list (string * A)) : list string := map fst d.
Definition disjointb (a b : list string) : bool := forallb (fun k => negb (inb k b)) a.

(* _merge_database_dicts (several parts): the first part may carry extra top-level keys, later parts only
   'datasets' and 'alias'; names must not repeat *)
Definition merge_step (acc : db) (p : part) : res db :=
  if negb (match p_extra p with [] => true | _ => false end) then Err (lib EAssert) else
  match p_datasets p with
  | None => Err (lib EKey)
  | Some ds =>
      let names := dkeys (datasets acc) ++ dkeys (alias acc) in
      if negb (disjointb (dkeys ds) names) then Err (lib EAssert) else
      let acc1 := mkDb (dupdate (datasets acc) ds) (alias acc) in
      match p_alias p with
      | None => Ok acc1
      | Some al => if negb (disjointb (dkeys al) names) then Err (lib EAssert)
                   else Ok (mkDb (datasets acc1) (dupdate (alias acc1) al))
      end
  end.
Definition merge (parts : list part) : res db :=
  match parts with
  | [] => Err (lib EAssert)
  | p0 :: rest =>
      match p_datasets p0 with
      | None => match rest with
                | [] => Ok (mkDb [] (match p_alias p0 with Some a => a | None => [] end))   (* 'datasets' is looked up lazily *)
                | _ => Err (lib EKey)
                end
      | Some ds0 =>
          (fix go (acc : db) (l : list part) : res db :=
             match l with [] => Ok acc | p :: r => do a <- merge_step acc p; go a r end)
            (mkDb ds0 (match p_alias p0 with Some a => a | None => [] end)) rest
      end
  end.

Definition augment (dataset_name : string) (kv : string * example) : string * example :=
  (fst kv, dset "dataset"%string (VStr dataset_name) (dset "example_id"%string (VStr (fst kv)) (snd kv))).

Definition get_examples (d : db) (name : string) : res dsdict :=
  do raw <- match dget name (alias d) with
            | Some members =>
                (fix go (acc : dsdict) (l : list string) : res dsdict :=
                   match l with
                   | [] => Ok acc
                   | m :: r => match dget m (datasets d) with
                               | None => Err (lib EKey)
                               | Some ex => if disjointb (dkeys acc) (dkeys ex) then go (dupdate acc ex) r
                                            else Err (lib EAssert)
                               end
                   end) [] members
            | None => match dget name (datasets d) with Some ex => Ok ex | None => Err (lib EKey) end
            end;
  match raw with
  | [] => Err (lib ERuntime)
  | _ => Ok (map (augment name) raw)
  end.

Definition example_val (e : example) : val := VDict (map fst e) (map snd e).
(* get_dataset(name) for a single name: the (key, value) table of the resulting dict-backed dataset *)
Definition get_dataset1 (d : db) (name : string) : res (list (key * val)) :=
  do ex <- get_examples d name; Ok (map (fun kv => (fst kv, example_val (snd kv))) ex).
(* get_dataset([n1, n2, ...]): concatenation (ValueError for an empty list) *)
Definition get_dataset_list (d : db) (names : list string) : res (list (key * val)) :=
  match names with
  | [] => Err (lib EValue)
  | _ => do ts <- mapM (get_dataset1 d) names; Ok (concat ts)
  end.

(* ---------------------------------------------------------------- Part 2: heap *)
Inductive cell := CAtom (a : nat) | CRef (addr : nat).
Definition obj := list (string * cell).
Definition heap := list obj.
Definition hget (h : heap) (a : nat) : obj := nth a h [].
Fixpoint hset (h : heap) (a : nat) (o : obj) : heap :=
  match h, a with [], _ => [] | _ :: r, O => o :: r | x :: r, S a' => x :: hset r a' o end.
Definition halloc (h : heap) (o : obj) : heap * nat := (h ++ [o], length h).

(* copy.copy(v): a dict is copied shallowly into a new object, anything else is returned as is *)
Definition copy_cell (h : heap) (c : cell) : heap * cell :=
  match c with
  | CAtom a => (h, CAtom a)
  | CRef a => let '(h', a') := halloc h (hget h a) in (h', CRef a')
  end.
Fixpoint copy_top (h : heap) (o : obj) : heap * obj :=
  match o with
  | [] => (h, [])
  | (k, c) :: r => let '(h1, c') := copy_cell h c in let '(h2, r') := copy_top h1 r in (h2, (k, c') :: r')
  end.
Definition ref_of (o : obj) (k : string) : option nat :=
  match dget k o with Some (CRef a) => Some a | _ => None end.

(* one later part: result['datasets'].update(part['datasets']); result.setdefault('alias', {}).update(part['alias']) *)
Definition hmerge_step (h : heap) (res : nat) (p : nat) : option heap :=
  match ref_of (hget h res) "datasets"%string, ref_of (hget h p) "datasets"%string with
  | Some rd, Some pd =>
      let h1 := hset h rd (dupdate (hget h rd) (hget h pd)) in
      match ref_of (hget h1 p) "alias"%string with
      | None => Some h1
      | Some pa =>
          match ref_of (hget h1 res) "alias"%string with
          | Some ra => Some (hset h1 ra (dupdate (hget h1 ra) (hget h1 pa)))
          | None => let '(h2, ra) := halloc h1 [] in
                    let h3 := hset h2 res (dset "alias"%string (CRef ra) (hget h2 res)) in
                    Some (hset h3 ra (dupdate (hget h3 ra) (hget h3 pa)))
          end
      end
  | _, _ => None
  end.
(* returns the heap and the address of the merged description (name checks are Part 1's business) *)
Fixpoint hmerge_rest (h : heap) (res : nat) (l : list nat) : option heap :=
  match l with
  | [] => Some h
  | p :: r => match hmerge_step h res p with Some h' => hmerge_rest h' res r | None => None end
  end.
Definition hmerge (h : heap) (parts : list nat) : option (heap * nat) :=
  match parts with
  | [] => None
  | [p] => Some (h, p)                                   (* a single description is used as is *)
  | p0 :: rest =>
      let '(h1, top) := copy_top h (hget h p0) in
      let '(h2, res) := halloc h1 top in
      match hmerge_rest h2 res rest with Some h' => Some (h', res) | None => None end
  end.

(* ---------------------------------------------------------------- Part 3: weak memo *)
Record memo := mkMemo { entries : list (string * nat); next_id : nat }.
Inductive memop := MGetDs (name : string) | MDropDs (name : string).   (* request / the client drops every reference, gc runs *)
Definition memo_step (m : memo) (o : memop) : memo * option nat :=
  match o with
  | MGetDs name => match dget name (entries m) with
                   | Some id => (m, Some id)
                   | None => (mkMemo ((name, next_id m) :: entries m) (S (next_id m)), Some (next_id m))
                   end
  | MDropDs name => (mkMemo (filter (fun e => negb (String.eqb name (fst e))) (entries m)) (next_id m), None)
  end.
