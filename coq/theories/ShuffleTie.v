(* ShuffleTie.v - correspondence helpers for Model F *)
From Coq Require Import List Arith Bool.
Import ListNotations.
Require Import LD.Shuffle.

Fixpoint leqb {A} (e : A -> A -> bool) (l m : list A) : bool :=
  match l, m with [], [] => true | x :: l', y :: m' => e x y && leqb e l' m' | _, _ => false end.

(* reshuffle: n, ops, what each iterator yielded *)
Definition rcase := (nat * list rop * list (list nat))%type.
Definition rcase_ok (c : rcase) : bool :=
  let '(n, ops, exp) := c in leqb (leqb Nat.eqb) (outs (rrun (rinit n) ops)) exp.
(* local shuffle: B, choices, final sigma, n, output *)
Definition lcase := (nat * list nat * list nat * nat * list nat)%type.
Definition lcase_ok (c : lcase) : bool :=
  let '(B, ch, sg, n, exp) := c in leqb Nat.eqb (local_shuffle B ch sg (seq 0 n) 0) exp.
(* C13: pipeline, store of recorded draws, number of epochs, observed orders, and the per-generator number of unused draws *)
Definition xcase := (rds * store * nat * list (list nat) * list nat)%type.
Definition xcase_ok (c : xcase) : bool :=
  let '(d, st, m, exp, unused) := c in
  match epochs d (arrs0 d) st m with
  | Some (os, st') => leqb (leqb Nat.eqb) os exp && leqb Nat.eqb (map (@length _) st') unused
  | None => false
  end.
Fixpoint bad {A} (ok : A -> bool) (j : nat) (cs : list A) : list nat :=
  match cs with [] => [] | c :: r => if ok c then bad ok (S j) r else j :: bad ok (S j) r end.
