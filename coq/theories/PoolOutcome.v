From Coq Require Import List Arith Bool Lia ZifyBool ZifyNat. Import ListNotations.
Require Import LD.Pool LD.PoolProofs LD.PoolSafety.

(* Liveness-flavoured and functional-outcome facts about the lazy_parallel_map pool model (Pool.v):
   1. no deadlock, 2. quiescence at the end, 3. early close cancels what had not started,
   4. task statuses are monotone, 5. (exhausting consumer) the outcome is the sequential semantics. *)

Ltac inv_step :=
  repeat match goal with
  | H : Some _ = Some _ |- _ => inversion H; subst; clear H
  | H : None = Some _ |- _ => discriminate
  | H : context [if ?b then _ else _] |- _ => destruct b eqn:?
  | H : context [match ?x with _ => _ end] |- _ => destruct x eqn:?
  end.

(* ---------- list-of-tasks lemmas ---------- *)
Lemma nth_cancel_lt l f j : j < f -> nth_error (cancel_from l f) j = nth_error l j.
Proof. revert f j; induction l as [|a r IH]; intros [|f] [|j] H; simpl; auto; try lia. apply IH; lia. Qed.

Lemma cancel_no_pending l f : (forall j t, j < f -> nth_error l j = Some t -> tst t <> Pending) ->
  forall t, In t (cancel_from l f) -> tst t <> Pending.
Proof.
  revert f; induction l as [|a r IH]; intros [|f] H t Hin; simpl in *; try contradiction.
  - destruct Hin as [<-|Hin].
    + destruct (is_pending a) eqn:E; simpl; try discriminate. unfold is_pending in E. destruct (tst a); congruence.
    + eapply (IH 0); eauto. intros; lia.
  - destruct Hin as [<-|Hin].
    + apply (H 0 a); [lia|reflexivity].
    + eapply (IH f); eauto. intros j t0 Hj Hn. apply (H (S j) t0); [lia|exact Hn].
Qed.

Lemma stat_cancel l f id x : stat l id = Some x ->
  stat (cancel_from l f) id = Some x \/ (x = Pending /\ stat (cancel_from l f) id = Some Cancelled).
Proof.
  unfold stat. revert f id; induction l as [|a r IH]; intros [|f] [|id]; simpl; intros H; try discriminate; auto.
  - inversion H; subst. unfold is_pending. destruct (tst a) eqn:E; simpl; rewrite ?E; auto.
Qed.

Lemma stat_app l t id x : stat l id = Some x -> stat (l ++ [t]) id = Some x.
Proof.
  unfold stat. intros H. destruct (nth_error l id) eqn:E; try discriminate.
  rewrite nth_error_app1; [rewrite E; auto|]. apply nth_error_Some. congruence.
Qed.

Lemma stat_nth l id t : nth_error l id = Some t -> stat l id = Some (tst t).
Proof. unfold stat. intros ->. reflexivity. Qed.

Lemma no_pending_first l : (forall t, In t l -> tst t <> Pending) -> first_pending l = None.
Proof.
  intros H. destruct (first_pending l) as [id|] eqn:E; auto.
  destruct (first_pending_spec _ _ E) as (t & Hn & Hp). apply nth_error_In in Hn. exfalso. eapply H; eauto.
Qed.

Lemma first_pending_some l t : In t l -> tst t = Pending -> exists id, first_pending l = Some id.
Proof.
  intros Hin Hp. destruct (first_pending l) as [id|] eqn:E; eauto.
  exfalso. eapply first_pending_none; eauto.
Qed.

Lemma quiescent_spec l : quiescent l = true -> forall t, In t l -> tst t <> Pending /\ tst t <> Running.
Proof.
  unfold quiescent. intros H t Hin. rewrite forallb_forall in H. specialize (H _ Hin).
  unfold is_pending, is_running in H. destruct (tst t); simpl in H; split; congruence.
Qed.

Lemma quiescent_false l : quiescent l = false -> exists t, In t l /\ (tst t = Pending \/ tst t = Running).
Proof.
  unfold quiescent. induction l as [|a r IH]; simpl; intros H; try discriminate.
  destruct (negb (is_pending a) && negb (is_running a)) eqn:E; simpl in H.
  - destruct (IH H) as (t & Hin & Ht). exists t; auto.
  - exists a. split; auto. unfold is_pending, is_running in E. destruct (tst a); simpl in E; auto; discriminate.
Qed.

Lemma running_dec l : (exists id t, nth_error l id = Some t /\ tst t = Running) \/ n_running l = 0.
Proof.
  unfold n_running. induction l as [|a r IH]; simpl; auto.
  unfold is_running at 1. destruct (tst a) eqn:E; simpl; try (left; exists 0, a; simpl; auto; fail).
  all: destruct IH as [(id & t & Hn & Ht)|IH]; auto; left; exists (S id), t; simpl; auto.
Qed.

Lemma n_running_0 l : n_running l = 0 -> forall t, In t l -> tst t <> Running.
Proof.
  unfold n_running. induction l as [|a r IH]; simpl; intros H t Hin; try contradiction.
  unfold is_running in H at 1. destruct (tst a) eqn:E; simpl in H; try discriminate.
  all: destruct Hin as [<-|Hin]; [congruence|auto].
Qed.

Definition srank (x : tstat) : nat := match x with Pending => 0 | Running => 1 | Done _ => 2 | Cancelled => 2 end.

(* ---------- extra invariant (any consumer script) ---------- *)
Record GInv (s : st) : Prop := {
  G_done : forall id t, id < length (delivered s) -> nth_error (tasks s) id = Some t -> exists r, tst t = Done r;
  G_term : pc s = PTerm -> qh s = length (delivered s);
  G_closed : closed_pc (pc s) = true -> forall t, In t (tasks s) -> tst t <> Pending;
  G_end : forall h, pc s = PEnd h -> quiescent (tasks s) = true
}.

Section Outcome.
Variable B W : nat.
Variable K : option nat.
Variable fn : nat -> tres.
Hypothesis Bpos : 1 <= B.
Hypothesis Wpos : 1 <= W.
Variable src0 : list sev.

Notation step := (step B W K fn).
Notation reachable := (reach B W K fn (init src0)).
Notation OInv := (OInv B fn src0).

Lemma ginv_init : GInv (init src0).
Proof. constructor; simpl; intros; try discriminate; try lia; try contradiction. Qed.

Lemma ginv_step s t s' : OInv s -> GInv s -> step s t = Some s' -> GInv s'.
Proof.
  intros [Oa Od Ov Ol Oq Ob Op On] [Gd Gt Gc Ge] Hs. destruct s as [sr ts q p dl pl]. simpl in *.
  destruct t; simpl in Hs.
  - (* consumer *)
    unfold cstep, set_pc in Hs; simpl in Hs.
    destruct p; simpl in *; inv_step; constructor; simpl in *; intros; try discriminate; eauto.
    all: try (match goal with H : PEnd _ = PEnd _ |- _ => inversion H; subst; assumption end).
    all: try (match goal with H : stat _ _ = Some _ |- _ => destruct (stat_some _ _ _ H) as (tk & Hn & Ht) end).
    all: try (rewrite app_length in *; simpl in *; destruct Oq as (E1 & E2 & E3); subst;
              match goal with H : ?i < length ?d + 1 |- _ =>
                destruct (Nat.eq_dec i (length d)) as [->|]; [ replace t with tk by congruence; eauto | eapply Gd; eauto; lia ] end).
    + (* P4: append *) rewrite nth_error_app1 in H0 by lia. eauto.
    + (* PTerm: cancel; Done prefix untouched *) rewrite nth_cancel_lt in H0 by lia. eauto.
    + (* PTerm -> PExit Closed: nothing Pending *)
      revert t H0. apply cancel_no_pending. intros j t Hj Hn. rewrite (Gt eq_refl) in Hj.
      destruct (Gd _ _ Hj Hn) as [r E]. congruence.
  - (* start *)
    unfold wstart in Hs; simpl in Hs.
    destruct (started _ && _) eqn:St; [|discriminate].
    destruct (first_pending ts) as [n|] eqn:Hfp; [|discriminate]. inversion Hs; subst; clear Hs.
    destruct (first_pending_spec _ _ Hfp) as (tk & Hn & Hp).
    constructor; simpl in *; auto.
    + intros id t Hid H1. destruct (nth_upd_cases _ _ _ _ _ H1) as [(E & E2 & t0 & E3 & E4)|E]; eauto.
      subst. destruct (Gd _ _ Hid E3) as [r Hr]. congruence.
    + intros Hc t Hin. destruct (in_upd _ _ _ _ Hin) as [E|E]; auto. congruence.
    + intros h E. subst. simpl in St. discriminate.
  - (* finish *)
    unfold wfinish in Hs; simpl in Hs.
    destruct (nth_error ts id) as [t0|] eqn:Hn; [|discriminate].
    destruct (tst t0) eqn:Ht0; try discriminate. inversion Hs; subst; clear Hs.
    constructor; simpl in *; auto.
    + intros id0 t Hid H1. destruct (nth_upd_cases _ _ _ _ _ H1) as [(E & E2 & t2 & E3 & E4)|E]; eauto.
    + intros Hc t Hin. destruct (in_upd _ _ _ _ Hin) as [E|E]; auto. congruence.
    + intros h E. exfalso. apply nth_error_In in Hn. destruct (quiescent_spec _ (Ge _ E) _ Hn). congruence.
Qed.

Lemma ginv_reach s : reachable s -> GInv s.
Proof.
  induction 1; eauto using ginv_init.
  eapply ginv_step; eauto. eapply oinv_reach; eauto.
Qed.

(* ---------- 4. statuses are monotone ---------- *)
Theorem pool_status_monotone s t s' id x : step s t = Some s' -> stat (tasks s) id = Some x ->
  exists y, stat (tasks s') id = Some y /\ srank x <= srank y /\ (srank x = 2 -> y = x).
Proof using.
  clear Bpos Wpos. intros Hs Hx. destruct s as [sr ts q p dl pl]. simpl in *.
  destruct t; simpl in Hs.
  - unfold cstep, set_pc in Hs; simpl in Hs.
    destruct p; simpl in *; inv_step; simpl; try (exists x; auto; fail).
    + exists x. split; auto. apply stat_app; auto.
    + destruct (stat_cancel ts q id x Hx) as [E|[-> E]].
      * exists x; auto.
      * exists Cancelled. simpl. repeat split; simpl; auto; try lia; try discriminate.
  - unfold wstart in Hs; simpl in Hs.
    destruct (started _ && _); [|discriminate].
    destruct (first_pending ts) as [n|] eqn:Hfp; [|discriminate]. inversion Hs; subst; clear Hs. simpl.
    destruct (first_pending_spec _ _ Hfp) as (tk & Hn & Hp).
    destruct (Nat.eq_dec n id) as [->|Ne].
    + rewrite (stat_nth _ _ _ Hn) in Hx. inversion Hx; subst.
      exists Running. rewrite (stat_nth _ _ _ (nth_upd_same _ _ Running _ Hn)). rewrite Hp. simpl.
      repeat split; simpl; auto; try lia; try discriminate.
    + exists x. unfold stat in *. rewrite nth_upd_other by auto. auto.
  - unfold wfinish in Hs; simpl in Hs.
    destruct (nth_error ts id0) as [t0|] eqn:Hn; [|discriminate].
    destruct (tst t0) eqn:Ht0; try discriminate. inversion Hs; subst; clear Hs. simpl.
    destruct (Nat.eq_dec id0 id) as [->|Ne].
    + rewrite (stat_nth _ _ _ Hn) in Hx. inversion Hx; subst.
      eexists. rewrite (stat_nth _ _ _ (nth_upd_same _ _ _ _ Hn)). rewrite Ht0. simpl.
      repeat split; simpl; auto; try lia; try discriminate.
    + exists x. unfold stat in *. rewrite nth_upd_other by auto. auto.
Qed.

(* ---------- 2. quiescence at the end ---------- *)
Theorem pool_terminal_quiescent s h : reachable s -> pc s = PEnd h -> quiescent (tasks s) = true.
Proof. intros H E. apply ginv_reach in H. eapply G_end; eauto. Qed.

Theorem pool_no_step_after_end s h : reachable s -> pc s = PEnd h -> forall t, step s t = None.
Proof.
  intros H E t. pose proof (pool_terminal_quiescent _ _ H E) as Q.
  destruct s as [sr ts q p dl pl]. simpl in *. subst p.
  destruct t; simpl; auto.
  unfold wfinish; simpl. destruct (nth_error ts id) as [t0|] eqn:Hn; auto.
  destruct (tst t0) eqn:Ht; auto.
  apply nth_error_In in Hn. destruct (quiescent_spec _ Q _ Hn). congruence.
Qed.

(* ---------- 3. early close cancels what had not started ---------- *)
Theorem pool_close_cancels s : reachable s ->
  (pc s = PExit Closed \/ pc s = PEnd Closed) -> forall t, In t (tasks s) -> tst t <> Pending.
Proof.
  intros H E. apply ginv_reach in H. apply (G_closed _ H).
  destruct E as [-> | ->]; reflexivity.
Qed.

Theorem pool_no_start_after_close s : reachable s ->
  (pc s = PExit Closed \/ pc s = PEnd Closed) -> step s TStart = None.
Proof.
  intros H E. pose proof (pool_close_cancels _ H E) as NP. apply no_pending_first in NP.
  simpl. unfold wstart. rewrite NP. destruct (started s && _); reflexivity.
Qed.

(* ---------- 1. no deadlock ---------- *)
Definition terminal (s : st) : Prop := (exists h, pc s = PEnd h) \/ (pc s = P0 /\ K = Some 0).

(* while the generator is alive, an unfinished task means the executor can move *)
Lemma exec_enabled s : started s = true ->
  (exists t, In t (tasks s) /\ (tst t = Pending \/ tst t = Running)) ->
  exists t s', step s t = Some s'.
Proof.
  intros St (t & Hin & Ht).
  destruct (running_dec (tasks s)) as [(id & tk & Hn & Hr)|R0].
  - exists (TFinish id). simpl. unfold wfinish. rewrite Hn, Hr. eauto.
  - destruct Ht as [Hp|Hr]; [|exfalso; eapply n_running_0; eauto].
    destruct (first_pending_some _ _ Hin Hp) as [id Hf].
    exists TStart. simpl. unfold wstart. rewrite St, R0, Hf.
    replace (0 <? W) with true by lia. simpl. eauto.
Qed.

Theorem pool_progress s : reachable s -> ~ terminal s -> exists t s', step s t = Some s'.
Proof.
  intros H NT. pose proof (oinv_reach _ _ _ _ _ Bpos Wpos _ H) as [Oa Od Ov Ol Oq Ob Op On].
  unfold terminal in NT.
  assert (Wait : forall id, pc s = P3 id (match pc s with P3 _ v => v | _ => 0 end) \/ pc s = P6 id ->
                 id < length (tasks s) -> started s = true ->
                 (forall r, stat (tasks s) id = Some (Done r) -> exists s', cstep B K s = Some s') ->
                 exists t s', step s t = Some s').
  { intros id Hpc Hid St HD.
    destruct (nth_error (tasks s) id) as [tk|] eqn:Hn; [|apply nth_error_None in Hn; lia].
    destruct (tst tk) eqn:Ht.
    - apply exec_enabled; auto. exists tk. split; auto. eapply nth_error_In; eauto.
    - apply exec_enabled; auto. exists tk. split; auto. eapply nth_error_In; eauto.
    - destruct (HD r) as [s' Hs']. { rewrite (stat_nth _ _ _ Hn), Ht. reflexivity. }
      exists TC, s'. exact Hs'.
    - exfalso. apply nth_error_In in Hn. eapply On; eauto.
      destruct Hpc as [-> | ->]; reflexivity. }
  destruct s as [sr ts q p dl pl]. simpl in *.
  destruct p; simpl in *.
  - (* P0 *) exists TC. simpl. unfold cstep; simpl. destruct K as [[|k]|]; eauto. exfalso. apply NT. right; auto.
  - exists TC. simpl. unfold cstep; simpl. destruct sr as [|[v|t] r]; eauto.
  - exists TC. simpl. unfold cstep; simpl. destruct (B <=? _); eauto.
  - (* P3 *) apply (Wait id); auto; try lia.
    intros r Hr. unfold cstep; simpl. rewrite Hr. destruct r; eauto.
  - exists TC. simpl. unfold cstep; simpl. destruct (want_close _ _); eauto.
  - exists TC. simpl. unfold cstep; simpl. eauto.
  - exists TC. simpl. unfold cstep; simpl. destruct (q <? _); eauto.
  - (* P6 *) apply (Wait id); auto; try lia.
    intros r Hr. unfold cstep; simpl. rewrite Hr. destruct r; eauto.
  - exists TC. simpl. unfold cstep; simpl. destruct (want_close _ _); eauto.
  - exists TC. simpl. unfold cstep; simpl. eauto.
  - (* PExit *) destruct (quiescent ts) eqn:Q.
    + exists TC. simpl. unfold cstep; simpl. rewrite Q. eauto.
    + apply exec_enabled; auto. simpl. apply quiescent_false; auto.
  - exfalso. apply NT. left; eauto.
Qed.

End Outcome.

(* ---------- 5. functional outcome for an exhausting consumer ---------- *)
Fixpoint first_fail (l : list sev) : option nat :=
  match l with SOk _ :: r => first_fail r | SFail t :: _ => Some t | [] => None end.

(* results in order up to the first failing application *)
Fixpoint seq_results (fn : nat -> tres) (args : list nat) : list nat * option nat :=
  match args with
  | [] => ([], None)
  | a :: r => match fn a with
              | ROk x => let '(l, e) := seq_results fn r in (x :: l, e)
              | RErr t => ([], Some t)
              end
  end.

(* a failure of the *source* (pulled by the consumer itself) surfaces at once: only the results handed out
   while filling the buffer, i.e. of the first (n - B) elements, have been delivered by then *)
Definition pool_spec (fn : nat -> tres) (B : nat) (src0 : list sev) : list nat * how :=
  let args := oks_before src0 in
  match first_fail src0 with
  | None => let '(l, e) := seq_results fn args in (l, match e with Some t => Raised t | None => Normal end)
  | Some t => let '(l, e) := seq_results fn (firstn (length args - B) args) in
              (l, match e with Some t' => Raised t' | None => Raised t end)
  end.

(* concrete sanity runs of the statement (fair round-robin schedules) *)
Fixpoint rep {A} (n : nat) (l : list A) : list A := match n with 0 => [] | S k => l ++ rep k l end.
Definition sched_eager := rep 60 ([TC; TStart] ++ map TFinish (seq 0 8)).
Definition sched_lazy := rep 200 ([TC; TC; TC; TC; TC; TStart] ++ rev (map TFinish (seq 0 8))).
Definition fail3 (v : nat) : tres := if v =? 3 then RErr 77 else ROk (v * 10).
Definition chk B W fn src sched :=
  let s := run B W None fn (init src) sched in (pc s, delivered s, pool_spec fn B src).
Eval vm_compute in chk 2 2 (fun v => ROk (v * 10)) [SOk 1; SOk 2; SOk 3; SFail 9] sched_eager.
Eval vm_compute in chk 2 2 fail3 [SOk 1; SOk 2; SOk 4; SOk 3; SOk 6; SFail 9] sched_lazy.
Eval vm_compute in chk 2 1 fail3 [SOk 1; SOk 2; SOk 4; SOk 3; SOk 6; SOk 7; SFail 9] sched_lazy.
Eval vm_compute in chk 2 2 fail3 [SOk 1; SOk 2; SOk 3; SOk 5] sched_eager.

Section Exhaust.
Variable B W : nat.
Variable fn : nat -> tres.
Hypothesis Bpos : 1 <= B.
Hypothesis Wpos : 1 <= W.
Variable src0 : list sev.

Notation step := (step B W None fn).
Notation reachable := (reach B W None fn (init src0)).
Notation OInv := (OInv B fn src0).
Notation okres := (fun a x => fn a = ROk x).

Lemma seq_app_ok a1 d a2 : Forall2 okres a1 d ->
  seq_results fn (a1 ++ a2) = (d ++ fst (seq_results fn a2), snd (seq_results fn a2)).
Proof.
  induction 1 as [|a x a1 d Hx F IH]; simpl.
  - destruct (seq_results fn a2); reflexivity.
  - rewrite Hx, IH. reflexivity.
Qed.

Lemma seq_all a1 d : Forall2 okres a1 d -> seq_results fn a1 = (d, None).
Proof. intros F. pose proof (seq_app_ok _ _ [] F) as E. rewrite !app_nil_r in E. exact E. Qed.

Lemma seq_fail a1 d a a2 t : Forall2 okres a1 d -> fn a = RErr t ->
  seq_results fn (a1 ++ a :: a2) = (d, Some t).
Proof. intros F E. rewrite (seq_app_ok _ _ _ F). simpl. rewrite E. simpl. rewrite app_nil_r. reflexivity. Qed.

Lemma seq_fail_firstn a1 d a a2 t m : Forall2 okres a1 d -> fn a = RErr t -> length a1 < m ->
  seq_results fn (firstn m (a1 ++ a :: a2)) = (d, Some t).
Proof.
  intros F E L. rewrite firstn_app. rewrite (firstn_all2 a1) by lia.
  destruct (m - length a1) as [|k] eqn:Ek; [lia|]. simpl. eapply seq_fail; eauto.
Qed.

Lemma out_normal ts dl : Forall2 (res_ok fn) (firstn (length dl) ts) dl -> length dl = length ts ->
  map targ ts = oks_before src0 -> first_fail src0 = None -> (dl, Normal) = pool_spec fn B src0.
Proof.
  intros F L A FF. unfold pool_spec. rewrite FF, <- A.
  rewrite L, firstn_all in F. apply res_ok_map in F. rewrite (seq_all _ _ F). reflexivity.
Qed.

Lemma out_src_fail ts dl t : Forall2 (res_ok fn) (firstn (length dl) ts) dl -> length dl = length ts - B ->
  map targ ts = oks_before src0 -> first_fail src0 = Some t -> (dl, Raised t) = pool_spec fn B src0.
Proof.
  intros F L A FF. unfold pool_spec. rewrite FF, <- A.
  rewrite map_length, <- L, firstn_map.
  apply res_ok_map in F. rewrite (seq_all _ _ F). reflexivity.
Qed.

Lemma out_task_fail ts dl tk t rest :
  Forall2 (res_ok fn) (firstn (length dl) ts) dl -> nth_error ts (length dl) = Some tk -> fn (targ tk) = RErr t ->
  map targ ts ++ rest = oks_before src0 ->
  (first_fail src0 <> None -> length dl + B < length ts + length rest) ->
  (dl, Raised t) = pool_spec fn B src0.
Proof.
  intros F N E A L. unfold pool_spec. rewrite <- A.
  destruct (nth_error_split _ _ N) as (l1 & l2 & -> & Hl).
  rewrite <- Hl in F. rewrite firstn_app, firstn_all, Nat.sub_diag in F. simpl in F. rewrite app_nil_r in F.
  apply res_ok_map in F.
  rewrite map_app. simpl. rewrite <- app_assoc. simpl.
  destruct (first_fail src0) as [t0|].
  - rewrite (seq_fail_firstn _ _ _ _ _ _ F E); [reflexivity|].
    assert (L' : length dl + B < length (l1 ++ tk :: l2) + length rest) by (apply L; discriminate).
    clear - L' Hl. rewrite app_length in L'. simpl in L'.
    rewrite app_length. simpl. rewrite app_length, !map_length. lia.
  - rewrite (seq_fail _ _ _ _ _ F E). reflexivity.
Qed.

Record XInv (s : st) : Prop := {
  X_noterm : pc s <> PTerm;
  X_ff : match pc s with
         | PTerm | PExit _ | PEnd _ => True
         | P5 | P6 _ | PY2 => src s = [] /\ first_fail src0 = None
         | _ => first_fail (src s) = first_fail src0
         end;
  X_q : match pc s with
        | P0 | P1 | P2 _ => qh s = length (tasks s) - B
        | P3 _ _ | PY _ | P4 _ => qh s = length (tasks s) + 1 - B
        | _ => True
        end;
  X_out : forall h, pc s = PExit h \/ pc s = PEnd h -> (delivered s, h) = pool_spec fn B src0
}.

Lemma xinv_init : XInv (init src0).
Proof. constructor; simpl; auto; try discriminate. intros h [E|E]; discriminate. Qed.

Lemma xinv_step s t s' : OInv s -> XInv s -> step s t = Some s' -> XInv s'.
Proof.
  intros [Oa Od Ov Ol Oq Ob Op On] [Xn Xf Xq Xo] Hs. destruct s as [sr ts q p dl pl]. simpl in *.
  destruct t; simpl in Hs.
  - unfold cstep, set_pc in Hs; simpl in Hs.
    destruct p; simpl in *; inv_step; try congruence; constructor; simpl in *; try discriminate; auto;
      rewrite ?app_length in *; simpl in *; try lia.
    all: try (intros h [E|E]; discriminate).
    all: try (match goal with H : stat _ _ = Some _ |- _ => destruct (stat_some _ _ _ H) as (tk & Hn & Ht) end).
    + (* P1, source failed *)
      intros h [E|E]; inversion E; subst. simpl in *. rewrite app_nil_r in Oa.
      eapply out_src_fail; eauto; lia.
    + (* P3, task failed *)
      intros h [E|E]; inversion E; subst. destruct Oq as (E1 & E2 & E3). subst id.
      eapply out_task_fail; eauto.
      * symmetry. eapply Od; eauto.
      * intros _. simpl. lia.
    + (* P5 -> PExit Normal *)
      intros h [E|E]; inversion E; subst. destruct Xf as [-> FF]. simpl in Oa. rewrite app_nil_r in Oa.
      eapply out_normal; eauto; lia.
    + (* P6, task failed *)
      intros h [E|E]; inversion E; subst. destruct Oq as (E1 & E2 & E3). subst id. destruct Xf as [-> FF].
      eapply out_task_fail; eauto.
      * symmetry. eapply Od; eauto.
      * intros NF. congruence.
    + (* PExit -> PEnd *) intros h0 [E|E]; inversion E; subst; apply Xo; auto.
    + intros h0 [E|E]; inversion E; subst; apply Xo; auto.
    + intros h0 [E|E]; inversion E; subst; apply Xo; auto.
  - unfold wstart in Hs; simpl in Hs.
    destruct (started _ && _); [|discriminate].
    destruct (first_pending ts) as [n|]; [|discriminate]. inversion Hs; subst; clear Hs.
    constructor; simpl in *; rewrite ?upd_length; auto.
  - unfold wfinish in Hs; simpl in Hs.
    destruct (nth_error ts id) as [t0|]; [|discriminate].
    destruct (tst t0); try discriminate. inversion Hs; subst; clear Hs.
    constructor; simpl in *; rewrite ?upd_length; auto.
Qed.

Lemma xinv_reach s : reachable s -> XInv s.
Proof.
  induction 1; eauto using xinv_init.
  eapply xinv_step; eauto. eapply oinv_reach; eauto.
Qed.

Theorem pool_exhaust_outcome s h : reachable s -> pc s = PEnd h -> (delivered s, h) = pool_spec fn B src0.
Proof. intros H E. apply xinv_reach in H. apply (X_out _ H). auto. Qed.

End Exhaust.

Print Assumptions pool_progress.
Print Assumptions pool_terminal_quiescent.
Print Assumptions pool_no_step_after_end.
Print Assumptions pool_close_cancels.
Print Assumptions pool_no_start_after_close.
Print Assumptions pool_status_monotone.
Print Assumptions pool_exhaust_outcome.
