(* CycleProofs.v - islice(iter(d.cycle()), k) delivers the first k elements of the endless repetition
   of d's one-pass content (take_cycle against the list-level reference cycle_prefix). *)
From Coq Require Import String.
From Coq Require Import List Arith ZArith Bool Lia ZifyBool ZifyNat.
Require Import LD.Base LD.PySlice LD.Pipeline LD.Ref LD.RefTheorem.
Import ListNotations.
Local Open Scope nat_scope.

(* the reference: the first k elements of the endless repetition of l *)
Fixpoint cycle_prefix {A} (fuel k : nat) (l : list A) : list A :=
  match fuel with
  | O => []
  | S f => if k <=? length l then firstn k l else l ++ cycle_prefix f (k - length l) l
  end.

Lemma length_pos_of_ne {A} (l : list A) : l <> [] -> 1 <= length l.
Proof. destruct l; [congruence | simpl; lia]. Qed.

(* generalised over the fuel and the number of repetitions *)
Lemma cycle_prefix_gen {A} (l : list A) : l <> [] ->
  forall fuel k m, k < fuel -> k < m ->
  cycle_prefix fuel k l = firstn k (concat (repeat l m)).
Proof.
  intros Hne. pose proof (length_pos_of_ne l Hne) as Hlen.
  induction fuel as [|f IH]; intros k m Hf Hm; [lia|].
  destruct m as [|m]; [lia|].
  simpl. rewrite firstn_app.
  destruct (k <=? length l) eqn:Hk.
  - apply Nat.leb_le in Hk.
    replace (k - length l) with 0 by lia. simpl. now rewrite app_nil_r.
  - apply Nat.leb_gt in Hk.
    rewrite (firstn_all2 l) by lia.
    f_equal. apply IH; lia.
Qed.

Lemma cycle_prefix_spec {A} (l : list A) k :
  l <> [] -> cycle_prefix (S k) k l = firstn k (concat (repeat l (S k))).
Proof. intros Hne. apply cycle_prefix_gen; auto; lia. Qed.

Lemma concat_repeat_length {A} (l : list A) m :
  length (concat (repeat l m)) = m * length l.
Proof. induction m; simpl; auto. rewrite app_length, IHm. lia. Qed.

(* the reference really has k elements *)
Lemma cycle_prefix_length {A} (l : list A) k :
  l <> [] -> length (cycle_prefix (S k) k l) = k.
Proof.
  intros Hne. rewrite cycle_prefix_spec by assumption.
  apply firstn_length_le. rewrite concat_repeat_length.
  pose proof (length_pos_of_ne l Hne). nia.
Qed.

Lemma take_cycle_trace_gen (l : list val) : l <> [] ->
  forall fuel k, k < fuel ->
  take_cycle_fuel fuel k (l, End) = (cycle_prefix fuel k l, End).
Proof.
  intros Hne. pose proof (length_pos_of_ne l Hne) as Hlen.
  induction fuel as [|f IH]; intros k Hf; [lia|].
  cbn [take_cycle_fuel cycle_prefix fst snd].
  destruct (k =? 0) eqn:Hk0.
  - apply Nat.eqb_eq in Hk0. subst k. reflexivity.
  - apply Nat.eqb_neq in Hk0.
    destruct (k <=? length l) eqn:Hk; [reflexivity|].
    apply Nat.leb_gt in Hk.
    destruct (length l =? 0) eqn:Hl0; [apply Nat.eqb_eq in Hl0; lia|].
    rewrite IH by lia. reflexivity.
Qed.

Theorem take_cycle_trace_ok k (l : list val) : l <> [] ->
  take_cycle_fuel (S k) k (l, End) = (cycle_prefix (S k) k l, End).
Proof. intros Hne. apply take_cycle_trace_gen; auto. Qed.

Theorem cycle_is_repetition d t k : wfb d = true -> tbl d = Some t -> t <> [] ->
  take_cycle false k d = (firstn k (concat (repeat (vals t) (S k))), End).
Proof.
  intros Hwf Ht Hne. destruct (agrees_of_tbl d t Hwf Ht) as [Hit _ _ _ _ _].
  assert (Hv : vals t <> []) by (destruct t; [congruence | simpl; discriminate]).
  unfold take_cycle. rewrite Hit, take_cycle_trace_ok by assumption.
  now rewrite cycle_prefix_spec.
Qed.

Theorem cycle_items_is_repetition d t k :
  wfb d = true -> tbl d = Some t -> t <> [] -> keyedb d = true ->
  take_cycle true k d = (firstn k (concat (repeat (pairs t) (S k))), End).
Proof.
  intros Hwf Ht Hne Hk. destruct (agrees_of_tbl d t Hwf Ht) as [_ Hit _ _ _ _].
  assert (Hv : pairs t <> []) by (destruct t; [congruence | simpl; discriminate]).
  unfold take_cycle. rewrite (Hit Hk), take_cycle_trace_ok by assumption.
  now rewrite cycle_prefix_spec.
Qed.

(* the degenerate case the real code cannot finish *)
Theorem cycle_empty_pass d k : wfb d = true -> tbl d = Some [] -> 1 <= k ->
  take_cycle false k d = ([], Raised (lib ERuntime)).
Proof.
  intros Hwf Ht Hk. destruct (agrees_of_tbl d [] Hwf Ht) as [Hit _ _ _ _ _].
  unfold take_cycle. rewrite Hit. simpl vals.
  destruct k as [|k]; [lia|]. reflexivity.
Qed.

Print Assumptions cycle_prefix_spec.
Print Assumptions cycle_prefix_length.
Print Assumptions take_cycle_trace_ok.
Print Assumptions cycle_is_repetition.
Print Assumptions cycle_items_is_repetition.
Print Assumptions cycle_empty_pass.
