(* BucketTie.v - projection of Model D's event list to what the consumer of the real
   DynamicBucketDataset can observe: the emitted batches (example ids) and, at each hand-over,
   how many source examples had been pulled. *)
From Coq Require Import List Arith Bool QArith.
Import ListNotations.
Require Import LD.Bucket.
Local Close Scope Q_scope.

Fixpoint proj (evs : list (outb tex * nat)) (handed dropped : nat) : list (list nat * nat) :=
  match evs with
  | [] => []
  | (Emit _ _ l, w) :: r => (map fst l, w + handed + length l + dropped) :: proj r (handed + length l) dropped
  | (Drop _ l, w) :: r => proj r handed (dropped + length l)
  end.

Definition obs_eqb (a b : list (list nat * nat)) : bool :=
  (length a =? length b) &&
  forallb (fun p => (length (fst (fst p)) =? length (fst (snd p))) &&
                    forallb (fun q => fst q =? snd q) (combine (fst (fst p)) (fst (snd p))) &&
                    (snd (fst p) =? snd (snd p))) (combine a b).

(* a case: parameters, input, and what the implementation showed (None = it raised) *)
Record bcase := mkB {
  c_bs : nat; c_rate : Q; c_mts : option Q; c_exp : option nat; c_maxbuf : option nat;
  c_drop : bool; c_sort : nat; c_xs : list tex; c_seen : option (list (list nat * nat)) }.

Definition model_obs (c : bcase) : option (list (list nat * nat)) :=
  option_map (fun evs => proj evs 0 0)
             (ts_run (c_bs c) (c_rate c) (c_mts c) (c_exp c) (c_maxbuf c) (c_drop c) (c_sort c) (c_xs c)).

Definition case_ok (c : bcase) : bool :=
  match model_obs c, c_seen c with
  | Some a, Some b => obs_eqb a b
  | None, None => true
  | _, _ => false
  end.

Fixpoint bad_cases (j : nat) (cs : list bcase) : list (nat * option (list (list nat * nat))) :=
  match cs with
  | [] => []
  | c :: r => if case_ok c then bad_cases (S j) r else (j, model_obs c) :: bad_cases (S j) r
  end.
