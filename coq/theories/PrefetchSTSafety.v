From Coq Require Import List Arith Bool Lia ZifyBool ZifyNat.
Import ListNotations.
Require Import LD.PrefetchST.

Section Safety.
Variable B : nat.
Variable K : option nat.
Variable cb : bool.
Hypothesis Bpos : 1 <= B.
Variable src0 : list sev.

Notation step := (step B K cb).

Definition hand_c (c : cpc) : list nat := match c with C2 (Val v) => [v] | _ => [] end.
Definition hand_w (w : wpc) : list nat := match w with W2 v | W3 v => [v] | _ => [] end.
Definition post_shutdown (c : cpc) : bool := match c with C5 | C6 | C7 | CEnd => true | _ => false end.

(* everything pulled and not lost is accounted for, in source order *)
Definition stream_of (s : st) : list nat :=
  delivered s ++ hand_c (cp s) ++ vals (q s) ++ hand_w (wp s) ++ oks_before (src s).

Record SInv (s : st) : Prop := {
  S_sd    : shutdown s = post_shutdown (cp s);
  S_order : shutdown s = false -> stream_of s = oks_before src0;
  S_pref  : exists rest, delivered s ++ rest = oks_before src0;
  S_qB    : length (q s) <= B;
  S_pull1 : shutdown s = false ->
            pulled s = length (delivered s) + length (hand_c (cp s)) + length (vals (q s)) + length (hand_w (wp s));
  S_pull2 : shutdown s = true ->
            pulled s + (match wp s with W1 => 1 | _ => 0 end) <= length (delivered s) + B + 1
            /\ length (vals (q s)) + length (hand_w (wp s)) + (match wp s with W1 => 1 | _ => 0 end) <= B + 1;
}.

Lemma vals_app a b : vals (a ++ b) = vals a ++ vals b.
Proof. unfold vals. apply flat_map_app. Qed.
Lemma vals_len l : length (vals l) <= length l.
Proof. induction l as [|[v|] l IH]; simpl; lia. Qed.

Lemma sinv_init : SInv (init src0).
Proof. constructor; simpl; intros; try discriminate; try lia; auto. exists (oks_before src0); auto. Qed.

Ltac inv_step :=
  repeat match goal with
  | H : Some _ = Some _ |- _ => inversion H; subst; clear H
  | H : None = Some _ |- _ => discriminate
  | H : context [if ?b then _ else _] |- _ => destruct b eqn:?
  | H : context [match ?x with _ => _ end] |- _ => destruct x eqn:?
  end.

Lemma sinv_step s t s' : SInv s -> step s t = Some s' -> SInv s'.
Proof.
  intros [Ssd Sord [rest Spref] SqB Sp1 Sp2] Hs.
  destruct s as [sr qq sd ex w c dl pl cl di]. unfold stream_of in *. simpl in *.
  destruct t; simpl in Hs.
  - unfold cstep, set_c in Hs; simpl in Hs.
    destruct c; simpl in *; subst sd; inv_step;
    constructor; unfold stream_of; simpl in *; intros;
    try discriminate; try reflexivity; try lia; eauto;
    repeat match goal with H : ?x = ?x -> _ |- _ => specialize (H eq_refl) end;
    rewrite ?app_length, <- ?app_assoc in *; simpl in *; try lia; try assumption.
    all: try (eexists; rewrite <- app_assoc; simpl; eassumption).
    all: try (destruct w; simpl in *; pose proof (vals_len qq); lia).
    all: try (match goal with i : item |- _ => destruct i end; simpl in *; try assumption; try lia).
    all: try (destruct w; simpl in *; match goal with l : list item |- _ => pose proof (vals_len l) end; lia).
  - unfold wstep, set_w in Hs; simpl in Hs.
    destruct c; try discriminate; simpl in *; subst sd;
    destruct w; inv_step; constructor; unfold stream_of; simpl in *; intros;
    try discriminate; try reflexivity; eauto;
    repeat match goal with H : ?x = ?x -> _ |- _ => specialize (H eq_refl) end;
    rewrite ?vals_app, ?app_length, <- ?app_assoc in *; simpl in *;
    try apply Nat.ltb_lt in Heqb; try lia; try assumption.
Qed.

Lemma sinv_reach s : reach B K cb (init src0) s -> SInv s.
Proof. induction 1; eauto using sinv_init, sinv_step. Qed.

Theorem st_delivered_prefix s : reach B K cb (init src0) s -> exists rest, delivered s ++ rest = oks_before src0.
Proof. intros H. apply sinv_reach in H. destruct H. assumption. Qed.

Theorem st_readahead s : reach B K cb (init src0) s -> pulled s <= length (delivered s) + B + 2.
Proof.
  intros H. apply sinv_reach in H. destruct H as [Ssd _ _ SqB Sp1 Sp2].
  destruct (shutdown s) eqn:E.
  - destruct (Sp2 eq_refl). lia.
  - rewrite (Sp1 eq_refl). pose proof (vals_len (q s)).
    assert (length (hand_c (cp s)) <= 1) by (destruct (cp s) as [| |[|]| | | | | |]; simpl; lia).
    assert (length (hand_w (wp s)) <= 1) by (destruct (wp s); simpl; lia).
    lia.
Qed.
End Safety.
Print Assumptions st_readahead.

