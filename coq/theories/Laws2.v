(* Laws2.v - further algebraic laws on the eager reference `tbl` (round 14): composition of filters, filter
   over concatenation, flattening of nested concatenations, the singleton concatenation, composition of
   arbitrary integer-array selections and selection over a concatenation.
   Standard library only; no axioms. *)
From Coq Require Import String.
From Coq Require Import List Arith ZArith Bool Lia ZifyBool ZifyNat.
Require Import LD.Base LD.PySlice LD.Pipeline LD.Build LD.BuildExtra LD.Ref LD.Laws.
Import ListNotations.
Local Open Scope nat_scope.

(* ------------------------------------------------------------------------------------------ *)
(* helpers on omapM *)
Lemma omapM_cons {A B} (f : A -> option B) a l :
  omapM f (a :: l) = obind (f a) (fun b => obind (omapM f l) (fun r => Some (b :: r))).
Proof. reflexivity. Qed.

Lemma omapM_app {A B} (f : A -> option B) l1 l2 :
  omapM f (l1 ++ l2) = obind (omapM f l1) (fun r1 => obind (omapM f l2) (fun r2 => Some (r1 ++ r2))).
Proof.
  induction l1 as [|a l1 IH]; cbn [app].
  - cbn [omapM obind]. destruct (omapM f l2); reflexivity.
  - rewrite !omapM_cons, IH. destruct (f a); cbn [obind]; [|reflexivity].
    destruct (omapM f l1); cbn [obind]; [|reflexivity].
    destruct (omapM f l2); reflexivity.
Qed.

(* ------------------------------------------------------------------------------------------ *)
(* 1. filter(q).filter(p) = filter(q and then p): p is evaluated only on the examples q keeps *)
Definition and_then (q p : val -> res bool) : val -> res bool :=
  fun v => match q v with Ok true => p v | Ok false => Ok false | Err e => Err e end.

Lemma filter_rows_compose q p (t : tab) :
  obind (filter_rows q t) (filter_rows p) = filter_rows (and_then q p) t.
Proof.
  induction t as [|kv t IH]; [reflexivity|].
  cbn [filter_rows]. unfold and_then at 1.
  destruct (q (snd kv)) as [[|]|e]; cbn [obind].
  - destruct (filter_rows q t) as [tq|]; cbn [option_map obind] in *.
    + cbn [filter_rows]. destruct (p (snd kv)) as [[|]|e']; try reflexivity.
      * rewrite IH. reflexivity.
      * exact IH.
    + destruct (p (snd kv)) as [[|]|e']; try reflexivity.
      * rewrite <- IH. reflexivity.
      * exact IH.
  - exact IH.
  - reflexivity.
Qed.

Theorem law_filter_filter q p d : tbl (DFilter p (DFilter q d)) = tbl (DFilter (and_then q p) d).
Proof.
  cbn [tbl]. destruct (tbl d) as [t|]; cbn [obind]; [|reflexivity]. apply filter_rows_compose.
Qed.

(* ------------------------------------------------------------------------------------------ *)
(* 2. filter distributes over concatenation *)
Lemma filter_rows_app p (a b : tab) :
  filter_rows p (a ++ b) = obind (filter_rows p a) (fun a' => option_map (app a') (filter_rows p b)).
Proof.
  induction a as [|kv a IH]; cbn [app filter_rows obind].
  - destruct (filter_rows p b); reflexivity.
  - destruct (p (snd kv)) as [[|]|e]; try reflexivity.
    + rewrite IH. destruct (filter_rows p a); cbn [option_map obind]; [|reflexivity].
      destruct (filter_rows p b); reflexivity.
    + exact IH.
Qed.

Lemma concat_filter_rows_gen p {A} (T : A -> option tab) l :
  obind (option_map (@concat _) (omapM T l)) (filter_rows p)
  = option_map (@concat _) (omapM (fun x => obind (T x) (filter_rows p)) l).
Proof.
  induction l as [|d l IH]; [reflexivity|].
  rewrite !omapM_cons.
  destruct (T d) as [t|]; cbn [obind option_map]; [|reflexivity].
  destruct (omapM T l) as [ts|]; cbn [obind option_map] in *.
  - cbn [concat]. rewrite filter_rows_app. destruct (filter_rows p t); cbn [obind option_map]; [|reflexivity].
    rewrite IH. destruct (omapM _ l); reflexivity.
  - destruct (filter_rows p t); cbn [obind option_map]; [|reflexivity].
    destruct (omapM _ l); cbn [obind option_map] in *; [discriminate|reflexivity].
Qed.

Theorem law_filter_concat p l : tbl (DFilter p (DConcat l)) = tbl (DConcat (map (DFilter p) l)).
Proof.
  change (obind (option_map (@concat _) (omapM tbl l)) (filter_rows p)
          = option_map (@concat _) (omapM tbl (map (DFilter p) l))).
  rewrite omapM_map. apply concat_filter_rows_gen.
Qed.

(* ------------------------------------------------------------------------------------------ *)
(* 3. concatenation is associative: a nested concatenation can be flattened in place; [d] alone is d *)
Theorem law_concat_single d : tbl (DConcat [d]) = tbl d.
Proof.
  cbn [tbl]. rewrite omapM_cons. destruct (tbl d) as [t|]; cbn [obind omapM option_map concat]; [|reflexivity].
  rewrite app_nil_r. reflexivity.
Qed.

Theorem law_concat_flatten l1 l2 l3 :
  tbl (DConcat (l1 ++ DConcat l2 :: l3)) = tbl (DConcat (l1 ++ l2 ++ l3)).
Proof.
  cbn [tbl]. rewrite !omapM_app, omapM_cons. cbn [tbl].
  destruct (omapM tbl l1) as [t1|]; cbn [obind option_map]; [|reflexivity].
  destruct (omapM tbl l2) as [t2|]; cbn [obind option_map]; [|reflexivity].
  destruct (omapM tbl l3) as [t3|]; cbn [obind option_map]; [|reflexivity].
  rewrite !concat_app. cbn [concat]. rewrite app_assoc. rewrite <- !app_assoc. reflexivity.
Qed.

(* ------------------------------------------------------------------------------------------ *)
(* 4. selections compose: ds[j][i] = ds[[j[x] for x in i]] for arbitrary index arrays *)
Lemma select_nth {A} (idx : list nat) (l l1 : list A) : select idx l = Some l1 ->
  forall k, nth_error l1 k = obind (nth_error idx k) (nth_error l).
Proof.
  unfold select. revert l1. induction idx as [|i idx IH]; intros l1 H k.
  - cbn in H. injection H as <-. destruct k; reflexivity.
  - rewrite omapM_cons in H. destruct (nth_error l i) as [x|] eqn:Ex; cbn [obind] in H; [|discriminate].
    destruct (omapM (nth_error l) idx) as [r|]; cbn [obind] in H; [|discriminate].
    injection H as <-. destruct k as [|k]; cbn [nth_error obind].
    + symmetry. exact Ex.
    + apply IH. reflexivity.
Qed.

Lemma select_select {A} (i j jj : list nat) (l l1 : list A) :
  select j l = Some l1 -> select i j = Some jj -> select i l1 = select jj l.
Proof.
  intros Hj. pose proof (select_nth _ _ _ Hj) as N. clear Hj.
  unfold select. revert jj. induction i as [|x i IH]; intros jj Hi.
  - cbn in Hi. injection Hi as <-. reflexivity.
  - rewrite omapM_cons in Hi. destruct (nth_error j x) as [y|] eqn:Ey; cbn [obind] in Hi; [|discriminate].
    destruct (omapM (nth_error j) i) as [r|] eqn:Er; cbn [obind] in Hi; [|discriminate].
    injection Hi as <-. rewrite !omapM_cons. rewrite N, Ey. cbn [obind].
    rewrite (IH r eq_refl). reflexivity.
Qed.

Theorem law_slice_slice i j jj d t1 :
  tbl (DSlice j d) = Some t1 -> select i j = Some jj ->
  tbl (DSlice i (DSlice j d)) = tbl (DSlice jj d).
Proof.
  intros H1 Hi. cbn [tbl] in *.
  assert (X : ixok (DSlice j d) = ikeyed d) by reflexivity. rewrite X.
  destruct (ixok d) eqn:Ed; [|discriminate].
  unfold ixok in Ed. apply andb_true_iff in Ed as [_ Ek]. rewrite Ek.
  destruct (tbl d) as [t|]; cbn [obind] in *; [|discriminate].
  rewrite H1. cbn [obind]. eapply select_select; eassumption.
Qed.

(* an outer index that the inner selection does not have is refused, whatever the source holds *)
Theorem law_slice_slice_range i j d t1 :
  tbl (DSlice j d) = Some t1 -> select i j = None -> tbl (DSlice i (DSlice j d)) = None.
Proof.
  intros H1 Hi. cbn [tbl] in *.
  destruct (ikeyed d && true) eqn:E0.
  2:{ destruct (indexable (DSlice j d) && ikeyed (DSlice j d)) eqn:E1; [|unfold ixok at 1; rewrite E1; reflexivity].
      cbn in E1. rewrite andb_true_r in E0. rewrite E0 in E1. discriminate. }
  destruct (ixok d); [|discriminate].
  destruct (tbl d) as [t|]; cbn [obind] in *; [|discriminate].
  rewrite H1. cbn [obind].
  assert (L : length t1 = length j) by (eapply RefLemmas_A1.omapM_length; exact H1).
  destruct (ixok (DSlice j d)); [|reflexivity].
  unfold select in *. clear H1.
  induction i as [|x i IH]; [discriminate|].
  rewrite omapM_cons in Hi. rewrite omapM_cons.
  destruct (nth_error j x) as [y|] eqn:Ey; cbn [obind] in *.
  - destruct (nth_error t1 x); cbn [obind]; [|reflexivity].
    destruct (omapM (nth_error j) i) eqn:Er; cbn [obind] in Hi; [discriminate|].
    rewrite IH; reflexivity.
  - apply nth_error_None in Ey. rewrite <- L in Ey. apply nth_error_None in Ey. rewrite Ey. reflexivity.
Qed.

(* ------------------------------------------------------------------------------------------ *)
(* 5. the identity selection *)
Lemma select_seq {A} (l : list A) : select (seq 0 (length l)) l = Some l.
Proof.
  unfold select.
  assert (G : forall (pre : list A), omapM (nth_error (pre ++ l)) (seq (length pre) (length l)) = Some l).
  { induction l as [|a l IH]; intros pre; [reflexivity|].
    cbn [length seq]. rewrite omapM_cons.
    rewrite nth_error_app2 by lia. rewrite Nat.sub_diag. cbn [nth_error obind].
    specialize (IH (pre ++ [a])). rewrite <- app_assoc in IH. cbn [app] in IH.
    rewrite app_length in IH. cbn [length] in IH. rewrite Nat.add_1_r in IH. rewrite IH. reflexivity. }
  exact (G []).
Qed.

Theorem law_slice_all d t : ixok d = true -> tbl d = Some t -> tbl (DSlice (seq 0 (length t)) d) = Some t.
Proof. intros I T. cbn [tbl]. rewrite I, T. cbn [obind]. apply select_seq. Qed.

(* ------------------------------------------------------------------------------------------ *)
(* 6. unbatch distributes over concatenation (generic: every stage whose reference is a monoid homomorphism on tables) *)
Lemma concat_hom_gen (U : tab -> option tab)
  (HUapp : forall a b, U (a ++ b) = obind (U a) (fun a' => option_map (app a') (U b)))
  (HU0 : U [] = Some []) {A} (T : A -> option tab) l :
  obind (option_map (@concat _) (omapM T l)) U
  = option_map (@concat _) (omapM (fun x => obind (T x) U) l).
Proof.
  induction l as [|d l IH]; [cbn; exact HU0|].
  rewrite !omapM_cons.
  destruct (T d) as [t|]; cbn [obind option_map]; [|reflexivity].
  destruct (omapM T l) as [ts|]; cbn [obind option_map] in *.
  - cbn [concat]. rewrite HUapp. destruct (U t); cbn [obind option_map]; [|reflexivity].
    rewrite IH. destruct (omapM _ l); reflexivity.
  - destruct (U t); cbn [obind option_map]; [|reflexivity].
    destruct (omapM _ l); cbn [obind option_map] in *; [discriminate|reflexivity].
Qed.

Definition unbatch_rows (t : tab) : option tab :=
  option_map (fun bs => nokey (concat bs)) (omapM seq_elems (vals t)).

Lemma unbatch_rows_app a b :
  unbatch_rows (a ++ b) = obind (unbatch_rows a) (fun a' => option_map (app a') (unbatch_rows b)).
Proof.
  unfold unbatch_rows, vals, nokey. rewrite map_app, omapM_app.
  destruct (omapM seq_elems (map snd a)) as [ra|]; cbn [obind option_map]; [|reflexivity].
  destruct (omapM seq_elems (map snd b)) as [rb|]; cbn [obind option_map]; [|reflexivity].
  rewrite concat_app, map_app. reflexivity.
Qed.

Theorem law_unbatch_concat l : tbl (DUnbatch (DConcat l)) = tbl (DConcat (map DUnbatch l)).
Proof.
  change (obind (option_map (@concat _) (omapM tbl l)) unbatch_rows
          = option_map (@concat _) (omapM tbl (map DUnbatch l))).
  rewrite omapM_map. apply (concat_hom_gen unbatch_rows unbatch_rows_app eq_refl).
Qed.
