From Coq Require Import List Arith Bool Lia ZifyBool ZifyNat.
Import ListNotations.
Require Import LD.Pool.

(* ---------- list-of-tasks lemmas ---------- *)
Lemma upd_length l i s : length (upd l i s) = length l.
Proof. revert i; induction l as [|t r IH]; intros [|i]; simpl; auto. Qed.

Lemma nth_upd_same l i s t : nth_error l i = Some t -> nth_error (upd l i s) i = Some (mkT (targ t) s).
Proof. revert i; induction l as [|a r IH]; intros [|i] H; simpl in *; try discriminate; auto. inversion H; auto. Qed.

Lemma nth_upd_other l i j s : i <> j -> nth_error (upd l i s) j = nth_error l j.
Proof. revert i j; induction l as [|a r IH]; intros [|i] [|j] H; simpl; auto; try lia. Qed.

Lemma upd_targs l i s : map targ (upd l i s) = map targ l.
Proof. revert i; induction l as [|a r IH]; intros [|i]; simpl; auto. f_equal; auto. Qed.

Lemma cancel_length l f : length (cancel_from l f) = length l.
Proof. revert f; induction l as [|t r IH]; intros [|f]; simpl; auto. Qed.

Lemma cancel_targs l f : map targ (cancel_from l f) = map targ l.
Proof. revert f; induction l as [|t r IH]; intros [|f]; simpl; auto; f_equal; auto.
  destruct (is_pending t); auto. Qed.

Lemma first_pending_spec l id : first_pending l = Some id ->
  exists t, nth_error l id = Some t /\ tst t = Pending.
Proof.
  revert id; induction l as [|a r IH]; simpl; intros id H; try discriminate.
  destruct (is_pending a) eqn:E.
  - inversion H; subst. exists a. split; auto. unfold is_pending in E. destruct (tst a); auto; discriminate.
  - destruct (first_pending r) eqn:F; simpl in H; try discriminate. inversion H; subst. apply IH; auto.
Qed.

Lemma first_pending_none l : first_pending l = None -> forall t, In t l -> tst t <> Pending.
Proof.
  induction l as [|a r IH]; simpl; intros H t Ht; try contradiction.
  destruct (is_pending a) eqn:E; try discriminate.
  destruct (first_pending r) eqn:F; simpl in H; try discriminate.
  destruct Ht as [->|Ht]; auto. unfold is_pending in E. destruct (tst t); auto; discriminate.
Qed.

(* ---------- measure ---------- *)
Definition tweight (t : task) : nat := match tst t with Pending => 2 | Running => 1 | _ => 0 end.
Definition tsum (l : list task) : nat := fold_right (fun t a => tweight t + a) 0 l.

Definition rank (p : ppc) : nat :=
  match p with
  | PEnd _ => 0 | PExit _ => 1 | PTerm => 2 | P5 => 4 | PY2 => 5 | P6 _ => 6
  | P1 => 7 | P4 _ => 18 | PY _ => 19 | P3 _ _ => 20 | P2 _ => 21 | P0 => 22
  end.

Definition mu (s : st) : nat :=
  20 * length (src s) + tsum (tasks s) + 8 * (length (tasks s) - qh s) + rank (pc s).

Lemma tsum_app a b : tsum (a ++ b) = tsum a + tsum b.
Proof. induction a; simpl; auto. lia. Qed.

Lemma tsum_upd l i s t : nth_error l i = Some t ->
  tsum (upd l i s) + tweight t = tsum l + tweight (mkT (targ t) s).
Proof. revert i; induction l as [|a r IH]; intros [|i] H; simpl in *; try discriminate.
  - inversion H; subst. unfold tweight; simpl. lia.
  - specialize (IH _ H). lia. Qed.

Lemma tsum_cancel l f : tsum (cancel_from l f) <= tsum l.
Proof. revert f; induction l as [|a r IH]; intros [|f]; simpl; auto.
  - specialize (IH 0). destruct (is_pending a) eqn:E; unfold tweight in *; simpl in *; try lia.
  - specialize (IH f). lia. Qed.

Section M.
Variable B W : nat.
Variable K : option nat.
Variable fn : nat -> tres.
Hypothesis Bpos : 1 <= B.

Notation step := (step B W K fn).

Ltac inv_step :=
  repeat match goal with
  | H : Some _ = Some _ |- _ => inversion H; subst; clear H
  | H : None = Some _ |- _ => discriminate
  | H : context [if ?b then _ else _] |- _ => destruct b eqn:?
  | H : context [match ?x with _ => _ end] |- _ => destruct x eqn:?
  end.

(* qh never exceeds the number of submitted tasks *)
Definition QInv (s : st) : Prop := qh s <= length (tasks s).

Lemma qinv_step s t s' : QInv s -> step s t = Some s' -> QInv s'.
Proof.
  unfold QInv. intros Q Hs. destruct s as [sr ts q p dl pl]. simpl in *.
  destruct t; simpl in Hs.
  - unfold cstep, set_pc in Hs; simpl in Hs. destruct p; inv_step; simpl; rewrite ?app_length, ?cancel_length; simpl; try lia.
  - unfold wstart in Hs; simpl in Hs. inv_step; simpl. rewrite upd_length. lia.
  - unfold wfinish in Hs; simpl in Hs. inv_step; simpl. rewrite upd_length. lia.
Qed.

Theorem measure_decreases s t s' : QInv s -> step s t = Some s' -> mu s' < mu s.
Proof.
  unfold QInv. intros Q Hs. destruct s as [sr ts q p dl pl]. unfold mu. simpl in *.
  destruct t; simpl in Hs.
  - unfold cstep, set_pc in Hs; simpl in Hs.
    destruct p; inv_step; simpl; rewrite ?app_length, ?tsum_app, ?cancel_length; simpl; unfold tweight; simpl; try lia.
    + pose proof (tsum_cancel ts q). lia.
  - unfold wstart in Hs; simpl in Hs. inv_step; simpl. rewrite upd_length.
    destruct (first_pending_spec _ _ Heqo) as (t & Hn & Hp).
    pose proof (tsum_upd ts n Running t Hn) as E. unfold tweight in E; simpl in E. rewrite Hp in E. lia.
  - unfold wfinish in Hs; simpl in Hs. inv_step; simpl. rewrite upd_length.
    pose proof (tsum_upd ts id (Done (fn (targ t))) t Heqo) as E. unfold tweight in E; simpl in E. rewrite Heqt0 in E. lia.
Qed.
End M.
Print Assumptions measure_decreases.
