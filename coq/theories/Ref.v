(* Ref.v - the eager reference semantics (Spec) of a stage descriptor, written with Python-list
   operations only (map, filter, selection by position, ++, chunking, transposition, assoc) and
   NEVER through get_i / get_k / iter_, plus the statement of what "the model agrees with the
   reference" means.  Proofs: RefLemmas*.v, assembled in RefTheorem.v. *)
From Coq Require Import String.
From Coq Require Import List Arith ZArith Bool Lia.
Require Import LD.Base LD.PySlice LD.Pipeline.
Import ListNotations.
Open Scope Z_scope.

Definition tab := list (key * val).           (* one row per example: its key ("" if the stage has none) and value *)
Definition nokey (vs : list val) : tab := map (fun v => (EmptyString, v)) vs.
Definition vals (t : tab) : list val := map snd t.
Definition pairs (t : tab) : list val := map (fun kv => pair_of (fst kv) (snd kv)) t.

Definition obind {A B} (o : option A) (f : A -> option B) : option B :=
  match o with Some a => f a | None => None end.
Definition omapM {A B} (f : A -> option B) : list A -> option (list B) :=
  fix go (l : list A) : option (list B) :=
  match l with
  | [] => Some []
  | a :: t => obind (f a) (fun b => obind (go t) (fun r => Some (b :: r)))
  end.

Definition assoc (k : key) (t : tab) : option val :=
  option_map snd (find (fun kv => String.eqb k (fst kv)) t).
Definition functional (t : tab) : Prop :=
  forall k v v', In (k, v) t -> In (k, v') t -> v = v'.

Definition keys_ok (d : ds) : bool := match keys_ d with Ok _ => true | Err _ => false end.

(* does d.__iter__(with_key=True) deliver pairs *)
Fixpoint keyedb (d : ds) : bool :=
  match d with
  | DList _ | DListWu _ | DZip _ | DBatch _ _ _ | DUnbatch _ => false
  | DDict _ | DKeyZip _ => true
  | DMap _ d | DParMap _ _ _ d | DFilter _ d | DCycle d | DItems d => keyedb d
  | DCatch _ d | DSlice _ d | DCache d => keys_ok d
  | DPrefetch w _ E d =>
      if (w =? 1)%nat then (match E with Some _ => keys_ok d | None => keyedb d end) else false
  | DConcat l | DIntersperse _ l => forallb keyedb l
  end.

(* every items() stage sits on an input whose keys() succeeds (premise of integer indexing, F15) *)
Fixpoint ikeyed (d : ds) : bool :=
  match d with
  | DList _ | DListWu _ | DDict _ => true
  | DMap _ d | DParMap _ _ _ d | DFilter _ d | DCatch _ d | DPrefetch _ _ _ d | DSlice _ d
  | DBatch _ _ d | DUnbatch d | DCycle d | DCache d => ikeyed d
  | DItems d => keys_ok d && ikeyed d
  | DConcat l | DIntersperse _ l | DZip l | DKeyZip l => forallb ikeyed l
  end.
Definition ixok (d : ds) : bool := indexable d && ikeyed d.

(* well-formed descriptors: a Python dict has unique keys *)
Fixpoint wfb (d : ds) : bool :=
  match d with
  | DList _ | DListWu _ => true
  | DDict kvs => nodupb (map fst kvs)
  | DMap _ d | DParMap _ _ _ d | DFilter _ d | DCatch _ d | DPrefetch _ _ _ d | DSlice _ d
  | DBatch _ _ d | DUnbatch d | DCycle d | DCache d | DItems d => wfb d
  | DConcat l | DIntersperse _ l | DZip l | DKeyZip l => forallb wfb l
  end.

(* ---- list-level reference operations ---- *)
Definition map_rows (f : val -> res val) (t : tab) : option tab :=
  omapM (fun kv => match f (snd kv) with Ok w => Some (fst kv, w) | Err _ => None end) t.
Fixpoint filter_rows (p : val -> res bool) (t : tab) : option tab :=
  match t with
  | [] => Some []
  | kv :: r => match p (snd kv) with
               | Ok true => option_map (cons kv) (filter_rows p r)
               | Ok false => filter_rows p r
               | Err _ => None
               end
  end.
Definition select {A} (idx : list nat) (l : list A) : option (list A) := omapM (nth_error l) idx.

(* [l[j*n : (j+1)*n] for j in range(number of batches)] *)
Definition ref_chunks (n : nat) (drop : bool) (l : list val) : list val :=
  let m := length l in
  let nb := (if drop then m / n else (m + n - 1) / n)%nat in
  map (fun j => VList (firstn n (skipn (j * n) l))) (seq 0 nb).

Definition seq_elems (v : val) : option (list val) :=
  match v with VList b | VTup b => Some b | _ => None end.

Definition same_lengths {A} (ls : list (list A)) : bool :=
  match ls with [] => false | l0 :: r => forallb (fun l => (length l =? length l0)%nat) r end.
Definition transpose (n : nat) (cols : list (list val)) : list val :=
  map (fun j => VTup (map (fun c => nth j c VNone) cols)) (seq 0 n).

(* the order table is a merge of the parts: each part's positions occur ascending and completely *)
Fixpoint valid_merge (order : list (nat * nat)) (cur lens : list nat) : bool :=
  match order with
  | [] => list_eqb Nat.eqb cur lens
  | (di, ei) :: rest =>
      (di <? length lens)%nat && (ei =? nth di cur 0)%nat && (ei <? nth di lens 0)%nat
      && valid_merge rest (bump cur di) lens
  end.

Fixpoint tbl (d : ds) : option tab :=
  match d with
  | DList vs | DListWu vs => Some (nokey vs)
  | DDict kvs => Some kvs
  | DMap f d | DParMap f _ _ d => obind (tbl d) (map_rows f)
  | DFilter p d => obind (tbl d) (filter_rows p)
  | DCatch _ d | DCache d => if ixok d then tbl d else None
  | DPrefetch w _ E d =>
      if (w =? 1)%nat then (match E with Some _ => if ixok d then tbl d else None | None => tbl d end)
      else if ixok d then tbl d else None
  | DSlice idx d => if ixok d then obind (tbl d) (select idx) else None
  | DConcat l => option_map (@concat _) (omapM tbl l)
  | DIntersperse order l =>
      obind (omapM tbl l) (fun ts =>
        if valid_merge order (map (fun _ => 0%nat) ts) (map (@length _) ts)
        then omapM (fun de => nth_error (nth (fst de) ts []) (snd de)) order
        else None)
  | DZip l =>
      obind (omapM tbl l) (fun ts =>
        if same_lengths ts then Some (nokey (transpose (length (hd [] ts)) (map vals ts))) else None)
  | DKeyZip l =>
      if forallb keys_ok l then
        obind (omapM tbl l) (fun ts =>
          match ts with
          | [] => None
          | t0 :: _ => omapM (fun k => option_map (fun vs => (k, VTup vs)) (omapM (assoc k) ts)) (map fst t0)
          end)
      else None
  | DItems d => if keyedb d then option_map (map (fun kv => (fst kv, pair_of (fst kv) (snd kv)))) (tbl d) else None
  | DBatch n drop d => if (n =? 0)%nat then None else option_map (fun t => nokey (ref_chunks n drop (vals t))) (tbl d)
  | DUnbatch d => obind (tbl d) (fun t => option_map (fun bs => nokey (concat bs)) (omapM seq_elems (vals t)))
  | DCycle _ => None          (* infinite: see cycle_prefix *)
  end.

(* ---- what "the model of the code agrees with the reference" means ---- *)
Record agrees (d : ds) (t : tab) : Prop := {
  ag_iter  : iter_ false d = (vals t, End);
  ag_iterk : keyedb d = true -> iter_ true d = (pairs t, End);
  ag_len   : forall m, len_ d = Ok m -> m = length t;
  ag_idx   : indexable d = true -> ikeyed d = true ->
             len_ d = Ok (length t) /\ forall i, get_i d i = py_nth (vals t) i;
  ag_keys  : forall ks, keys_ d = Ok ks ->
             keyedb d = true /\ ks = map fst t /\ functional t /\ indexable d = true /\ ikeyed d = true;
  ag_getk  : forall ks, keys_ d = Ok ks -> forall k,
             match assoc k t with
             | Some v => get_k d k = Ok v
             | None => exists e, get_k d k = Err e
             end
}.

(* nested induction principle for ds *)
Section DsInd.
  Variable P : ds -> Prop.
  Hypothesis HList : forall vs, P (DList vs).
  Hypothesis HListWu : forall vs, P (DListWu vs).
  Hypothesis HDict : forall kvs, P (DDict kvs).
  Hypothesis HMap : forall f d, P d -> P (DMap f d).
  Hypothesis HParMap : forall f w b d, P d -> P (DParMap f w b d).
  Hypothesis HFilter : forall p d, P d -> P (DFilter p d).
  Hypothesis HCatch : forall E d, P d -> P (DCatch E d).
  Hypothesis HPrefetch : forall w b E d, P d -> P (DPrefetch w b E d).
  Hypothesis HSlice : forall idx d, P d -> P (DSlice idx d).
  Hypothesis HConcat : forall l, Forall P l -> P (DConcat l).
  Hypothesis HIntersperse : forall o l, Forall P l -> P (DIntersperse o l).
  Hypothesis HZip : forall l, Forall P l -> P (DZip l).
  Hypothesis HKeyZip : forall l, Forall P l -> P (DKeyZip l).
  Hypothesis HItems : forall d, P d -> P (DItems d).
  Hypothesis HBatch : forall n drop d, P d -> P (DBatch n drop d).
  Hypothesis HUnbatch : forall d, P d -> P (DUnbatch d).
  Hypothesis HCycle : forall d, P d -> P (DCycle d).
  Hypothesis HCache : forall d, P d -> P (DCache d).

  Fixpoint ds_ind' (d : ds) : P d :=
    let fix go (l : list ds) : Forall P l :=
      match l with
      | [] => Forall_nil P
      | x :: t => Forall_cons x (ds_ind' x) (go t)
      end in
    match d with
    | DList vs => HList vs
    | DListWu vs => HListWu vs
    | DDict kvs => HDict kvs
    | DMap f d => HMap f d (ds_ind' d)
    | DParMap f w b d => HParMap f w b d (ds_ind' d)
    | DFilter p d => HFilter p d (ds_ind' d)
    | DCatch E d => HCatch E d (ds_ind' d)
    | DPrefetch w b E d => HPrefetch w b E d (ds_ind' d)
    | DSlice idx d => HSlice idx d (ds_ind' d)
    | DConcat l => HConcat l (go l)
    | DIntersperse o l => HIntersperse o l (go l)
    | DZip l => HZip l (go l)
    | DKeyZip l => HKeyZip l (go l)
    | DItems d => HItems d (ds_ind' d)
    | DBatch n drop d => HBatch n drop d (ds_ind' d)
    | DUnbatch d => HUnbatch d (ds_ind' d)
    | DCycle d => HCycle d (ds_ind' d)
    | DCache d => HCache d (ds_ind' d)
    end.
End DsInd.

(* the shape every per-stage lemma has; RefTheorem.v assembles them with ds_ind' *)
Definition stage_ok (d : ds) : Prop := wfb d = true -> forall t, tbl d = Some t -> agrees d t.
