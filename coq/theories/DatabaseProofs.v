(* DatabaseProofs.v - proofs about Model G (Database.v): content of get_examples / get_dataset,
   refusals, merge keeps everything, the heap frame of _merge_database_dicts, the weak memo. *)
From Coq Require Import String.
From Coq Require Import List Arith ZArith Bool Lia ZifyBool ZifyNat Permutation.
Require Import LD.Base LD.Database.
Import ListNotations.
Local Open Scope nat_scope.

(* ================================================================ dict helpers *)
Lemma inb_spec k l : inb k l = true <-> In k l.
Proof.
  unfold inb. rewrite existsb_exists. split.
  - intros [x [Hin He]]. apply String.eqb_eq in He. subst. exact Hin.
  - intros Hin. exists k. split; [exact Hin | apply String.eqb_refl].
Qed.

Lemma inb_false k l : inb k l = false <-> ~ In k l.
Proof.
  rewrite <- inb_spec. destruct (inb k l); split; intros H; congruence.
Qed.

Lemma disjointb_spec a b : disjointb a b = true <-> forall k, In k a -> ~ In k b.
Proof.
  unfold disjointb. rewrite forallb_forall. split.
  - intros H k Hin. specialize (H k Hin). apply negb_true_iff in H. apply inb_false. exact H.
  - intros H k Hin. apply negb_true_iff. apply inb_false. apply H. exact Hin.
Qed.

Lemma disjointb_false a b k : In k a -> In k b -> disjointb a b = false.
Proof.
  intros Ha Hb. destruct (disjointb a b) eqn:E; [|reflexivity].
  exfalso. rewrite disjointb_spec in E. exact (E k Ha Hb).
Qed.

Lemma disjointb_false_ex a b : disjointb a b = false -> exists k, In k a /\ In k b.
Proof.
  unfold disjointb. induction a as [|x a IH]; simpl; [discriminate|].
  intros H. apply andb_false_iff in H. destruct H as [H|H].
  - apply negb_false_iff in H. apply inb_spec in H. exists x. auto.
  - destruct (IH H) as [k [H1 H2]]. exists k. auto.
Qed.

Section Dict.
  Context {A : Type}.
  Implicit Types d e : list (string * A).

  Lemma dget_dset_same k (v : A) d : dget k (dset k v d) = Some v.
  Proof.
    induction d as [|[k' v'] r IH]; simpl.
    - rewrite String.eqb_refl. reflexivity.
    - destruct (String.eqb k k') eqn:E; simpl.
      + rewrite String.eqb_refl. reflexivity.
      + rewrite E. exact IH.
  Qed.

  Lemma dget_dset_other k k' (v : A) d : k' <> k -> dget k' (dset k v d) = dget k' d.
  Proof.
    intros Hne. induction d as [|[k2 v2] r IH]; simpl.
    - apply String.eqb_neq in Hne. rewrite Hne. reflexivity.
    - destruct (String.eqb k k2) eqn:E; simpl.
      + apply String.eqb_eq in E. subst k2. apply String.eqb_neq in Hne. rewrite Hne. reflexivity.
      + destruct (String.eqb k' k2); [reflexivity | exact IH].
  Qed.

  Lemma dset_in k (v : A) d : In k (dkeys d) -> dkeys (dset k v d) = dkeys d.
  Proof.
    unfold dkeys. induction d as [|[k2 v2] r IH]; simpl; [tauto|].
    intros H. destruct (String.eqb k k2) eqn:E; simpl.
    - apply String.eqb_eq in E. subst. reflexivity.
    - f_equal. apply IH. destruct H as [H|H]; [|exact H].
      subst. rewrite String.eqb_refl in E. discriminate.
  Qed.

  Lemma dset_notin k (v : A) d : ~ In k (dkeys d) -> dset k v d = d ++ [(k, v)].
  Proof.
    unfold dkeys. induction d as [|[k2 v2] r IH]; simpl; [reflexivity|].
    intros H. destruct (String.eqb k k2) eqn:E.
    - apply String.eqb_eq in E. subst. exfalso. apply H. left. reflexivity.
    - f_equal. apply IH. intros Hin. apply H. right. exact Hin.
  Qed.

  (* keys unchanged if present, appended if absent *)
  Lemma dkeys_dset k (v : A) d :
    dkeys (dset k v d) = if inb k (dkeys d) then dkeys d else dkeys d ++ [k].
  Proof.
    destruct (inb k (dkeys d)) eqn:E.
    - apply inb_spec in E. apply dset_in. exact E.
    - apply inb_false in E. rewrite (dset_notin k v d E). unfold dkeys. rewrite map_app. reflexivity.
  Qed.

  Lemma dkeys_app d e : dkeys (d ++ e) = dkeys d ++ dkeys e.
  Proof. unfold dkeys. apply map_app. Qed.

  Lemma dget_app k d e :
    dget k (d ++ e) = match dget k d with Some v => Some v | None => dget k e end.
  Proof.
    induction d as [|[k2 v2] r IH]; simpl; [reflexivity|].
    destruct (String.eqb k k2); [reflexivity | exact IH].
  Qed.

  Lemma dget_none k d : dget k d = None <-> ~ In k (dkeys d).
  Proof.
    unfold dkeys. induction d as [|[k2 v2] r IH]; simpl.
    - tauto.
    - destruct (String.eqb k k2) eqn:E.
      + apply String.eqb_eq in E. subst. split; [discriminate|]. intros H. exfalso. apply H. auto.
      + apply String.eqb_neq in E. rewrite IH. split.
        * intros H [H1|H1]; [congruence | tauto].
        * intros H H1. apply H. auto.
  Qed.

  Lemma dget_some_in k d v : dget k d = Some v -> In k (dkeys d).
  Proof.
    intros H. destruct (in_dec string_dec k (dkeys d)) as [Hin|Hn]; [exact Hin|].
    apply dget_none in Hn. congruence.
  Qed.

  Lemma dget_in_pair k d v : dget k d = Some v -> In (k, v) d.
  Proof.
    induction d as [|[k2 v2] r IH]; simpl; [discriminate|].
    destruct (String.eqb k k2) eqn:E.
    - apply String.eqb_eq in E. intros H. inversion H. subst. auto.
    - auto.
  Qed.

  Lemma in_dkeys_dget k d : In k (dkeys d) -> exists v, dget k d = Some v.
  Proof.
    intros H. destruct (dget k d) eqn:E; [eauto|]. apply dget_none in E. tauto.
  Qed.

  (* semantic form: e's keys are new and pairwise different -> update is concatenation *)
  Lemma dupdate_disjoint' d e :
    NoDup (dkeys e) -> (forall k, In k (dkeys e) -> ~ In k (dkeys d)) -> dupdate d e = d ++ e.
  Proof.
    unfold dupdate. revert d. induction e as [|[k v] e IH]; intros d Hnd Hdis; simpl.
    - rewrite app_nil_r. reflexivity.
    - unfold dkeys in Hnd. simpl in Hnd. inversion Hnd as [|x l Hnotin Hnd']. subst.
      rewrite dset_notin by (apply Hdis; simpl; auto).
      rewrite IH.
      + rewrite <- app_assoc. reflexivity.
      + exact Hnd'.
      + intros k0 Hk0. rewrite dkeys_app. simpl. intros Hin. apply in_app_or in Hin.
        destruct Hin as [Hin|[Hin|[]]].
        * apply (Hdis k0); simpl; auto.
        * subst. apply Hnotin. exact Hk0.
  Qed.

  Lemma dupdate_disjoint d e :
    NoDup (dkeys e) -> disjointb (dkeys d) (dkeys e) = true -> dupdate d e = d ++ e.
  Proof.
    intros Hnd Hdis. apply dupdate_disjoint'; [exact Hnd|].
    rewrite disjointb_spec in Hdis. intros k Hk Hd. exact (Hdis k Hd Hk).
  Qed.

  (* the variant with the test the other way round (merge_step tests the new names against the old) *)
  Lemma dupdate_disjoint_rev d e :
    NoDup (dkeys e) -> disjointb (dkeys e) (dkeys d) = true -> dupdate d e = d ++ e.
  Proof.
    intros Hnd Hdis. apply dupdate_disjoint'; [exact Hnd|].
    rewrite disjointb_spec in Hdis. exact Hdis.
  Qed.
End Dict.

Lemma NoDup_app_iff {B} (a b : list B) :
  NoDup (a ++ b) <-> NoDup a /\ NoDup b /\ (forall x, In x a -> ~ In x b).
Proof.
  induction a as [|x a IH]; simpl.
  - split; [intros H; repeat split; [constructor | exact H | tauto] | tauto].
  - split.
    + intros H. inversion H as [|y l Hn Hnd]. subst. apply IH in Hnd. destruct Hnd as [Ha [Hb Hd]].
      repeat split.
      * constructor; [|exact Ha]. intros Hin. apply Hn. apply in_or_app. auto.
      * exact Hb.
      * intros y [Hy|Hy] Hyb; [subst; apply Hn; apply in_or_app; auto | exact (Hd y Hy Hyb)].
    + intros [Ha [Hb Hd]]. inversion Ha as [|y l Hn Hnd]. subst. constructor.
      * intros Hin. apply in_app_or in Hin. destruct Hin as [Hin|Hin]; [tauto|].
        apply (Hd x); auto.
      * apply IH. repeat split; auto.
Qed.

(* ================================================================ PART 1 *)
(* 1. each example is extended by exactly its example_id and the dataset name *)
Theorem augment_spec name kv :
  fst (augment name kv) = fst kv /\
  dget "example_id"%string (snd (augment name kv)) = Some (VStr (fst kv)) /\
  dget "dataset"%string (snd (augment name kv)) = Some (VStr name) /\
  forall k, k <> "example_id"%string -> k <> "dataset"%string ->
            dget k (snd (augment name kv)) = dget k (snd kv).
Proof.
  unfold augment. simpl. repeat split.
  - rewrite dget_dset_other by discriminate. apply dget_dset_same.
  - apply dget_dset_same.
  - intros k H1 H2. rewrite dget_dset_other by exact H2. rewrite dget_dset_other by exact H1. reflexivity.
Qed.

Lemma map_fst_augment name (ex : dsdict) : map fst (map (augment name) ex) = map fst ex.
Proof. rewrite map_map. apply map_ext. intros a. reflexivity. Qed.

(* 2. a stored dataset: each stored example exactly once, in stored order *)
Theorem get_dataset_content d name ex :
  dget name (alias d) = None -> dget name (datasets d) = Some ex -> ex <> [] ->
  get_examples d name = Ok (map (augment name) ex) /\
  map fst (map (augment name) ex) = map fst ex.
Proof.
  intros Ha Hd Hne. split; [|apply map_fst_augment].
  unfold get_examples. rewrite Ha, Hd. simpl. destruct ex; [congruence | reflexivity].
Qed.

(* 5. refusals *)
Theorem unknown_name_rejected d name :
  dget name (alias d) = None -> dget name (datasets d) = None -> get_examples d name = Err (lib EKey).
Proof. intros Ha Hd. unfold get_examples. rewrite Ha, Hd. reflexivity. Qed.

Theorem empty_dataset_rejected d name :
  dget name (alias d) = None -> dget name (datasets d) = Some [] -> get_examples d name = Err (lib ERuntime).
Proof. intros Ha Hd. unfold get_examples. rewrite Ha, Hd. reflexivity. Qed.

(* 6. a list of names is the concatenation *)
Theorem list_is_concat d names ts :
  names <> [] -> mapM (get_dataset1 d) names = Ok ts -> get_dataset_list d names = Ok (concat ts).
Proof.
  intros Hne H. unfold get_dataset_list. destruct names; [congruence|]. rewrite H. reflexivity.
Qed.

Theorem empty_list_rejected d : get_dataset_list d [] = Err (lib EValue).
Proof. reflexivity. Qed.

(* ================================================================ PART 3: the weak memo *)
Lemma dget_filter_other {A} (name n' : string) (l : list (string * A)) :
  name <> n' ->
  dget name (filter (fun e => negb (String.eqb n' (fst e))) l) = dget name l.
Proof.
  intros Hne. induction l as [|[k v] r IH]; simpl; [reflexivity|].
  destruct (String.eqb n' k) eqn:E; simpl.
  - apply String.eqb_eq in E. subst k. apply String.eqb_neq in Hne. rewrite Hne. exact IH.
  - destruct (String.eqb name k); [reflexivity | exact IH].
Qed.

Lemma memo_get_entry m name id :
  snd (memo_step m (MGetDs name)) = Some id ->
  dget name (entries (fst (memo_step m (MGetDs name)))) = Some id.
Proof.
  simpl. destruct (dget name (entries m)) eqn:E; simpl.
  - intros H. inversion H. subst. exact E.
  - intros H. inversion H. subst. rewrite String.eqb_refl. reflexivity.
Qed.

Lemma memo_step_keeps_entry s o name id :
  o <> MDropDs name -> dget name (entries s) = Some id ->
  dget name (entries (fst (memo_step s o))) = Some id.
Proof.
  intros Ho Hs. destruct o as [n'|n']; simpl.
  - destruct (dget n' (entries s)) eqn:E; simpl; [exact Hs|].
    destruct (String.eqb name n') eqn:E2; [|exact Hs].
    apply String.eqb_eq in E2. subst. congruence.
  - rewrite dget_filter_other; [exact Hs|]. intros Heq. subst. apply Ho. reflexivity.
Qed.

(* 10. repeated requests are served from one shared dataset while it is alive *)
Theorem memo_shared_while_alive m name ops id :
  snd (memo_step m (MGetDs name)) = Some id ->
  Forall (fun o => o <> MDropDs name) ops ->
  let m' := fold_left (fun s o => fst (memo_step s o)) ops (fst (memo_step m (MGetDs name))) in
  snd (memo_step m' (MGetDs name)) = Some id.
Proof.
  intros H Hops m'.
  assert (Hm' : dget name (entries m') = Some id).
  { subst m'. apply memo_get_entry in H. revert H.
    generalize (fst (memo_step m (MGetDs name))). induction Hops as [|o ops Ho Hops IH]; intros s Hs; simpl.
    - exact Hs.
    - apply IH. apply memo_step_keeps_entry; assumption. }
  simpl. rewrite Hm'. reflexivity.
Qed.

Definition memo_inv (m : memo) : Prop := forall n i, In (n, i) (entries m) -> i < next_id m.

(* a request for a name that is not in the memo gets an id different from every id in the memo *)
Theorem memo_fresh_ids m name id :
  memo_inv m -> dget name (entries m) = None ->
  snd (memo_step m (MGetDs name)) = Some id ->
  forall n i, In (n, i) (entries m) -> i <> id.
Proof.
  intros Hinv Hnone H n i Hin. simpl in H. rewrite Hnone in H. simpl in H. inversion H. subst.
  apply Hinv in Hin. lia.
Qed.

Lemma memo_inv_step m o : memo_inv m -> memo_inv (fst (memo_step m o)).
Proof.
  unfold memo_inv. intros Hinv. destruct o as [name|name]; simpl.
  - destruct (dget name (entries m)) eqn:E; simpl; [exact Hinv|].
    intros n i [Heq|Hin]; [inversion Heq; lia | apply Hinv in Hin; lia].
  - intros n i Hin. apply filter_In in Hin. destruct Hin as [Hin _]. exact (Hinv n i Hin).
Qed.

Lemma memo_inv_init : memo_inv (mkMemo [] 0).
Proof. intros n i []. Qed.

(* ================================================================ PART 1, merge *)
Theorem extra_keys_rejected acc p : p_extra p <> [] -> merge_step acc p = Err (lib EAssert).
Proof. intros H. unfold merge_step. destruct (p_extra p); [congruence | reflexivity]. Qed.

Theorem duplicate_dataset_rejected acc p ds n :
  p_extra p = [] -> p_datasets p = Some ds -> In n (dkeys ds) ->
  (In n (dkeys (datasets acc)) \/ In n (dkeys (alias acc))) ->
  merge_step acc p = Err (lib EAssert).
Proof.
  intros He Hd Hn Hacc. unfold merge_step. rewrite He, Hd. simpl.
  rewrite (disjointb_false _ _ n Hn); [reflexivity|].
  apply in_or_app. exact Hacc.
Qed.

Theorem duplicate_alias_rejected acc p ds al n :
  p_extra p = [] -> p_datasets p = Some ds -> p_alias p = Some al -> In n (dkeys al) ->
  (In n (dkeys (datasets acc)) \/ In n (dkeys (alias acc))) ->
  merge_step acc p = Err (lib EAssert).
Proof.
  intros He Hd Ha Hn Hacc. unfold merge_step. rewrite He, Hd, Ha. simpl.
  destruct (disjointb (dkeys ds) _); simpl; [|reflexivity].
  rewrite (disjointb_false _ _ n Hn); [reflexivity|].
  apply in_or_app. exact Hacc.
Qed.

Lemma merge_step_ok acc p acc' :
  merge_step acc p = Ok acc' ->
  p_extra p = [] /\
  exists ds, p_datasets p = Some ds /\
    disjointb (dkeys ds) (dkeys (datasets acc) ++ dkeys (alias acc)) = true /\
    datasets acc' = dupdate (datasets acc) ds /\
    match p_alias p with
    | None => alias acc' = alias acc
    | Some al => disjointb (dkeys al) (dkeys (datasets acc) ++ dkeys (alias acc)) = true /\
                 alias acc' = dupdate (alias acc) al
    end.
Proof.
  unfold merge_step. destruct (p_extra p); simpl; [|discriminate].
  destruct (p_datasets p) as [ds|]; [|discriminate].
  destruct (disjointb (dkeys ds) _) eqn:E1; simpl; [|discriminate].
  destruct (p_alias p) as [al|].
  - destruct (disjointb (dkeys al) _) eqn:E2; simpl; [|discriminate].
    intros H. inversion H. subst. simpl. split; [reflexivity|]. exists ds. auto.
  - intros H. inversion H. subst. simpl. split; [reflexivity|]. exists ds. auto.
Qed.

(* nothing stored is lost or changed by merging one more part *)
Theorem merge_step_keeps acc p acc' ds :
  merge_step acc p = Ok acc' -> p_datasets p = Some ds -> NoDup (dkeys ds) ->
  datasets acc' = datasets acc ++ ds /\
  (forall n ex, dget n (datasets acc) = Some ex -> dget n (datasets acc') = Some ex) /\
  (forall n ex, dget n ds = Some ex -> dget n (datasets acc') = Some ex).
Proof.
  intros H Hd Hnd. apply merge_step_ok in H. destruct H as [_ [ds' [Hd' [Hdis [Hacc' _]]]]].
  rewrite Hd in Hd'. inversion Hd'. subst ds'.
  assert (Hnew : forall k, In k (dkeys ds) -> ~ In k (dkeys (datasets acc))).
  { rewrite disjointb_spec in Hdis. intros k Hk Hin. apply (Hdis k Hk). apply in_or_app. auto. }
  assert (Heq : datasets acc' = datasets acc ++ ds).
  { rewrite Hacc'. apply dupdate_disjoint'; assumption. }
  split; [exact Heq|]. split.
  - intros n ex Hn. rewrite Heq, dget_app, Hn. reflexivity.
  - intros n ex Hn. rewrite Heq, dget_app.
    assert (Hnone : dget n (datasets acc) = None).
    { apply dget_none. apply Hnew. eapply dget_some_in. exact Hn. }
    rewrite Hnone. exact Hn.
Qed.

(* the same for the alias table *)
Theorem merge_step_keeps_alias acc p acc' al :
  merge_step acc p = Ok acc' -> p_alias p = Some al -> NoDup (dkeys al) ->
  alias acc' = alias acc ++ al.
Proof.
  intros H Ha Hnd. apply merge_step_ok in H. destruct H as [_ [ds' [_ [_ [_ Hal]]]]].
  rewrite Ha in Hal. destruct Hal as [Hdis Heq]. rewrite Heq. apply dupdate_disjoint'; [exact Hnd|].
  rewrite disjointb_spec in Hdis. intros k Hk Hin. apply (Hdis k Hk). apply in_or_app. auto.
Qed.

Definition merge_go : db -> list part -> res db :=
  fix go (acc : db) (l : list part) : res db :=
    match l with [] => Ok acc | p :: r => do a <- merge_step acc p; go a r end.

Lemma merge_unfold p0 rest ds0 :
  p_datasets p0 = Some ds0 ->
  merge (p0 :: rest) = merge_go (mkDb ds0 (match p_alias p0 with Some a => a | None => [] end)) rest.
Proof. intros H. unfold merge. rewrite H. reflexivity. Qed.

Definition part_names_nodup (p : part) : Prop := forall ds, p_datasets p = Some ds -> NoDup (dkeys ds).

Lemma merge_go_keeps rest : forall acc d,
  merge_go acc rest = Ok d -> Forall part_names_nodup rest ->
  (forall n ex, dget n (datasets acc) = Some ex -> dget n (datasets d) = Some ex) /\
  (forall p ds n ex, In p rest -> p_datasets p = Some ds -> dget n ds = Some ex ->
                     dget n (datasets d) = Some ex).
Proof.
  induction rest as [|p r IH]; intros acc d H Hnd; simpl in H.
  - inversion H. subst. split; [auto|]. intros p ds n ex [].
  - destruct (merge_step acc p) as [a|e] eqn:E; simpl in H; [|discriminate].
    inversion Hnd as [|x l Hp Hr]. subst.
    destruct (merge_step_ok _ _ _ E) as [_ [ds [Hds _]]].
    destruct (merge_step_keeps _ _ _ _ E Hds (Hp _ Hds)) as [_ [Hold Hnew]].
    destruct (IH a d H Hr) as [IH1 IH2]. split.
    + intros n ex Hn. apply IH1. apply Hold. exact Hn.
    + intros p' ds' n ex [Heq|Hin] Hds' Hn.
      * subst p'. rewrite Hds in Hds'. inversion Hds'. subst ds'. apply IH1. apply Hnew. exact Hn.
      * eapply IH2; eassumption.
Qed.

Theorem merge_keeps_first p0 rest d ds0 :
  merge (p0 :: rest) = Ok d -> p_datasets p0 = Some ds0 -> Forall part_names_nodup rest ->
  forall n ex, dget n ds0 = Some ex -> dget n (datasets d) = Some ex.
Proof.
  intros H Hd Hnd n ex Hn. rewrite (merge_unfold _ _ _ Hd) in H.
  destruct (merge_go_keeps _ _ _ H Hnd) as [H1 _]. apply H1. exact Hn.
Qed.

(* every part's datasets survive the merge unchanged *)
Theorem merge_keeps_every p0 rest d ds0 p ds :
  merge (p0 :: rest) = Ok d -> p_datasets p0 = Some ds0 -> Forall part_names_nodup rest ->
  In p (p0 :: rest) -> p_datasets p = Some ds ->
  forall n ex, dget n ds = Some ex -> dget n (datasets d) = Some ex.
Proof.
  intros H Hd Hnd Hin Hds n ex Hn. rewrite (merge_unfold _ _ _ Hd) in H.
  destruct (merge_go_keeps _ _ _ H Hnd) as [H1 H2]. destruct Hin as [Heq|Hin].
  - subst p. rewrite Hd in Hds. inversion Hds. subst. apply H1. exact Hn.
  - eapply H2; eassumption.
Qed.

(* ================================================================ PART 1, alias *)
Definition alias_go (d : db) : dsdict -> list string -> res dsdict :=
  fix go (acc : dsdict) (l : list string) : res dsdict :=
    match l with
    | [] => Ok acc
    | m :: r => match dget m (datasets d) with
                | None => Err (lib EKey)
                | Some ex => if disjointb (dkeys acc) (dkeys ex) then go (dupdate acc ex) r
                             else Err (lib EAssert)
                end
    end.

Lemma get_examples_alias d name members :
  dget name (alias d) = Some members ->
  get_examples d name =
  (do raw <- alias_go d [] members;
   match raw with [] => Err (lib ERuntime) | _ => Ok (map (augment name) raw) end).
Proof. intros H. unfold get_examples. rewrite H. reflexivity. Qed.

Definition members_are (d : db) (members : list string) (exs : list dsdict) : Prop :=
  Forall2 (fun m ex => dget m (datasets d) = Some ex) members exs.

Lemma alias_go_concat d members exs :
  members_are d members exs -> forall acc,
  NoDup (dkeys acc ++ concat (map dkeys exs)) ->
  alias_go d acc members = Ok (acc ++ concat exs).
Proof.
  intros HF. induction HF as [|m ex members exs Hm HF IH]; intros acc Hnd; simpl.
  - rewrite app_nil_r. reflexivity.
  - rewrite Hm. simpl in Hnd.
    apply NoDup_app_iff in Hnd. destruct Hnd as [Hacc [Hrest Hdis]].
    apply NoDup_app_iff in Hrest. destruct Hrest as [Hex [Hexs Hdis2]].
    assert (Hd : disjointb (dkeys acc) (dkeys ex) = true).
    { apply disjointb_spec. intros k Hk Hin. apply (Hdis k Hk). apply in_or_app. auto. }
    rewrite Hd. rewrite (dupdate_disjoint _ _ Hex Hd). rewrite IH.
    + rewrite app_assoc. reflexivity.
    + rewrite dkeys_app. apply NoDup_app_iff. split; [|split].
      * apply NoDup_app_iff. split; [exact Hacc|]. split; [exact Hex|].
        intros k Hk Hin. apply (Hdis k Hk). apply in_or_app. auto.
      * exact Hexs.
      * intros k Hk Hin. apply in_app_or in Hk. destruct Hk as [Hk|Hk].
        -- apply (Hdis k Hk). apply in_or_app. auto.
        -- exact (Hdis2 k Hk Hin).
Qed.

(* 3. an alias is the concatenation of its members *)
Theorem alias_is_concat d name members exs :
  dget name (alias d) = Some members ->
  Forall2 (fun m ex => dget m (datasets d) = Some ex) members exs ->
  NoDup (concat (map dkeys exs)) ->
  concat exs <> [] ->
  get_examples d name = Ok (map (augment name) (concat exs)).
Proof.
  intros Ha HF Hnd Hne. rewrite (get_examples_alias _ _ _ Ha).
  rewrite (alias_go_concat d members exs HF []); [|exact Hnd].
  simpl. destruct (concat exs); [congruence | reflexivity].
Qed.

Corollary alias_ids_in_order d name members exs :
  dget name (alias d) = Some members ->
  Forall2 (fun m ex => dget m (datasets d) = Some ex) members exs ->
  NoDup (concat (map dkeys exs)) -> concat exs <> [] ->
  exists out, get_examples d name = Ok out /\ dkeys out = concat (map dkeys exs).
Proof.
  intros Ha HF Hnd Hne. eexists. split; [eapply alias_is_concat; eassumption|].
  unfold dkeys at 1. rewrite map_fst_augment. rewrite concat_map. reflexivity.
Qed.

Lemma alias_go_overlap d members exs :
  members_are d members exs -> forall acc,
  NoDup (dkeys acc) -> Forall (fun ex => NoDup (dkeys ex)) exs ->
  ~ NoDup (dkeys acc ++ concat (map dkeys exs)) ->
  alias_go d acc members = Err (lib EAssert).
Proof.
  intros HF. induction HF as [|m ex members exs Hm HF IH]; intros acc Hacc Heach Hnot; simpl.
  - exfalso. apply Hnot. simpl. rewrite app_nil_r. exact Hacc.
  - rewrite Hm. inversion Heach as [|x l Hex Hexs]. subst.
    destruct (disjointb (dkeys acc) (dkeys ex)) eqn:Hd; [|reflexivity].
    rewrite (dupdate_disjoint _ _ Hex Hd). apply IH.
    + rewrite dkeys_app. apply NoDup_app_iff. split; [exact Hacc|]. split; [exact Hex|].
      apply disjointb_spec. exact Hd.
    + exact Hexs.
    + rewrite dkeys_app, <- app_assoc. exact Hnot.
Qed.

(* 4. members that share an example id are refused *)
Theorem overlap_rejected d name members exs :
  dget name (alias d) = Some members ->
  Forall2 (fun m ex => dget m (datasets d) = Some ex) members exs ->
  Forall (fun ex => NoDup (dkeys ex)) exs ->
  ~ NoDup (concat (map dkeys exs)) ->
  get_examples d name = Err (lib EAssert).
Proof.
  intros Ha HF Heach Hnot. rewrite (get_examples_alias _ _ _ Ha).
  rewrite (alias_go_overlap d members exs HF []); [reflexivity | constructor | exact Heach | exact Hnot].
Qed.

Lemma shared_id_not_nodup (exs : list dsdict) : forall i j exi exj k,
  i < j -> nth_error exs i = Some exi -> nth_error exs j = Some exj ->
  In k (dkeys exi) -> In k (dkeys exj) -> ~ NoDup (concat (map dkeys exs)).
Proof.
  induction exs as [|e exs IH]; intros i j exi exj k Hij Hi Hj Hki Hkj Hnd.
  - destruct i; discriminate.
  - simpl in Hnd. apply NoDup_app_iff in Hnd. destruct Hnd as [_ [Hrest Hdis]].
    destruct j as [|j]; [lia|]. simpl in Hj. destruct i as [|i]; simpl in Hi.
    + inversion Hi. subst e. apply (Hdis k Hki). apply in_concat. exists (dkeys exj). split; [|exact Hkj].
      apply in_map. eapply nth_error_In. exact Hj.
    + apply (IH i j exi exj k); try assumption. lia.
Qed.

(* the same with the overlap spelled out: two different members carry the same example id *)
Theorem overlap_rejected_ex d name members exs i j exi exj k :
  dget name (alias d) = Some members ->
  Forall2 (fun m ex => dget m (datasets d) = Some ex) members exs ->
  Forall (fun ex => NoDup (dkeys ex)) exs ->
  i < j -> nth_error exs i = Some exi -> nth_error exs j = Some exj ->
  In k (dkeys exi) -> In k (dkeys exj) ->
  get_examples d name = Err (lib EAssert).
Proof.
  intros Ha HF Heach Hij Hi Hj Hki Hkj. eapply overlap_rejected; try eassumption.
  eapply shared_id_not_nodup; eassumption.
Qed.

(* a missing member is a KeyError (if no overlap was met before it) *)
Theorem alias_member_missing d name members :
  dget name (alias d) = Some members ->
  (exists m, In m members /\ dget m (datasets d) = None) ->
  exists c, (c = EKey \/ c = EAssert) /\ get_examples d name = Err (lib c).
Proof.
  intros Ha [m [Hin Hm]]. rewrite (get_examples_alias _ _ _ Ha).
  assert (H : forall acc, exists c, (c = EKey \/ c = EAssert) /\ alias_go d acc members = Err (lib c)).
  { clear Ha. induction members as [|m' r IH]; intros acc; [destruct Hin|]. simpl.
    destruct (dget m' (datasets d)) as [ex|] eqn:E.
    - destruct Hin as [Heq|Hin]; [subst; congruence|].
      destruct (disjointb (dkeys acc) (dkeys ex)); [apply IH; exact Hin | eauto].
    - eauto. }
  destruct (H []) as [c [Hc Hgo]]. exists c. split; [exact Hc|]. rewrite Hgo. reflexivity.
Qed.

(* ================================================================ PART 2: heap frame *)
Definition fresh_from (h0 : heap) (a : nat) := List.length h0 <= a.

Lemma hset_length h : forall a o, List.length (hset h a o) = List.length h.
Proof.
  induction h as [|x r IH]; intros a o; simpl; [reflexivity|].
  destruct a; simpl; [reflexivity | rewrite IH; reflexivity].
Qed.

Lemma hget_hset_same h : forall a o, a < List.length h -> hget (hset h a o) a = o.
Proof.
  unfold hget. induction h as [|x r IH]; intros a o Hlt; simpl in *; [lia|].
  destruct a; simpl; [reflexivity | apply IH; lia].
Qed.

Lemma hget_hset_other h : forall a b o, a <> b -> hget (hset h a o) b = hget h b.
Proof.
  unfold hget. induction h as [|x r IH]; intros a b o Hne; simpl; [reflexivity|].
  destruct a; simpl.
  - destruct b; [congruence | reflexivity].
  - destruct b; [reflexivity | apply IH; congruence].
Qed.

Lemma hget_app_old h ext a : a < List.length h -> hget (h ++ ext) a = hget h a.
Proof. intros H. unfold hget. apply app_nth1. exact H. Qed.

Lemma hget_app_new h o : hget (h ++ [o]) (List.length h) = o.
Proof. unfold hget. rewrite app_nth2 by lia. rewrite Nat.sub_diag. reflexivity. Qed.

Lemma ref_of_dget o k a : ref_of o k = Some a <-> dget k o = Some (CRef a).
Proof.
  unfold ref_of. destruct (dget k o) as [[x|x]|]; split; intros H; try discriminate; inversion H; reflexivity.
Qed.

(* copy_top only appends to the heap, and every reference in the copy is a fresh address *)
Lemma copy_top_spec o : forall h h' o',
  copy_top h o = (h', o') ->
  (exists ext, h' = h ++ ext) /\
  (forall k a, ref_of o' k = Some a -> List.length h <= a < List.length h').
Proof.
  induction o as [|[k c] r IH]; intros h h' o' H; simpl in H.
  - inversion H. subst. split; [exists []; rewrite app_nil_r; reflexivity|].
    intros k a Hr. discriminate.
  - destruct (copy_cell h c) as [h1 c'] eqn:Ec.
    destruct (copy_top h1 r) as [h2 r'] eqn:Er. inversion H. subst h' o'. clear H.
    destruct (IH _ _ _ Er) as [[ext2 Hext2] Hrefs].
    assert (Hc : (h1 = h /\ exists x, c' = CAtom x) \/
                 (h1 = h ++ [hget h match c with CRef a0 => a0 | _ => 0 end] /\ c' = CRef (List.length h))).
    { destruct c as [x|a0]; simpl in Ec; inversion Ec; subst; [left; eauto | right; auto]. }
    assert (Hlen1 : List.length h <= List.length h1).
    { destruct Hc as [[-> _]|[-> _]]; [lia | rewrite app_length; simpl; lia]. }
    split.
    + destruct Hc as [[-> _]|[-> _]]; [exists ext2; exact Hext2|].
      exists ([hget h match c with CRef a0 => a0 | _ => 0 end] ++ ext2). rewrite Hext2, app_assoc. reflexivity.
    + intros k0 a Hr. apply ref_of_dget in Hr. simpl in Hr.
      assert (Hlen2 : List.length h1 <= List.length h2).
      { rewrite Hext2, app_length. lia. }
      destruct (String.eqb k0 k).
      * inversion Hr. subst c'. destruct Hc as [[_ [x Hx]]|[-> Hx]]; [discriminate|].
        inversion Hx. subst a. rewrite app_length in Hlen2. simpl in Hlen2. lia.
      * apply ref_of_dget in Hr. apply Hrefs in Hr. lia.
Qed.

(* the loop invariant of hmerge_rest: everything below n0 is as in h0, the result object and the
   dicts it refers to under 'datasets' / 'alias' were allocated at or above n0 *)
Record frame_inv (h0 : heap) (hc : heap) (res : nat) : Prop := {
  fi_old : forall a, a < List.length h0 -> hget hc a = hget h0 a;
  fi_res : List.length h0 <= res < List.length hc;
  fi_ds : forall a, ref_of (hget hc res) "datasets"%string = Some a -> List.length h0 <= a /\ a <> res;
  fi_al : forall a, ref_of (hget hc res) "alias"%string = Some a -> List.length h0 <= a /\ a <> res
}.

Lemma hmerge_step_inv h0 hc res p h' :
  frame_inv h0 hc res -> hmerge_step hc res p = Some h' -> frame_inv h0 h' res.
Proof.
  intros [Hold Hres Hds Hal]. unfold hmerge_step.
  destruct (ref_of (hget hc res) "datasets"%string) as [rd|] eqn:Erd; [|discriminate].
  destruct (ref_of (hget hc p) "datasets"%string) as [pd|] eqn:Epd; [|discriminate].
  destruct (Hds rd eq_refl) as [Hrd1 Hrd2].
  set (h1 := hset hc rd (dupdate (hget hc rd) (hget hc pd))).
  assert (Hlen1 : List.length h1 = List.length hc) by apply hset_length.
  assert (Hres1 : hget h1 res = hget hc res) by (apply hget_hset_other; exact Hrd2).
  assert (Hold1 : forall a, a < List.length h0 -> hget h1 a = hget h0 a).
  { intros a Ha. unfold h1. rewrite hget_hset_other by lia. apply Hold. exact Ha. }
  assert (Inv1 : frame_inv h0 h1 res).
  { constructor; [exact Hold1 | lia | rewrite Hres1, Erd; exact Hds | rewrite Hres1; exact Hal]. }
  destruct (ref_of (hget h1 p) "alias"%string) as [pa|] eqn:Epa.
  2:{ intros H. inversion H. subst h'. exact Inv1. }
  rewrite Hres1.
  destruct (ref_of (hget hc res) "alias"%string) as [ra|] eqn:Era.
  - intros H. inversion H. subst h'. clear H.
    destruct (Hal ra eq_refl) as [Hra1 Hra2].
    assert (Hres2 : hget (hset h1 ra (dupdate (hget h1 ra) (hget h1 pa))) res = hget hc res).
    { rewrite hget_hset_other by exact Hra2. exact Hres1. }
    constructor.
    + intros a Ha. rewrite hget_hset_other by lia. apply Hold1. exact Ha.
    + rewrite hset_length. lia.
    + rewrite Hres2, Erd. exact Hds.
    + rewrite Hres2, Era. exact Hal.
  - unfold halloc. cbv beta iota zeta.
    match goal with |- context [hset ?X res (dset _ _ _)] => remember X as h2 eqn:Eh2 end.
    remember (List.length h1) as ra eqn:Era'.
    match goal with |- context [hset ?X ra _] => remember X as h3 eqn:Eh3 end.
    intros H. injection H as H. subst h'.
    assert (Hlen2 : List.length h2 = S (List.length hc)).
    { rewrite Eh2, app_length. simpl. lia. }
    assert (Hlen3 : List.length h3 = S (List.length hc)).
    { rewrite Eh3, hset_length. exact Hlen2. }
    assert (Hra : ra <> res) by lia.
    assert (Hres2 : hget h2 res = hget hc res).
    { rewrite Eh2, hget_app_old by lia. exact Hres1. }
    assert (Hres3 : hget h3 res = dset "alias"%string (CRef ra) (hget hc res)).
    { rewrite Eh3, hget_hset_same by lia. rewrite Hres2. reflexivity. }
    assert (Hres4 : hget (hset h3 ra (dupdate (hget h3 ra) (hget h3 pa))) res
                    = dset "alias"%string (CRef ra) (hget hc res)).
    { rewrite hget_hset_other by exact Hra. exact Hres3. }
    constructor.
    + intros a Ha. rewrite hget_hset_other by lia.
      rewrite Eh3, hget_hset_other by lia.
      rewrite Eh2, hget_app_old by lia. apply Hold1. exact Ha.
    + rewrite hset_length. lia.
    + rewrite Hres4. intros a Ha. apply ref_of_dget in Ha.
      rewrite dget_dset_other in Ha by discriminate. apply ref_of_dget in Ha. rewrite Erd in Ha. apply Hds. exact Ha.
    + rewrite Hres4. intros a Ha. apply ref_of_dget in Ha.
      rewrite dget_dset_same in Ha. inversion Ha. subst a. split; [lia | exact Hra].
Qed.

Lemma hmerge_rest_inv h0 res l : forall hc h',
  frame_inv h0 hc res -> hmerge_rest hc res l = Some h' -> frame_inv h0 h' res.
Proof.
  induction l as [|p r IH]; intros hc h' Inv H; simpl in H.
  - inversion H. subst. exact Inv.
  - destruct (hmerge_step hc res p) as [h1|] eqn:E; [|discriminate].
    eapply IH; [|exact H]. eapply hmerge_step_inv; eassumption.
Qed.

Lemma hmerge_multi_inv h p0 p1 rest h' res :
  hmerge h (p0 :: p1 :: rest) = Some (h', res) -> frame_inv h h' res.
Proof.
  unfold hmerge. intros H.
  destruct (copy_top h (hget h p0)) as [h1 top] eqn:Ec. unfold halloc in H. cbv beta iota in H.
  destruct (hmerge_rest (h1 ++ [top]) (List.length h1) (p1 :: rest)) as [hf|] eqn:Er; [|discriminate].
  injection H as H1 H2. subst hf res.
  destruct (copy_top_spec _ _ _ _ Ec) as [[ext Hext] Hrefs].
  assert (Hlen : List.length h <= List.length h1) by (rewrite Hext, app_length; lia).
  assert (Inv : frame_inv h (h1 ++ [top]) (List.length h1)).
  { constructor.
    - intros b Hb. rewrite hget_app_old by lia. rewrite Hext. apply hget_app_old. exact Hb.
    - rewrite app_length. simpl. lia.
    - rewrite hget_app_new. intros b Hb. apply Hrefs in Hb. lia.
    - rewrite hget_app_new. intros b Hb. apply Hrefs in Hb. lia. }
  exact (hmerge_rest_inv _ _ _ _ _ Inv Er).
Qed.

(* the frame property needs no assumption on the parts at all *)
Theorem hmerge_frame_strong h parts h' res :
  hmerge h parts = Some (h', res) ->
  forall a, a < List.length h -> hget h' a = hget h a.
Proof.
  intros H a Ha. destruct parts as [|p0 [|p1 rest]].
  - discriminate.
  - injection H as H1 H2. subst. reflexivity.
  - apply (fi_old _ _ _ (hmerge_multi_inv _ _ _ _ _ _ H)). exact Ha.
Qed.

(* 8. building a merged description never changes a dictionary object that existed before *)
Theorem hmerge_frame h parts h' res :
  hmerge h parts = Some (h', res) ->
  (forall p, In p parts -> p < List.length h) ->
  (forall p a, In p parts -> ref_of (hget h p) "datasets"%string = Some a -> a < List.length h) ->
  (forall p a, In p parts -> ref_of (hget h p) "alias"%string = Some a -> a < List.length h) ->
  forall a, a < List.length h -> hget h' a = hget h a.
Proof. intros H _ _ _. eapply hmerge_frame_strong. exact H. Qed.

(* in particular the sources: top-level dicts and their 'datasets' / 'alias' dicts *)
Corollary hmerge_sources_untouched h parts h' res :
  hmerge h parts = Some (h', res) ->
  (forall p, In p parts -> p < List.length h) ->
  (forall p a, In p parts -> ref_of (hget h p) "datasets"%string = Some a -> a < List.length h) ->
  (forall p a, In p parts -> ref_of (hget h p) "alias"%string = Some a -> a < List.length h) ->
  forall p, In p parts ->
    hget h' p = hget h p /\
    (forall a, ref_of (hget h p) "datasets"%string = Some a -> hget h' a = hget h a) /\
    (forall a, ref_of (hget h p) "alias"%string = Some a -> hget h' a = hget h a).
Proof.
  intros H Hp Hd Hal p Hin. repeat split.
  - eapply hmerge_frame_strong; [exact H | auto].
  - intros a Ha. eapply hmerge_frame_strong; [exact H | eauto].
  - intros a Ha. eapply hmerge_frame_strong; [exact H | eauto].
Qed.

(* with several parts the merged description is a new object with new 'datasets' / 'alias' dicts *)
Theorem hmerge_result_fresh h p0 p1 rest h' res :
  hmerge h (p0 :: p1 :: rest) = Some (h', res) ->
  fresh_from h res /\
  (forall a, ref_of (hget h' res) "datasets"%string = Some a -> fresh_from h a) /\
  (forall a, ref_of (hget h' res) "alias"%string = Some a -> fresh_from h a).
Proof.
  intros H. destruct (hmerge_multi_inv _ _ _ _ _ _ H) as [_ Hres Hds Hal].
  unfold fresh_from. repeat split.
  - lia.
  - intros a Ha. apply Hds in Ha. lia.
  - intros a Ha. apply Hal in Ha. lia.
Qed.

Theorem hmerge_single h p : hmerge h [p] = Some (h, p).
Proof. reflexivity. Qed.

(* 9. negative control: without the copy of the first part the first source's 'datasets' dict is mutated *)
Definition hmerge_nocopy (h : heap) (parts : list nat) : option (heap * nat) :=
  match parts with
  | [] => None
  | [p] => Some (h, p)
  | p0 :: rest =>
      let '(h2, res) := halloc h (hget h p0) in
      match hmerge_rest h2 res rest with Some h' => Some (h', res) | None => None end
  end.

Definition ex_heap : heap :=
  [ [("datasets"%string, CRef 1)];          (* 0: first description *)
    [("a"%string, CAtom 10)];                (* 1: its 'datasets' dict *)
    [("datasets"%string, CRef 3)];          (* 2: second description *)
    [("b"%string, CAtom 20)] ].              (* 3: its 'datasets' dict *)

Example nocopy_mutates_source :
  hget ex_heap 1 = [("a"%string, CAtom 10)] /\
  (match hmerge_nocopy ex_heap [0; 2] with
   | Some (h', _) => hget h' 1 = [("a"%string, CAtom 10); ("b"%string, CAtom 20)]
   | None => False
   end) /\
  (match hmerge ex_heap [0; 2] with
   | Some (h', res) =>
       hget h' 1 = [("a"%string, CAtom 10)] /\
       ref_of (hget h' res) "datasets"%string = Some 4 /\
       hget h' 4 = [("a"%string, CAtom 10); ("b"%string, CAtom 20)]
   | None => False
   end).
Proof. vm_compute. repeat split; reflexivity. Qed.

(* ================================================================ assumptions *)
Print Assumptions dget_dset_same.
Print Assumptions dget_dset_other.
Print Assumptions dkeys_dset.
Print Assumptions dupdate_disjoint.
Print Assumptions dupdate_disjoint_rev.
Print Assumptions dget_app.
Print Assumptions disjointb_spec.
Print Assumptions inb_spec.
Print Assumptions augment_spec.
Print Assumptions get_dataset_content.
Print Assumptions alias_is_concat.
Print Assumptions alias_ids_in_order.
Print Assumptions overlap_rejected.
Print Assumptions overlap_rejected_ex.
Print Assumptions alias_member_missing.
Print Assumptions unknown_name_rejected.
Print Assumptions empty_dataset_rejected.
Print Assumptions list_is_concat.
Print Assumptions empty_list_rejected.
Print Assumptions duplicate_dataset_rejected.
Print Assumptions duplicate_alias_rejected.
Print Assumptions extra_keys_rejected.
Print Assumptions merge_step_keeps.
Print Assumptions merge_step_keeps_alias.
Print Assumptions merge_keeps_first.
Print Assumptions merge_keeps_every.
Print Assumptions hmerge_frame_strong.
Print Assumptions hmerge_frame.
Print Assumptions hmerge_sources_untouched.
Print Assumptions hmerge_result_fresh.
Print Assumptions hmerge_single.
Print Assumptions nocopy_mutates_source.
Print Assumptions memo_shared_while_alive.
Print Assumptions memo_fresh_ids.
Print Assumptions memo_inv_step.
