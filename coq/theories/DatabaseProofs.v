(* DatabaseProofs.v - proofs about Model G (Database.v): content of get_examples / get_dataset,
   refusals, merge keeps everything, the heap frame of _merge_database_dicts, the weak memo. *)
From Coq Require Import String.
From Coq Require Import List Arith ZArith Bool Lia ZifyBool ZifyNat Permutation.
Require Import LD.Base LD.Database.
Import ListNotations.
Local Open Scope nat_scope.

(* ================================================================ dict helpers *)
Lemma inb_spec k l : inb k l = true <-> In k l.
Proof.
  unfold inb. rewrite existsb_exists. split.
  - intros [x [Hin He]]. apply String.eqb_eq in He. subst. exact Hin.
  - intros Hin. exists k. split; [exact Hin | apply String.eqb_refl].
Qed.

Lemma inb_false k l : inb k l = false <-> ~ In k l.
Proof.
  rewrite <- inb_spec. destruct (inb k l); split; intros H; congruence.
Qed.

Lemma disjointb_spec a b : disjointb a b = true <-> forall k, In k a -> ~ In k b.
Proof.
  unfold disjointb. rewrite forallb_forall. split.
  - intros H k Hin. specialize (H k Hin). apply negb_true_iff in H. apply inb_false. exact H.
  - intros H k Hin. apply negb_true_iff. apply inb_false. apply H. exact Hin.
Qed.

Lemma disjointb_false a b k : In k a -> In k b -> disjointb a b = false.
Proof.
  intros Ha Hb. destruct (disjointb a b) eqn:E; [|reflexivity].
  exfalso. rewrite disjointb_spec in E. exact (E k Ha Hb).
Qed.

Lemma disjointb_false_ex a b : disjointb a b = false -> exists k, In k a /\ In k b.
Proof.
  unfold disjointb. induction a as [|x a IH]; simpl; [discriminate|].
  intros H. apply andb_false_iff in H. destruct H as [H|H].
  - apply negb_false_iff in H. apply inb_spec in H. exists x. auto.
  - destruct (IH H) as [k [H1 H2]]. exists k. auto.
Qed.

Section Dict.
  Context {A : Type}.
  Implicit Types d e : list (string * A).

  Lemma dget_dset_same k (v : A) d : dget k (dset k v d) = Some v.
  Proof.
    induction d as [|[k' v'] r IH]; simpl.
    - rewrite String.eqb_refl. reflexivity.
    - destruct (String.eqb k k') eqn:E; simpl.
      + rewrite String.eqb_refl. reflexivity.
      + rewrite E. exact IH.
  Qed.

  Lemma dget_dset_other k k' (v : A) d : k' <> k -> dget k' (dset k v d) = dget k' d.
  Proof.
    intros Hne. induction d as [|[k2 v2] r IH]; simpl.
    - apply String.eqb_neq in Hne. rewrite Hne. reflexivity.
    - destruct (String.eqb k k2) eqn:E; simpl.
      + apply String.eqb_eq in E. subst k2. apply String.eqb_neq in Hne. rewrite Hne. reflexivity.
      + destruct (String.eqb k' k2); [reflexivity | exact IH].
  Qed.

  Lemma dset_in k (v : A) d : In k (dkeys d) -> dkeys (dset k v d) = dkeys d.
  Proof.
    unfold dkeys. induction d as [|[k2 v2] r IH]; simpl; [tauto|].
    intros H. destruct (String.eqb k k2) eqn:E; simpl.
    - apply String.eqb_eq in E. subst. reflexivity.
    - f_equal. apply IH. destruct H as [H|H]; [|exact H].
      subst. rewrite String.eqb_refl in E. discriminate.
  Qed.

  Lemma dset_notin k (v : A) d : ~ In k (dkeys d) -> dset k v d = d ++ [(k, v)].
  Proof.
    unfold dkeys. induction d as [|[k2 v2] r IH]; simpl; [reflexivity|].
    intros H. destruct (String.eqb k k2) eqn:E.
    - apply String.eqb_eq in E. subst. exfalso. apply H. left. reflexivity.
    - f_equal. apply IH. intros Hin. apply H. right. exact Hin.
  Qed.

  (* keys unchanged if present, appended if absent *)
  Lemma dkeys_dset k (v : A) d :
    dkeys (dset k v d) = if inb k (dkeys d) then dkeys d else dkeys d ++ [k].
  Proof.
    destruct (inb k (dkeys d)) eqn:E.
    - apply inb_spec in E. apply dset_in. exact E.
    - apply inb_false in E. rewrite (dset_notin k v d E). unfold dkeys. rewrite map_app. reflexivity.
  Qed.

  Lemma dkeys_app d e : dkeys (d ++ e) = dkeys d ++ dkeys e.
  Proof. unfold dkeys. apply map_app. Qed.

  Lemma dget_app k d e :
    dget k (d ++ e) = match dget k d with Some v => Some v | None => dget k e end.
  Proof.
    induction d as [|[k2 v2] r IH]; simpl; [reflexivity|].
    destruct (String.eqb k k2); [reflexivity | exact IH].
  Qed.

  Lemma dget_none k d : dget k d = None <-> ~ In k (dkeys d).
  Proof.
    unfold dkeys. induction d as [|[k2 v2] r IH]; simpl.
    - tauto.
    - destruct (String.eqb k k2) eqn:E.
      + apply String.eqb_eq in E. subst. split; [discriminate|]. intros H. exfalso. apply H. auto.
      + apply String.eqb_neq in E. rewrite IH. split.
        * intros H [H1|H1]; [congruence | tauto].
        * intros H H1. apply H. auto.
  Qed.

  Lemma dget_some_in k d v : dget k d = Some v -> In k (dkeys d).
  Proof.
    intros H. destruct (in_dec string_dec k (dkeys d)) as [Hin|Hn]; [exact Hin|].
    apply dget_none in Hn. congruence.
  Qed.

  Lemma dget_in_pair k d v : dget k d = Some v -> In (k, v) d.
  Proof.
    induction d as [|[k2 v2] r IH]; simpl; [discriminate|].
    destruct (String.eqb k k2) eqn:E.
    - apply String.eqb_eq in E. intros H. inversion H. subst. auto.
    - auto.
  Qed.

  Lemma in_dkeys_dget k d : In k (dkeys d) -> exists v, dget k d = Some v.
  Proof.
    intros H. destruct (dget k d) eqn:E; [eauto|]. apply dget_none in E. tauto.
  Qed.

  (* semantic form: e's keys are new and pairwise different -> update is concatenation *)
  Lemma dupdate_disjoint' d e :
    NoDup (dkeys e) -> (forall k, In k (dkeys e) -> ~ In k (dkeys d)) -> dupdate d e = d ++ e.
  Proof.
    unfold dupdate. revert d. induction e as [|[k v] e IH]; intros d Hnd Hdis; simpl.
    - rewrite app_nil_r. reflexivity.
    - unfold dkeys in Hnd. simpl in Hnd. inversion Hnd as [|x l Hnotin Hnd']. subst.
      rewrite dset_notin by (apply Hdis; simpl; auto).
      rewrite IH.
      + rewrite <- app_assoc. reflexivity.
      + exact Hnd'.
      + intros k0 Hk0. rewrite dkeys_app. simpl. intros Hin. apply in_app_or in Hin.
        destruct Hin as [Hin|[Hin|[]]].
        * apply (Hdis k0); simpl; auto.
        * subst. apply Hnotin. exact Hk0.
  Qed.

  Lemma dupdate_disjoint d e :
    NoDup (dkeys e) -> disjointb (dkeys d) (dkeys e) = true -> dupdate d e = d ++ e.
  Proof.
    intros Hnd Hdis. apply dupdate_disjoint'; [exact Hnd|].
    rewrite disjointb_spec in Hdis. intros k Hk Hd. exact (Hdis k Hd Hk).
  Qed.

  (* the variant with the test the other way round (merge_step tests the new names against the old) *)
  Lemma dupdate_disjoint_rev d e :
    NoDup (dkeys e) -> disjointb (dkeys e) (dkeys d) = true -> dupdate d e = d ++ e.
  Proof.
    intros Hnd Hdis. apply dupdate_disjoint'; [exact Hnd|].
    rewrite disjointb_spec in Hdis. exact Hdis.
  Qed.
End Dict.

Lemma NoDup_app_iff {B} (a b : list B) :
  NoDup (a ++ b) <-> NoDup a /\ NoDup b /\ (forall x, In x a -> ~ In x b).
Proof.
  induction a as [|x a IH]; simpl.
  - split; [intros H; repeat split; [constructor | exact H | tauto] | tauto].
  - split.
    + intros H. inversion H as [|y l Hn Hnd]. subst. apply IH in Hnd. destruct Hnd as [Ha [Hb Hd]].
      repeat split.
      * constructor; [|exact Ha]. intros Hin. apply Hn. apply in_or_app. auto.
      * exact Hb.
      * intros y [Hy|Hy] Hyb; [subst; apply Hn; apply in_or_app; auto | exact (Hd y Hy Hyb)].
    + intros [Ha [Hb Hd]]. inversion Ha as [|y l Hn Hnd]. subst. constructor.
      * intros Hin. apply in_app_or in Hin. destruct Hin as [Hin|Hin]; [tauto|].
        apply (Hd x); auto.
      * apply IH. repeat split; auto.
Qed.

(* ================================================================ PART 1 *)
(* 1. each example is extended by exactly its example_id and the dataset name *)
Theorem augment_spec name kv :
  fst (augment name kv) = fst kv /\
  dget "example_id"%string (snd (augment name kv)) = Some (VStr (fst kv)) /\
  dget "dataset"%string (snd (augment name kv)) = Some (VStr name) /\
  forall k, k <> "example_id"%string -> k <> "dataset"%string ->
            dget k (snd (augment name kv)) = dget k (snd kv).
Proof.
  unfold augment. simpl. repeat split.
  - rewrite dget_dset_other by discriminate. apply dget_dset_same.
  - apply dget_dset_same.
  - intros k H1 H2. rewrite dget_dset_other by exact H2. rewrite dget_dset_other by exact H1. reflexivity.
Qed.

Lemma map_fst_augment name (ex : dsdict) : map fst (map (augment name) ex) = map fst ex.
Proof. rewrite map_map. apply map_ext. intros a. reflexivity. Qed.

(* 2. a stored dataset: each stored example exactly once, in stored order *)
Theorem get_dataset_content d name ex :
  dget name (alias d) = None -> dget name (datasets d) = Some ex -> ex <> [] ->
  get_examples d name = Ok (map (augment name) ex) /\
  map fst (map (augment name) ex) = map fst ex.
Proof.
  intros Ha Hd Hne. split; [|apply map_fst_augment].
  unfold get_examples. rewrite Ha, Hd. simpl. destruct ex; [congruence | reflexivity].
Qed.

(* 5. refusals *)
Theorem unknown_name_rejected d name :
  dget name (alias d) = None -> dget name (datasets d) = None -> get_examples d name = Err (lib EKey).
Proof. intros Ha Hd. unfold get_examples. rewrite Ha, Hd. reflexivity. Qed.

Theorem empty_dataset_rejected d name :
  dget name (alias d) = None -> dget name (datasets d) = Some [] -> get_examples d name = Err (lib ERuntime).
Proof. intros Ha Hd. unfold get_examples. rewrite Ha, Hd. reflexivity. Qed.

(* 6. a list of names is the concatenation *)
Theorem list_is_concat d names ts :
  names <> [] -> mapM (get_dataset1 d) names = Ok ts -> get_dataset_list d names = Ok (concat ts).
Proof.
  intros Hne H. unfold get_dataset_list. destruct names; [congruence|]. rewrite H. reflexivity.
Qed.

Theorem empty_list_rejected d : get_dataset_list d [] = Err (lib EValue).
Proof. reflexivity. Qed.

(* ================================================================ PART 3: the weak memo *)
Lemma dget_filter_other {A} (name n' : string) (l : list (string * A)) :
  name <> n' ->
  dget name (filter (fun e => negb (String.eqb n' (fst e))) l) = dget name l.
Proof.
  intros Hne. induction l as [|[k v] r IH]; simpl; [reflexivity|].
  destruct (String.eqb n' k) eqn:E; simpl.
  - apply String.eqb_eq in E. subst k. apply String.eqb_neq in Hne. rewrite Hne. exact IH.
  - destruct (String.eqb name k); [reflexivity | exact IH].
Qed.

Lemma memo_get_entry m name id :
  snd (memo_step m (MGetDs name)) = Some id ->
  dget name (entries (fst (memo_step m (MGetDs name)))) = Some id.
Proof.
  simpl. destruct (dget name (entries m)) eqn:E; simpl.
  - intros H. inversion H. subst. exact E.
  - intros H. inversion H. subst. rewrite String.eqb_refl. reflexivity.
Qed.

Lemma memo_step_keeps_entry s o name id :
  o <> MDropDs name -> dget name (entries s) = Some id ->
  dget name (entries (fst (memo_step s o))) = Some id.
Proof.
  intros Ho Hs. destruct o as [n'|n']; simpl.
  - destruct (dget n' (entries s)) eqn:E; simpl; [exact Hs|].
    destruct (String.eqb name n') eqn:E2; [|exact Hs].
    apply String.eqb_eq in E2. subst. congruence.
  - rewrite dget_filter_other; [exact Hs|]. intros Heq. subst. apply Ho. reflexivity.
Qed.

(* 10. repeated requests are served from one shared dataset while it is alive *)
Theorem memo_shared_while_alive m name ops id :
  snd (memo_step m (MGetDs name)) = Some id ->
  Forall (fun o => o <> MDropDs name) ops ->
  let m' := fold_left (fun s o => fst (memo_step s o)) ops (fst (memo_step m (MGetDs name))) in
  snd (memo_step m' (MGetDs name)) = Some id.
Proof.
  intros H Hops m'.
  assert (Hm' : dget name (entries m') = Some id).
  { subst m'. apply memo_get_entry in H. revert H.
    generalize (fst (memo_step m (MGetDs name))). induction Hops as [|o ops Ho Hops IH]; intros s Hs; simpl.
    - exact Hs.
    - apply IH. apply memo_step_keeps_entry; assumption. }
  simpl. rewrite Hm'. reflexivity.
Qed.

Definition memo_inv (m : memo) : Prop := forall n i, In (n, i) (entries m) -> i < next_id m.

(* a request for a name that is not in the memo gets an id different from every id in the memo *)
Theorem memo_fresh_ids m name id :
  memo_inv m -> dget name (entries m) = None ->
  snd (memo_step m (MGetDs name)) = Some id ->
  forall n i, In (n, i) (entries m) -> i <> id.
Proof.
  intros Hinv Hnone H n i Hin. simpl in H. rewrite Hnone in H. simpl in H. inversion H. subst.
  apply Hinv in Hin. lia.
Qed.

Lemma memo_inv_step m o : memo_inv m -> memo_inv (fst (memo_step m o)).
Proof.
  unfold memo_inv. intros Hinv. destruct o as [name|name]; simpl.
  - destruct (dget name (entries m)) eqn:E; simpl; [exact Hinv|].
    intros n i [Heq|Hin]; [inversion Heq; lia | apply Hinv in Hin; lia].
  - intros n i Hin. apply filter_In in Hin. destruct Hin as [Hin _]. exact (Hinv n i Hin).
Qed.

Lemma memo_inv_init : memo_inv (mkMemo [] 0).
Proof. intros n i []. Qed.

(* ================================================================ PART 1, merge *)
Theorem extra_keys_rejected acc p : p_extra p <> [] -> merge_step acc p = Err (lib EAssert).
Proof. intros H. unfold merge_step. destruct (p_extra p); [congruence | reflexivity]. Qed.

Theorem duplicate_dataset_rejected acc p ds n :
  p_extra p = [] -> p_datasets p = Some ds -> In n (dkeys ds) ->
  (In n (dkeys (datasets acc)) \/ In n (dkeys (alias acc))) ->
  merge_step acc p = Err (lib EAssert).
Proof.
  intros He Hd Hn Hacc. unfold merge_step. rewrite He, Hd. simpl.
  rewrite (disjointb_false _ _ n Hn); [reflexivity|].
  apply in_or_app. exact Hacc.
Qed.

Theorem duplicate_alias_rejected acc p ds al n :
  p_extra p = [] -> p_datasets p = Some ds -> p_alias p = Some al -> In n (dkeys al) ->
  (In n (dkeys (datasets acc)) \/ In n (dkeys (alias acc))) ->
  merge_step acc p = Err (lib EAssert).
Proof.
  intros He Hd Ha Hn Hacc. unfold merge_step. rewrite He, Hd, Ha. simpl.
  destruct (disjointb (dkeys ds) _); simpl; [|reflexivity].
  rewrite (disjointb_false _ _ n Hn); [reflexivity|].
  apply in_or_app. exact Hacc.
Qed.

Lemma merge_step_ok acc p acc' :
  merge_step acc p = Ok acc' ->
  p_extra p = [] /\
  exists ds, p_datasets p = Some ds /\
    disjointb (dkeys ds) (dkeys (datasets acc) ++ dkeys (alias acc)) = true /\
    datasets acc' = dupdate (datasets acc) ds /\
    match p_alias p with
    | None => alias acc' = alias acc
    | Some al => disjointb (dkeys al) (dkeys (datasets acc) ++ dkeys (alias acc)) = true /\
                 alias acc' = dupdate (alias acc) al
    end.
Proof.
  unfold merge_step. destruct (p_extra p); simpl; [|discriminate].
  destruct (p_datasets p) as [ds|]; [|discriminate].
  destruct (disjointb (dkeys ds) _) eqn:E1; simpl; [|discriminate].
  destruct (p_alias p) as [al|].
  - destruct (disjointb (dkeys al) _) eqn:E2; simpl; [|discriminate].
    intros H. inversion H. subst. simpl. split; [reflexivity|]. exists ds. auto.
  - intros H. inversion H. subst. simpl. split; [reflexivity|]. exists ds. auto.
Qed.

(* nothing stored is lost or changed by merging one more part *)
Theorem merge_step_keeps acc p acc' ds :
  merge_step acc p = Ok acc' -> p_datasets p = Some ds -> NoDup (dkeys ds) ->
  datasets acc' = datasets acc ++ ds /\
  (forall n ex, dget n (datasets acc) = Some ex -> dget n (datasets acc') = Some ex) /\
  (forall n ex, dget n ds = Some ex -> dget n (datasets acc') = Some ex).
Proof.
  intros H Hd Hnd. apply merge_step_ok in H. destruct H as [_ [ds' [Hd' [Hdis [Hacc' _]]]]].
  rewrite Hd in Hd'. inversion Hd'. subst ds'.
  assert (Hnew : forall k, In k (dkeys ds) -> ~ In k (dkeys (datasets acc))).
  { rewrite disjointb_spec in Hdis. intros k Hk Hin. apply (Hdis k Hk). apply in_or_app. auto. }
  assert (Heq : datasets acc' = datasets acc ++ ds).
  { rewrite Hacc'. apply dupdate_disjoint'; assumption. }
  split; [exact Heq|]. split.
  - intros n ex Hn. rewrite Heq, dget_app, Hn. reflexivity.
  - intros n ex Hn. rewrite Heq, dget_app.
    assert (Hnone : dget n (datasets acc) = None).
    { apply dget_none. apply Hnew. eapply dget_some_in. exact Hn. }
    rewrite Hnone. exact Hn.
Qed.

(* the same for the alias table *)
Theorem merge_step_keeps_alias acc p acc' al :
  merge_step acc p = Ok acc' -> p_alias p = Some al -> NoDup (dkeys al) ->
  alias acc' = alias acc ++ al.
Proof.
  intros H Ha Hnd. apply merge_step_ok in H. destruct H as [_ [ds' [_ [_ [_ Hal]]]]].
  rewrite Ha in Hal. destruct Hal as [Hdis Heq]. rewrite Heq. apply dupdate_disjoint'; [exact Hnd|].
  rewrite disjointb_spec in Hdis. intros k Hk Hin. apply (Hdis k Hk). apply in_or_app. auto.
Qed.

Definition merge_go : db -> list part -> res db :=
  fix go (acc : db) (l : list part) : res db :=
    match l with [] => Ok acc | p :: r => do a <- merge_step acc p; go a r end.

Lemma merge_unfold p0 rest ds0 :
  p_datasets p0 = Some ds0 ->
  merge (p0 :: rest) = merge_go (mkDb ds0 (match p_alias p0 with Some a => a | None => [] end)) rest.
Proof. intros H. unfold merge. rewrite H. reflexivity. Qed.

Definition part_names_nodup (p : part) : Prop := forall ds, p_datasets p = Some ds -> NoDup (dkeys ds).

Lemma merge_go_keeps rest : forall acc d,
  merge_go acc rest = Ok d -> Forall part_names_nodup rest ->
  (forall n ex, dget n (datasets acc) = Some ex -> dget n (datasets d) = Some ex) /\
  (forall p ds n ex, In p rest -> p_datasets p = Some ds -> dget n ds = Some ex ->
                     dget n (datasets d) = Some ex).
Proof.
  induction rest as [|p r IH]; intros acc d H Hnd; simpl in H.
  - inversion H. subst. split; [auto|]. intros p ds n ex [].
  - destruct (merge_step acc p) as [a|e] eqn:E; simpl in H; [|discriminate].
    inversion Hnd as [|x l Hp Hr]. subst.
    destruct (merge_step_ok _ _ _ E) as [_ [ds [Hds _]]].
    destruct (merge_step_keeps _ _ _ _ E Hds (Hp _ Hds)) as [_ [Hold Hnew]].
    destruct (IH a d H Hr) as [IH1 IH2]. split.
    + intros n ex Hn. apply IH1. apply Hold. exact Hn.
    + intros p' ds' n ex [Heq|Hin] Hds' Hn.
      * subst p'. rewrite Hds in Hds'. inversion Hds'. subst ds'. apply IH1. apply Hnew. exact Hn.
      * eapply IH2; eassumption.
Qed.

Theorem merge_keeps_first p0 rest d ds0 :
  merge (p0 :: rest) = Ok d -> p_datasets p0 = Some ds0 -> Forall part_names_nodup rest ->
  forall n ex, dget n ds0 = Some ex -> dget n (datasets d) = Some ex.
Proof.
  intros H Hd Hnd n ex Hn. rewrite (merge_unfold _ _ _ Hd) in H.
  destruct (merge_go_keeps _ _ _ H Hnd) as [H1 _]. apply H1. exact Hn.
Qed.

(* every part's datasets survive the merge unchanged *)
Theorem merge_keeps_every p0 rest d ds0 p ds :
  merge (p0 :: rest) = Ok d -> p_datasets p0 = Some ds0 -> Forall part_names_nodup rest ->
  In p (p0 :: rest) -> p_datasets p = Some ds ->
  forall n ex, dget n ds = Some ex -> dget n (datasets d) = Some ex.
Proof.
  intros H Hd Hnd Hin Hds n ex Hn. rewrite (merge_unfold _ _ _ Hd) in H.
  destruct (merge_go_keeps _ _ _ H Hnd) as [H1 H2]. destruct Hin as [Heq|Hin].
  - subst p. rewrite Hd in Hds. inversion Hds. subst. apply H1. exact Hn.
  - eapply H2; eassumption.
Qed.
