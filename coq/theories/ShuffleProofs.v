(* ShuffleProofs.v - proofs about Model F (Shuffle.v): the random stages with the generator as an oracle. *)
From Coq Require Import String ZArith.
Require Import LD.Base LD.Ref.
From Coq Require Import List Arith Bool Lia ZifyBool ZifyNat Permutation.
Import ListNotations.
Require Import LD.Shuffle.
Close Scope Z_scope.
Close Scope string_scope.
Open Scope nat_scope.
Open Scope list_scope.

Definition is_perm (n : nat) (l : list nat) := Permutation l (seq 0 n).

(* ================================================================ Part 3 *)
Section Part3.
  Context {A : Type}.

  Lemma select_nil (l : list A) : select [] l = Some [].
  Proof. reflexivity. Qed.

  Lemma select_cons i idx (l : list A) :
    select (i :: idx) l =
    match nth_error l i with
    | Some x => match select idx l with Some r => Some (x :: r) | None => None end
    | None => None
    end.
  Proof. unfold select. simpl. destruct (nth_error l i); reflexivity. Qed.

  Lemma select_app i1 i2 (l : list A) :
    select (i1 ++ i2) l =
    match select i1 l, select i2 l with
    | Some a, Some b => Some (a ++ b)
    | _, _ => None
    end.
  Proof.
    induction i1 as [|i i1 IH]; simpl app.
    - rewrite select_nil. destruct (select i2 l); reflexivity.
    - rewrite !select_cons. destruct (nth_error l i); [|reflexivity].
      rewrite IH. destruct (select i1 l); [|reflexivity]. destruct (select i2 l); reflexivity.
  Qed.

  Lemma select_total idx (l : list A) :
    Forall (fun i => i < List.length l) idx -> exists l', select idx l = Some l'.
  Proof.
    induction 1 as [|i idx Hi _ [r Hr]].
    - exists []. reflexivity.
    - rewrite select_cons. destruct (nth_error l i) eqn:E.
      + rewrite Hr. eauto.
      + apply nth_error_None in E. lia.
  Qed.

  Lemma select_bound idx (l l' : list A) :
    select idx l = Some l' -> Forall (fun i => i < List.length l) idx.
  Proof.
    revert l'. induction idx as [|i idx IH]; intros l' H.
    - constructor.
    - rewrite select_cons in H. destruct (nth_error l i) eqn:E; [|discriminate].
      destruct (select idx l) eqn:E2; [|discriminate].
      constructor; [|eauto]. apply nth_error_Some. congruence.
  Qed.

  Lemma select_Permutation idx idx' (l : list A) :
    Permutation idx idx' -> forall l', select idx l = Some l' ->
    exists l'', select idx' l = Some l'' /\ Permutation l' l''.
  Proof.
    induction 1 as [|i a b Hab IH|i j a|a b c Hab IH1 Hbc IH2]; intros l' H.
    - exists l'. split; [assumption|reflexivity].
    - rewrite select_cons in H |- *. destruct (nth_error l i); [|discriminate].
      destruct (select a l) as [r|] eqn:E; [|discriminate]. inversion H; subst.
      destruct (IH _ eq_refl) as [r' [Hr' Hp]]. rewrite Hr'. eexists; split; [reflexivity|].
      constructor; assumption.
    - rewrite !select_cons in H |- *.
      destruct (nth_error l i); destruct (nth_error l j); try discriminate.
      destruct (select a l); [|discriminate]. inversion H; subst.
      eexists; split; [reflexivity|]. constructor.
    - destruct (IH1 _ H) as [l1 [H1 P1]]. destruct (IH2 _ H1) as [l2 [H2 P2]].
      exists l2. split; [assumption|]. etransitivity; eassumption.
  Qed.

  Lemma select_map_S idx x (l : list A) : select (map S idx) (x :: l) = select idx l.
  Proof.
    induction idx as [|i idx IH]; [reflexivity|].
    simpl map. rewrite !select_cons. simpl nth_error. rewrite IH. reflexivity.
  Qed.

  Lemma select_id (l : list A) : select (seq 0 (List.length l)) l = Some l.
  Proof.
    induction l as [|x l IH]; [reflexivity|].
    simpl List.length. simpl seq. rewrite <- seq_shift. rewrite select_cons. simpl nth_error.
    rewrite select_map_S, IH. reflexivity.
  Qed.

  (* 3a: a one-time shuffle / the frozen copy of a reshuffle iterates a permutation of the dataset *)
  Theorem select_perm idx (l l' : list A) :
    select idx l = Some l' -> Permutation idx (seq 0 (List.length l)) -> Permutation l' l.
  Proof.
    intros H P. destruct (select_Permutation _ _ l P _ H) as [l'' [H2 P2]].
    rewrite select_id in H2. inversion H2; subst. assumption.
  Qed.

  Lemma nodup_incl_complement (idx : list nat) :
    NoDup idx -> forall L, incl idx L -> exists rest, Permutation (idx ++ rest) L.
  Proof.
    induction 1 as [|i idx Hni Hnd IH]; intros L HL.
    - exists L. reflexivity.
    - assert (Hi : In i L) by (apply HL; left; reflexivity).
      destruct (in_split _ _ Hi) as [L1 [L2 ->]].
      destruct (IH (L1 ++ L2)) as [rest Hr].
      + intros x Hx. assert (Hx' : In x (L1 ++ i :: L2)) by (apply HL; right; assumption).
        apply in_app_or in Hx'. apply in_or_app. destruct Hx' as [?|[->|?]]; auto. contradiction.
      + exists rest. simpl. etransitivity; [apply perm_skip, Hr|]. apply Permutation_middle.
  Qed.

  (* 3b: sampling without replacement yields each example at most once *)
  Theorem select_nodup_sub idx (l l' : list A) :
    select idx l = Some l' -> NoDup idx -> exists rest, Permutation (l' ++ rest) l.
  Proof.
    intros H ND. pose proof (select_bound _ _ _ H) as Hb.
    destruct (nodup_incl_complement idx ND (seq 0 (List.length l))) as [ri Hri].
    - intros x Hx. rewrite Forall_forall in Hb. apply in_seq. specialize (Hb _ Hx). lia.
    - assert (Hrb : Forall (fun i => i < List.length l) ri).
      { apply Forall_forall. intros x Hx.
        assert (In x (seq 0 (List.length l))) as Hin
            by (eapply Permutation_in; [exact Hri|apply in_or_app; right; assumption]).
        apply in_seq in Hin. lia. }
      destruct (select_total _ _ Hrb) as [rest Hrest]. exists rest.
      apply (select_perm (idx ++ ri)); [|assumption].
      rewrite select_app, H, Hrest. reflexivity.
  Qed.

  (* 3c: shuffled tiling: every repetition is a permutation of the dataset *)
  Theorem tile_shuffle_perm (t : list A) (ts : list (list A)) :
    Forall (fun t' => Permutation t' t) ts ->
    Permutation (concat ts) (concat (repeat t (List.length ts))).
  Proof.
    induction 1 as [|t' ts Ht _ IH]; simpl; [constructor|].
    apply Permutation_app; assumption.
  Qed.
End Part3.

(* ================================================================ generic list lemmas *)
Section Lists.
  Context {A : Type}.

  Lemma map_nth_seq (l : list A) d : map (fun i => nth i l d) (seq 0 (length l)) = l.
  Proof.
    induction l as [|x l IH]; [reflexivity|].
    simpl length. simpl seq. rewrite <- seq_shift. simpl map. rewrite map_map. simpl. rewrite IH. reflexivity.
  Qed.

  Lemma map_nth_perm (l : list A) d sigma :
    is_perm (length l) sigma -> Permutation (map (fun i => nth i l d) sigma) l.
  Proof.
    intros H. etransitivity; [apply Permutation_map; exact H|]. rewrite map_nth_seq. reflexivity.
  Qed.

  Lemma upd_length (l : list A) i a : length (upd l i a) = length l.
  Proof. revert i; induction l; destruct i; simpl; auto. Qed.

  Lemma nth_error_upd_eq (l : list A) i a : i < length l -> nth_error (upd l i a) i = Some a.
  Proof. revert i; induction l; destruct i; simpl; intros; try lia; auto. apply IHl. lia. Qed.

  Lemma nth_error_upd_neq (l : list A) i j a : i <> j -> nth_error (upd l i a) j = nth_error l j.
  Proof. revert i j; induction l; destruct i, j; simpl; intros; try congruence; auto. Qed.

  Lemma nth_upd_eq (l : list A) i a d : i < length l -> nth i (upd l i a) d = a.
  Proof. revert i; induction l; destruct i; simpl; intros; try lia; auto. apply IHl. lia. Qed.

  Lemma nth_upd_neq (l : list A) i j a d : i <> j -> nth j (upd l i a) d = nth j l d.
  Proof. revert i j; induction l; destruct i, j; simpl; intros; try congruence; auto. Qed.

  Lemma firstn_S_snoc (l : list A) p x : nth_error l p = Some x -> firstn (S p) l = firstn p l ++ [x].
  Proof.
    revert p; induction l as [|y l IH]; destruct p; simpl; intros H; try discriminate.
    - inversion H; reflexivity.
    - f_equal. apply IH. assumption.
  Qed.

  Lemma remove_at_perm (l : list A) c y : nth_error l c = Some y -> Permutation (y :: remove_at l c) l.
  Proof.
    revert c; induction l as [|x l IH]; destruct c; simpl; intros H; try discriminate.
    - inversion H; reflexivity.
    - etransitivity; [apply perm_swap|]. apply perm_skip. apply IH. assumption.
  Qed.

  Lemma remove_at_in (l : list A) c x : In x (remove_at l c) -> In x l.
  Proof.
    revert c; induction l as [|y l IH]; destruct c; simpl; intros H; auto.
    destruct H; eauto.
  Qed.
End Lists.

(* ================================================================ Part 1 *)
Lemma is_perm_length n l : is_perm n l -> length l = n.
Proof. intros H. apply Permutation_length in H. rewrite seq_length in H. exact H. Qed.

(* 1a *)
Theorem apply_perm_is_perm n sigma a : is_perm n sigma -> is_perm n a -> is_perm n (apply_perm sigma a).
Proof.
  intros Hs Ha. unfold is_perm, apply_perm. etransitivity; [|exact Ha].
  apply map_nth_perm. rewrite (is_perm_length _ _ Ha). exact Hs.
Qed.

Lemma rstep_next_arr s it : arr (rstep s (RNext it)) = arr s.
Proof.
  simpl. destruct (nth_error (pos s) it); [|reflexivity]. destruct (nth_error (arr s) n); reflexivity.
Qed.

(* 1b *)
Theorem arr_always_perm n ops s :
  is_perm n (arr s) ->
  Forall (fun o => match o with RStart sg => is_perm n sg | RNext _ => True end) ops ->
  is_perm n (arr (rrun s ops)).
Proof.
  intros Hs Hops. revert s Hs. induction Hops as [|o ops Ho _ IH]; intros s Hs; [exact Hs|].
  simpl. apply IH. destruct o as [sg|it].
  - simpl. apply apply_perm_is_perm; assumption.
  - rewrite rstep_next_arr. assumption.
Qed.

(* 1d: finding F9 - a second iterator started while the first is in flight re-shuffles the shared array *)
Example reshuffle_interleaved_refuted :
  exists n ops,
    Forall (fun o => match o with RStart sg => is_perm n sg | _ => True end) ops /\
    let s := rrun (rinit n) ops in
    length (nth 0 (outs s) []) = n /\ ~ is_perm n (nth 0 (outs s) []).
Proof.
  exists 2, [RStart [0;1]; RNext 0; RStart [1;0]; RNext 0]. split.
  - repeat constructor.
  - simpl. split; [reflexivity|]. unfold is_perm. simpl. intros H.
    apply Permutation_sym in H.
    assert (Hin : In 1 [0;0]) by (eapply Permutation_in; [exact H|simpl; auto]).
    simpl in Hin. intuition discriminate.
Qed.

(* 1c *)
Definition iter_inv (A : list nat) (it : nat) (s : rstate) : Prop :=
  arr s = A /\ length (pos s) = length (outs s) /\ it < length (pos s) /\
  exists p, nth_error (pos s) it = Some p /\ nth it (outs s) [] = firstn p A /\ p <= length A.

Lemma iter_inv_next A it s it' : iter_inv A it s -> iter_inv A it (rstep s (RNext it')).
Proof.
  destruct s as [a ps os]. unfold iter_inv. simpl. intros (Ha & Hl & Hit & p & Hp & Ho & Hle). subst a.
  destruct (nth_error ps it') as [p'|] eqn:E1; simpl; [|eauto 10].
  destruct (nth_error A p') as [idx|] eqn:E2; simpl; [|eauto 10].
  split; [reflexivity|]. rewrite !upd_length. split; [assumption|]. split; [assumption|].
  destruct (Nat.eq_dec it' it) as [->|Hne].
  - rewrite Hp in E1. inversion E1; subst p'. exists (S p).
    rewrite nth_error_upd_eq by assumption. rewrite nth_upd_eq by lia.
    split; [reflexivity|]. split.
    + rewrite Ho. symmetry. apply firstn_S_snoc. assumption.
    + assert (p < length A) by (apply nth_error_Some; congruence). lia.
  - exists p. rewrite nth_error_upd_neq by assumption. rewrite nth_upd_neq by assumption. auto.
Qed.

Lemma iter_inv_run A it ops : forall s,
  Forall (fun o => match o with RStart _ => False | RNext _ => True end) ops ->
  iter_inv A it s -> iter_inv A it (rrun s ops).
Proof.
  induction ops as [|o ops IH]; intros s Hops Hs; [exact Hs|].
  inversion Hops; subst. simpl. apply IH; [assumption|].
  destruct o; [contradiction|]. apply iter_inv_next. assumption.
Qed.

Lemma iter_inv_start s sigma :
  length (outs s) = length (pos s) ->
  iter_inv (apply_perm sigma (arr s)) (length (pos s)) (rstep s (RStart sigma)).
Proof.
  intros Hl. unfold iter_inv. simpl. rewrite !app_length. simpl.
  split; [reflexivity|]. split; [lia|]. split; [lia|]. exists 0.
  rewrite nth_error_app2 by lia. rewrite Nat.sub_diag. simpl.
  rewrite <- Hl at 1. rewrite app_nth2 by lia. rewrite Nat.sub_diag. simpl.
  repeat split; lia.
Qed.

Theorem reshuffle_single_iter n s sigma ops :
  is_perm n (arr s) -> is_perm n sigma ->
  Forall (fun o => match o with RStart _ => False | RNext _ => True end) ops ->
  let it := length (pos s) in
  let s' := rrun (rstep s (RStart sigma)) ops in
  length (outs s) = length (pos s) ->
  (exists p, nth_error (pos s') it = Some p /\ p = length (nth it (outs s') [])) /\
  (nth it (outs s') [] = firstn (length (nth it (outs s') [])) (apply_perm sigma (arr s))) /\
  (length (nth it (outs s') []) = n -> is_perm n (nth it (outs s') [])).
Proof.
  intros Ha Hs Hops it s' Hl.
  pose proof (iter_inv_run _ _ ops _ Hops (iter_inv_start s sigma Hl)) as Hinv.
  fold it in Hinv. fold s' in Hinv.
  destruct Hinv as (Harr & Hlen & Hit & p & Hp & Ho & Hle).
  assert (Hlp : length (nth it (outs s') []) = p) by (rewrite Ho, firstn_length; lia).
  rewrite Hlp. split; [eauto|]. split; [assumption|].
  intros ->. rewrite Ho.
  pose proof (apply_perm_is_perm _ _ _ Hs Ha) as HA.
  rewrite <- (is_perm_length _ _ HA) at 2. rewrite firstn_all. exact HA.
Qed.

Lemma rrun_cons s o l : rrun s (o :: l) = rrun (rstep s o) l.
Proof. reflexivity. Qed.

Lemma iter_solo_run A it k : forall s p,
  arr s = A -> it < length (outs s) ->
  nth_error (pos s) it = Some p -> nth it (outs s) [] = firstn p A -> p + k <= length A ->
  let s' := rrun s (repeat (RNext it) k) in
  arr s' = A /\ it < length (outs s') /\
  nth_error (pos s') it = Some (p + k) /\ nth it (outs s') [] = firstn (p + k) A.
Proof.
  induction k as [|k IH]; intros s p Ha Hit Hp Ho Hle.
  - simpl. rewrite Nat.add_0_r. auto.
  - destruct s as [a ps os]. simpl in Ha, Hit, Hp, Ho. subst a.
    assert (Hlt : p < length A) by lia.
    destruct (nth_error A p) as [idx|] eqn:E; [|apply nth_error_None in E; lia].
    assert (Hpl : it < length ps) by (apply nth_error_Some; congruence).
    assert (Hstep : rstep (mkR A ps os) (RNext it) = mkR A (upd ps it (S p)) (upd os it (firstn p A ++ [idx]))).
    { simpl. rewrite Hp, E, Ho. reflexivity. }
    simpl repeat. cbv zeta. rewrite rrun_cons, Hstep.
    replace (p + S k) with (S p + k) by lia.
    apply IH; simpl.
    + reflexivity.
    + rewrite upd_length. assumption.
    + apply nth_error_upd_eq. assumption.
    + rewrite nth_upd_eq by assumption. symmetry. apply firstn_S_snoc. assumption.
    + lia.
Qed.

(* schedule "start, then n times next of that same iterator": the output is exactly the freshly shuffled array *)
Corollary reshuffle_solo n s sigma :
  is_perm n (arr s) -> is_perm n sigma -> length (outs s) = length (pos s) ->
  let it := length (pos s) in
  let s' := rrun (rstep s (RStart sigma)) (repeat (RNext it) n) in
  nth it (outs s') [] = apply_perm sigma (arr s) /\ is_perm n (nth it (outs s') []).
Proof.
  intros Ha Hs Hl it s'.
  pose proof (apply_perm_is_perm _ _ _ Hs Ha) as HA.
  destruct (iter_inv_start s sigma Hl) as (Harr & Hlen & Hit & p & Hp & Ho & Hle).
  fold it in Hit, Hp, Ho.
  assert (p = 0).
  { simpl in Hp. unfold it in Hp. rewrite nth_error_app2 in Hp by lia. rewrite Nat.sub_diag in Hp.
    simpl in Hp. congruence. }
  subst p.
  destruct (iter_solo_run (apply_perm sigma (arr s)) it n (rstep s (RStart sigma)) 0) as (_ & _ & _ & Hout);
    try assumption.
  - rewrite <- Hlen. assumption.
  - rewrite (is_perm_length _ _ HA). lia.
  - fold s' in Hout. simpl in Hout.
    rewrite <- (is_perm_length _ _ HA) in Hout at 1. rewrite firstn_all in Hout.
    rewrite Hout. split; [reflexivity|exact HA].
Qed.

(* ================================================================ Part 4 *)
Definition agree (G : list nat) (st st' : store) : Prop :=
  forall g, In g G -> nth_error st g = nth_error st' g.

Definition rel_res {X} (G : list nat) (r r' : option (X * store)) : Prop :=
  match r, r' with
  | Some (x, s), Some (x', s') => x = x' /\ agree G s s'
  | None, None => True
  | _, _ => False
  end.

Lemma agree_upd G st st' g r : agree G st st' -> nth_error st g = nth_error st' g ->
  agree G (upd st g r) (upd st' g r).
Proof.
  intros H Hg x Hx. destruct (Nat.eq_dec g x) as [->|Hne].
  - destruct (nth_error st x) eqn:E.
    + rewrite !nth_error_upd_eq; [reflexivity| |].
      * apply nth_error_Some. rewrite <- Hg. congruence.
      * apply nth_error_Some. congruence.
    + assert (E' : nth_error st' x = None) by congruence.
      assert (nth_error (upd st x r) x = None) as -> by (apply nth_error_None; rewrite upd_length; apply nth_error_None; assumption).
      symmetry. apply nth_error_None; rewrite upd_length; apply nth_error_None; assumption.
  - rewrite !nth_error_upd_neq by assumption. apply H. assumption.
Qed.

Lemma take_draw_frame G st st' g : agree G st st' -> In g G ->
  rel_res G (take_draw st g) (take_draw st' g).
Proof.
  intros H Hg. unfold take_draw. pose proof (H g Hg) as E. rewrite <- E.
  destruct (nth_error st g) as [[|x r]|]; simpl; auto.
  split; [reflexivity|]. apply agree_upd; [assumption|apply H; assumption].
Qed.

Lemma take_draw_other st g x st1 g' : take_draw st g = Some (x, st1) -> g' <> g ->
  nth_error st1 g' = nth_error st g'.
Proof.
  unfold take_draw. destruct (nth_error st g) as [[|y r]|]; try discriminate.
  intros H Hne. inversion H; subst. apply nth_error_upd_neq. auto.
Qed.

Lemma xlocal_frame G B g xs : In g G -> forall buf st st', agree G st st' ->
  rel_res G (xlocal B g buf xs st) (xlocal B g buf xs st').
Proof.
  intros Hg. induction xs as [|x r IH]; intros buf st st' H; simpl.
  - pose proof (take_draw_frame G st st' g H Hg) as Ht. unfold rel_res in Ht.
    destruct (take_draw st g) as [[dr st1]|], (take_draw st' g) as [[dr' st1']|]; try contradiction; simpl; auto.
    destruct Ht as [<- Ha]. destruct dr; simpl; auto.
    destruct (length sigma =? length buf); simpl; auto.
  - destruct (B <=? length (buf ++ [x])).
    + pose proof (take_draw_frame G st st' g H Hg) as Ht. unfold rel_res in Ht.
      destruct (take_draw st g) as [[dr st1]|], (take_draw st' g) as [[dr' st1']|]; try contradiction; simpl; auto.
      destruct Ht as [<- Ha]. destruct dr; simpl; auto.
      destruct (nth_error (buf ++ [x]) c); simpl; auto.
      specialize (IH (remove_at (buf ++ [x]) c) st1 st1' Ha). unfold rel_res in IH.
      destruct (xlocal B g (remove_at (buf ++ [x]) c) r st1) as [[o s2]|],
               (xlocal B g (remove_at (buf ++ [x]) c) r st1') as [[o' s2']|]; try contradiction; simpl; auto.
      destruct IH as [<- ?]. auto.
    + apply IH. assumption.
Qed.

Lemma xlocal_other B g xs g' : g' <> g -> forall buf st o st1,
  xlocal B g buf xs st = Some (o, st1) -> nth_error st1 g' = nth_error st g'.
Proof.
  intros Hne. induction xs as [|x r IH]; intros buf st o st1; simpl.
  - destruct (take_draw st g) as [[dr s]|] eqn:E; [|discriminate].
    destruct dr; [|discriminate]. destruct (length sigma =? length buf); [|discriminate].
    intros H; inversion H; subst. eapply take_draw_other; eassumption.
  - destruct (B <=? length (buf ++ [x])).
    + destruct (take_draw st g) as [[dr s]|] eqn:E; [|discriminate].
      destruct dr; [discriminate|]. destruct (nth_error (buf ++ [x]) c); [|discriminate].
      destruct (xlocal B g (remove_at (buf ++ [x]) c) r s) as [[o' s']|] eqn:E2; [|discriminate].
      intros H; inversion H; subst. rewrite (IH _ _ _ _ E2). eapply take_draw_other; eassumption.
    + apply IH.
Qed.

Definition eres := (list nat * list (list nat) * nat)%type.

Lemma epoch_agree G d : incl (rngs_of d) G -> forall arrs k st st', agree G st st' ->
  @rel_res eres G (epoch d arrs k st) (epoch d arrs k st').
Proof.
  induction d as [n|d IH|perm d IH|g d IH|g B d IH|d IH|g d IH]; intros HG arrs k st st' H; simpl in *.
  - auto.
  - apply IH; assumption.
  - specialize (IH HG arrs k st st' H). unfold rel_res in IH.
    destruct (epoch d arrs k st) as [[[[o a] k1] s1]|], (epoch d arrs k st') as [[[[o' a'] k1'] s1']|];
      try contradiction; simpl; auto.
    destruct IH as [E Ha]. inversion E; subst. auto.
  - assert (Hg : In g G) by (apply HG; left; reflexivity).
    assert (HG' : incl (rngs_of d) G) by (intros x Hx; apply HG; right; assumption).
    pose proof (take_draw_frame G st st' g H Hg) as Ht. unfold rel_res in Ht.
    destruct (take_draw st g) as [[dr st1]|], (take_draw st' g) as [[dr' st1']|]; try contradiction; simpl; auto.
    destruct Ht as [<- Ha]. destruct dr; simpl; auto.
    destruct (length sigma =? length (nth k arrs [])); simpl; auto.
    specialize (IH HG' (upd arrs k (apply_perm sigma (nth k arrs []))) (S k) st1 st1' Ha). unfold rel_res in IH.
    destruct (epoch d _ (S k) st1) as [[[[o a] k1] s1]|], (epoch d _ (S k) st1') as [[[[o' a'] k1'] s1']|];
      try contradiction; simpl; auto.
    destruct IH as [E Ha2]. inversion E; subst. auto.
  - assert (Hg : In g G) by (apply HG; left; reflexivity).
    assert (HG' : incl (rngs_of d) G) by (intros x Hx; apply HG; right; assumption).
    specialize (IH HG' arrs k st st' H). unfold rel_res in IH.
    destruct (epoch d arrs k st) as [[[[o a] k1] s1]|], (epoch d arrs k st') as [[[[o' a'] k1'] s1']|];
      try contradiction; simpl; auto.
    destruct IH as [E Ha]. inversion E; subst.
    pose proof (xlocal_frame G B g o' Hg [] s1 s1' Ha) as Hx. unfold rel_res in Hx.
    destruct (xlocal B g [] o' s1) as [[o2 s2]|], (xlocal B g [] o' s1') as [[o2' s2']|];
      try contradiction; simpl; auto.
    destruct Hx as [<- ?]. auto.
  - apply IH; assumption.
  - assert (Hg : In g G) by (apply HG; left; reflexivity).
    assert (HG' : incl (rngs_of d) G) by (intros x Hx; apply HG; right; assumption).
    pose proof (take_draw_frame G st st' g H Hg) as Ht. unfold rel_res in Ht.
    destruct (take_draw st g) as [[dr st1]|], (take_draw st' g) as [[dr' st1']|]; try contradiction; simpl; auto.
    destruct Ht as [<- Ha]. destruct dr; simpl; auto.
    specialize (IH HG' arrs k st1 st1' Ha). unfold rel_res in IH.
    destruct (epoch d arrs k st1) as [[[[o a] k1] s1]|], (epoch d arrs k st1') as [[[[o' a'] k1'] s1']|];
      try contradiction; simpl; auto.
    destruct IH as [E Ha2]. inversion E; subst.
    destruct (length sigma =? length o'); simpl; auto.
Qed.

Lemma epoch_other d : forall arrs k st o a k1 s1,
  epoch d arrs k st = Some (o, a, k1, s1) ->
  forall g, ~ In g (rngs_of d) -> nth_error s1 g = nth_error st g.
Proof.
  induction d as [n|d IH|perm d IH|g d IH|g B d IH|d IH|g d IH]; intros arrs k st o a k1 s1; simpl.
  - intros H; inversion H; subst. reflexivity.
  - apply IH.
  - destruct (epoch d arrs k st) as [[[[o0 a0] k0] s0]|] eqn:E; [|discriminate].
    intros H; inversion H; subst. eapply IH; eassumption.
  - destruct (take_draw st g) as [[dr st1]|] eqn:E; [|discriminate].
    destruct dr; [|discriminate]. destruct (length sigma =? length (nth k arrs [])); [|discriminate].
    destruct (epoch d _ (S k) st1) as [[[[o0 a0] k0] s0]|] eqn:E2; [|discriminate].
    intros H; inversion H; subst. intros g' Hg'.
    rewrite (IH _ _ _ _ _ _ _ E2) by tauto. eapply take_draw_other; [eassumption|]. intros ->. tauto.
  - destruct (epoch d arrs k st) as [[[[o0 a0] k0] s0]|] eqn:E; [|discriminate].
    destruct (xlocal B g [] o0 s0) as [[o2 s2]|] eqn:E2; [|discriminate].
    intros H; inversion H; subst. intros g' Hg'.
    assert (Hne : g' <> g) by (intros ->; tauto).
    rewrite (xlocal_other B g o0 g' Hne _ _ _ _ E2).
    eapply IH; [eassumption|tauto].
  - apply IH.
  - destruct (take_draw st g) as [[dr st1]|] eqn:E; [|discriminate].
    destruct dr; [|discriminate].
    destruct (epoch d arrs k st1) as [[[[o0 a0] k0] s0]|] eqn:E2; [|discriminate].
    destruct (length sigma =? length o0); [|discriminate].
    intros H; inversion H; subst. intros g' Hg'.
    rewrite (IH _ _ _ _ _ _ _ E2) by tauto. eapply take_draw_other; [eassumption|]. intros ->. tauto.
Qed.

(* 4a, without the (unneeded) length hypothesis *)
Theorem epoch_frame_strong d arrs k st st' :
  (forall g, In g (rngs_of d) -> nth_error st g = nth_error st' g) ->
  match epoch d arrs k st, epoch d arrs k st' with
  | Some (o, a, k1, s1), Some (o', a', k1', s1') =>
      o = o' /\ a = a' /\ k1 = k1' /\
      (forall g, In g (rngs_of d) -> nth_error s1 g = nth_error s1' g) /\
      (forall g, ~ In g (rngs_of d) -> nth_error s1 g = nth_error st g /\ nth_error s1' g = nth_error st' g)
  | None, None => True
  | _, _ => False
  end.
Proof.
  intros H. pose proof (epoch_agree (rngs_of d) d (incl_refl _) arrs k st st' H) as Hr. unfold rel_res in Hr.
  destruct (epoch d arrs k st) as [[[[o a] k1] s1]|] eqn:E1, (epoch d arrs k st') as [[[[o' a'] k1'] s1']|] eqn:E2;
    try contradiction; auto.
  destruct Hr as [E Ha]. inversion E; subst. repeat split; auto.
  - eapply epoch_other; eassumption.
  - eapply epoch_other; eassumption.
Qed.

Theorem epoch_frame d arrs k st st' :
  (forall g, In g (rngs_of d) -> nth_error st g = nth_error st' g) ->
  length st = length st' ->
  match epoch d arrs k st, epoch d arrs k st' with
  | Some (o, a, k1, s1), Some (o', a', k1', s1') =>
      o = o' /\ a = a' /\ k1 = k1' /\
      (forall g, In g (rngs_of d) -> nth_error s1 g = nth_error s1' g) /\
      (forall g, ~ In g (rngs_of d) -> nth_error s1 g = nth_error st g /\ nth_error s1' g = nth_error st' g)
  | None, None => True
  | _, _ => False
  end.
Proof. intros H _. apply epoch_frame_strong. assumption. Qed.

(* an epoch keeps the number of generators *)
Lemma take_draw_length st g x st1 : take_draw st g = Some (x, st1) -> length st1 = length st.
Proof.
  unfold take_draw. destruct (nth_error st g) as [[|y r]|]; try discriminate.
  intros H; inversion H; subst. apply upd_length.
Qed.

(* lifted to several epochs *)
Theorem epochs_frame d m : forall arrs st st',
  (forall g, In g (rngs_of d) -> nth_error st g = nth_error st' g) ->
  match epochs d arrs st m, epochs d arrs st' m with
  | Some (os, s1), Some (os', s1') =>
      os = os' /\
      (forall g, In g (rngs_of d) -> nth_error s1 g = nth_error s1' g) /\
      (forall g, ~ In g (rngs_of d) -> nth_error s1 g = nth_error st g /\ nth_error s1' g = nth_error st' g)
  | None, None => True
  | _, _ => False
  end.
Proof.
  induction m as [|m IH]; intros arrs st st' H; simpl.
  - repeat split; auto.
  - pose proof (epoch_frame_strong d arrs 0 st st' H) as He.
    destruct (epoch d arrs 0 st) as [[[[o a] k1] s1]|], (epoch d arrs 0 st') as [[[[o' a'] k1'] s1']|];
      try contradiction; auto.
    destruct He as (<- & <- & <- & Hin & Hout).
    specialize (IH a s1 s1' Hin).
    destruct (epochs d a s1 m) as [[os s2]|], (epochs d a s1' m) as [[os' s2']|]; try contradiction; auto.
    destruct IH as (<- & Hin2 & Hout2). repeat split; auto.
    + rewrite (proj1 (Hout2 g H0)). apply Hout. assumption.
    + rewrite (proj2 (Hout2 g H0)). apply Hout. assumption.
Qed.

(* 4b *)
Lemma copy_fixed_same d : copy_fixed d = d.
Proof. reflexivity. Qed.

Corollary global_state_irrelevant d arrs st st' m :
  ~ In 0 (rngs_of d) ->
  (forall g, g <> 0 -> nth_error st g = nth_error st' g) ->
  length st = length st' ->
  option_map fst (epochs d arrs st m) = option_map fst (epochs d arrs st' m).
Proof.
  intros H0 H _.
  assert (Ha : forall g, In g (rngs_of d) -> nth_error st g = nth_error st' g).
  { intros g Hg. apply H. intros ->. contradiction. }
  pose proof (epochs_frame d m arrs st st' Ha) as He.
  destruct (epochs d arrs st m) as [[os s1]|], (epochs d arrs st' m) as [[os' s1']|]; try contradiction; simpl; auto.
  destruct He as [-> _]. reflexivity.
Qed.

(* the copy made by the repaired code behaves like the original for equal own streams, whatever the global state *)
Corollary copy_fixed_global_irrelevant d arrs st st' m :
  ~ In 0 (rngs_of d) ->
  (forall g, g <> 0 -> nth_error st g = nth_error st' g) ->
  option_map fst (epochs (copy_fixed d) arrs st m) = option_map fst (epochs d arrs st' m).
Proof.
  intros H0 H. rewrite copy_fixed_same.
  assert (Ha : forall g, In g (rngs_of d) -> nth_error st g = nth_error st' g).
  { intros g Hg. apply H. intros ->. contradiction. }
  pose proof (epochs_frame d m arrs st st' Ha) as He.
  destruct (epochs d arrs st m) as [[os s1]|], (epochs d arrs st' m) as [[os' s1']|]; try contradiction; simpl; auto.
  destruct He as [-> _]. reflexivity.
Qed.

(* 4c: the pre-fix defect: the pinned copy draws from the global generator *)
Example copy_pinned_depends_on_global :
  exists d st st' a,
    ~ In 0 (rngs_of d) /\
    (forall g, g <> 0 -> nth_error st g = nth_error st' g) /\
    option_map fst (epochs (copy_pinned d) a st 1) <> option_map fst (epochs (copy_pinned d) a st' 1).
Proof.
  exists (XReShuffle 1 (XSrc 2)), [[DShuffle [0;1]]; []], [[DShuffle [1;0]]; []], [[0;1]].
  split; [|split].
  - simpl. intros [H|[]]. discriminate.
  - intros [|[|g]] Hg; try reflexivity. contradiction.
  - vm_compute. discriminate.
Qed.

(* 4d *)
Theorem shuffle_once_constant perm d arrs k st :
  (forall a k s, epoch d a k s = Some (seq 0 (len_of d), a, k, s)) ->
  epoch (XShuffleOnce perm d) arrs k st = Some (map (fun i => nth i (seq 0 (len_of d)) 0) perm, arrs, k, st).
Proof. intros H. simpl. rewrite H. reflexivity. Qed.

Corollary shuffle_once_src_constant perm n arrs k st :
  epoch (XShuffleOnce perm (XSrc n)) arrs k st = Some (map (fun i => nth i (seq 0 n) 0) perm, arrs, k, st).
Proof. apply (shuffle_once_constant perm (XSrc n)). reflexivity. Qed.

Corollary shuffle_once_src_epochs perm n m : forall arrs st,
  epochs (XShuffleOnce perm (XSrc n)) arrs st m = Some (repeat (map (fun i => nth i (seq 0 n) 0) perm) m, st).
Proof.
  induction m as [|m IH]; intros arrs st; [reflexivity|].
  cbn [epochs]. rewrite shuffle_once_src_constant, IH. reflexivity.
Qed.

(* each epoch of a lazily applied reshuffle over a deterministic source is exactly the drawn permutation *)
Theorem apply_epoch_is_draw g n sigma st st1 arrs k :
  take_draw st g = Some (DShuffle sigma, st1) -> length sigma = n ->
  epoch (XApply g (XSrc n)) arrs k st = Some (map (fun i => nth i (seq 0 n) 0) sigma, arrs, k, st1).
Proof.
  intros Ht Hl. cbn [epoch]. rewrite Ht, seq_length, Hl, Nat.eqb_refl. reflexivity.
Qed.

(* the frozen copy of a lazily applied reshuffle is a one-time shuffle: constant in every epoch, consumes no draw *)
Corollary apply_frozen_constant perm n m arrs st :
  epochs (XShuffleOnce perm (XSrc n)) arrs st m = Some (repeat (map (fun i => nth i (seq 0 n) 0) perm) m, st).
Proof. exact (shuffle_once_src_epochs perm n m arrs st). Qed.

(* ================================================================ Part 2 *)
Section Part2.
  Context {A : Type}.

  Lemma remove_at_length (l : list A) c : c < length l -> S (length (remove_at l c)) = length l.
  Proof.
    revert c; induction l as [|x l IH]; destruct c; simpl; intros H; try lia.
    rewrite IH by lia. reflexivity.
  Qed.

  (* 2a: with enough in-range choices nothing is lost or duplicated *)
  Theorem local_stream_perm B : forall (xs buf : list A) choices o b,
    local_stream B buf choices xs = (o, b) ->
    length choices >= length xs -> Forall (fun c => c < B) choices -> length buf < B -> 1 <= B ->
    Permutation (o ++ b) (buf ++ xs) /\ length b < B.
  Proof.
    induction xs as [|x r IH]; intros buf choices o b H Hc Hr Hb HB; simpl in H.
    - inversion H; subst. simpl. rewrite app_nil_r. split; [reflexivity|assumption].
    - assert (Hl : length (buf ++ [x]) = S (length buf)) by (rewrite app_length; simpl; lia).
      destruct (B <=? length (buf ++ [x])) eqn:E.
      + apply Nat.leb_le in E.
        destruct choices as [|c cs]; [simpl in Hc; lia|].
        inversion Hr; subst.
        destruct (nth_error (buf ++ [x]) c) as [y|] eqn:Ey; [|apply nth_error_None in Ey; lia].
        destruct (local_stream B (remove_at (buf ++ [x]) c) cs r) as [o' b'] eqn:E2.
        inversion H; subst.
        assert (Hcl : c < length (buf ++ [x])) by lia.
        pose proof (remove_at_length _ _ Hcl) as Hrl.
        destruct (IH _ _ _ _ E2) as [P Hlb]; try assumption; [simpl in Hc; lia|lia|].
        split; [|assumption]. simpl.
        etransitivity; [apply perm_skip, P|].
        change (Permutation ((y :: remove_at (buf ++ [x]) c) ++ r) (buf ++ x :: r)).
        replace (buf ++ x :: r) with ((buf ++ [x]) ++ r) by (rewrite <- app_assoc; reflexivity).
        apply Permutation_app_tail. apply remove_at_perm. assumption.
      + apply Nat.leb_gt in E.
        destruct (IH _ _ _ _ H) as [P Hlb]; try assumption; [simpl in Hc; lia|].
        split; [|assumption]. rewrite P, <- app_assoc. reflexivity.
  Qed.

  (* 2b *)
  Theorem local_shuffle_perm B choices sigma (xs : list A) d :
    1 <= B -> length choices >= length xs -> Forall (fun c => c < B) choices ->
    is_perm (length (snd (local_stream B [] choices xs))) sigma ->
    Permutation (local_shuffle B choices sigma xs d) xs.
  Proof.
    intros HB Hc Hr Hs. unfold local_shuffle.
    destruct (local_stream B [] choices xs) as [o b] eqn:E. simpl in Hs.
    destruct (local_stream_perm B xs [] choices o b E) as [P _]; try assumption.
    simpl in P. etransitivity; [|exact P]. apply Permutation_app_head. apply map_nth_perm. assumption.
  Qed.
End Part2.

(* 2c *)
Lemma local_stream_disp B : forall m a buf choices o b,
  local_stream B buf choices (seq a m) = (o, b) ->
  Forall (fun x => x < a) buf -> length buf < B ->
  (forall k j, nth_error o k = Some j -> j + length buf + 1 <= a + k + B) /\
  Forall (fun x => x < a + m) b.
Proof.
  induction m as [|m IH]; intros a buf choices o b H Hbuf Hb; simpl in H.
  - inversion H; subst. split.
    + intros [|k] j Hj; discriminate.
    + rewrite Nat.add_0_r. assumption.
  - assert (Hl : length (buf ++ [a]) = S (length buf)) by (rewrite app_length; simpl; lia).
    assert (Hbuf' : Forall (fun x => x < S a) (buf ++ [a])).
    { apply Forall_app. split.
      - eapply Forall_impl; [|exact Hbuf]. simpl. intros; lia.
      - repeat constructor. }
    assert (Hstuck : (forall k j, nth_error (@nil nat) k = Some j -> j + length buf + 1 <= a + k + B) /\
                     Forall (fun x => x < a + S m) (buf ++ [a])).
    { split; [intros [|k] j Hj; discriminate|].
      eapply Forall_impl; [|exact Hbuf']. simpl. intros; lia. }
    destruct (B <=? length (buf ++ [a])) eqn:E.
    + apply Nat.leb_le in E.
      destruct choices as [|c cs]; [inversion H; subst; exact Hstuck|].
      destruct (nth_error (buf ++ [a]) c) as [y|] eqn:Ey; [|inversion H; subst; exact Hstuck].
      destruct (local_stream B (remove_at (buf ++ [a]) c) cs (seq (S a) m)) as [o' b'] eqn:E2.
      inversion H; subst.
      assert (Hcl : c < length (buf ++ [a])) by (apply nth_error_Some; congruence).
      pose proof (remove_at_length _ _ Hcl) as Hrl.
      destruct (IH _ _ _ _ _ E2) as [Ho Hfb].
      * apply Forall_forall. intros z Hz. apply remove_at_in in Hz.
        rewrite Forall_forall in Hbuf'. apply Hbuf'. assumption.
      * lia.
      * split.
        -- intros [|k] j Hj; simpl in Hj.
           ++ inversion Hj; subst. apply nth_error_In in Ey.
              rewrite Forall_forall in Hbuf'. specialize (Hbuf' _ Ey). simpl in Hbuf'. lia.
           ++ specialize (Ho _ _ Hj). lia.
        -- eapply Forall_impl; [|exact Hfb]. simpl. intros; lia.
    + apply Nat.leb_gt in E.
      destruct (IH _ _ _ _ _ H Hbuf') as [Ho Hfb]; [lia|].
      split.
      * intros k j Hj. specialize (Ho _ _ Hj). lia.
      * eapply Forall_impl; [|exact Hfb]. simpl. intros; lia.
Qed.

Theorem local_shuffle_displacement B choices sigma n :
  1 <= B -> length choices >= n -> Forall (fun c => c < B) choices ->
  is_perm (length (snd (local_stream B [] choices (seq 0 n)))) sigma ->
  forall i j, nth_error (local_shuffle B choices sigma (seq 0 n) 0) i = Some j -> j <= i + B - 1.
Proof.
  intros HB Hc Hr Hs i j. unfold local_shuffle.
  destruct (local_stream B [] choices (seq 0 n)) as [o b] eqn:E. simpl in Hs.
  destruct (local_stream_perm B (seq 0 n) [] choices o b E) as [P Hlb];
    try assumption; try (rewrite seq_length; lia).
  destruct (local_stream_disp B n 0 [] choices o b E) as [Ho Hfb]; [constructor|simpl; lia|].
  apply Permutation_length in P. rewrite app_length in P. simpl in P. rewrite seq_length in P.
  intros Hij. destruct (Nat.lt_ge_cases i (length o)) as [Hlt|Hge].
  - rewrite nth_error_app1 in Hij by assumption. specialize (Ho _ _ Hij). simpl in Ho. lia.
  - rewrite nth_error_app2 in Hij by assumption.
    apply nth_error_In in Hij. apply in_map_iff in Hij. destruct Hij as [t [Ht _]].
    destruct (nth_in_or_default t b 0) as [Hin|Hd].
    + rewrite Forall_forall in Hfb. specialize (Hfb _ Hin). rewrite Ht in Hfb. simpl in Hfb. lia.
    + lia.
Qed.

(* the streaming phase alone does not even need the hypotheses on the choices *)
Corollary local_stream_displacement B choices n o b :
  1 <= B -> local_stream B [] choices (seq 0 n) = (o, b) ->
  forall i j, nth_error o i = Some j -> j <= i + B - 1.
Proof.
  intros HB E i j Hij.
  destruct (local_stream_disp B n 0 [] choices o b E) as [Ho _]; [constructor|simpl; lia|].
  specialize (Ho _ _ Hij). simpl in Ho. lia.
Qed.

(* ================================================================ assumptions *)
Print Assumptions select_perm.
Print Assumptions select_nodup_sub.
Print Assumptions tile_shuffle_perm.
Print Assumptions apply_perm_is_perm.
Print Assumptions arr_always_perm.
Print Assumptions reshuffle_single_iter.
Print Assumptions reshuffle_solo.
Print Assumptions reshuffle_interleaved_refuted.
Print Assumptions local_stream_perm.
Print Assumptions local_shuffle_perm.
Print Assumptions local_shuffle_displacement.
Print Assumptions local_stream_displacement.
Print Assumptions epoch_frame_strong.
Print Assumptions epoch_frame.
Print Assumptions epochs_frame.
Print Assumptions copy_fixed_same.
Print Assumptions global_state_irrelevant.
Print Assumptions copy_fixed_global_irrelevant.
Print Assumptions copy_pinned_depends_on_global.
Print Assumptions shuffle_once_constant.
Print Assumptions shuffle_once_src_constant.
Print Assumptions shuffle_once_src_epochs.
Print Assumptions apply_epoch_is_draw.
Print Assumptions apply_frozen_constant.
