(* SplitProofs.v - np.array_split / Dataset.split / Dataset.shard: the shards partition the index
   range (disjoint, covering, order preserving, sizes differ by at most one), split refuses exactly
   when sections < 1 or sections > len, the shards of an indexable dataset reassemble to it, and
   shard(k, i) is split(k)[i].  Standard library only; no axioms. *)
From Coq Require Import String.
From Coq Require Import List Arith ZArith Bool Lia ZifyBool ZifyNat.
Require Import LD.Base LD.PySlice LD.Pipeline LD.Build LD.BuildExtra LD.Ref LD.RefTheorem.
Import ListNotations.
Local Open Scope nat_scope.   (* statements are in nat scope; Z parts are marked %Z *)

Fixpoint sum (l : list nat) : nat := match l with [] => 0 | x :: t => x + sum t end.

(* ------------------------------------------------------------------ list lemmas *)
Lemma sum_app l m : sum (l ++ m) = sum l + sum m.
Proof. induction l; simpl; lia. Qed.

Lemma sum_repeat a m : sum (repeat a m) = m * a.
Proof. induction m; simpl; lia. Qed.

Lemma take_chunks_length {A} (sizes : list nat) (l : list A) : length (take_chunks sizes l) = length sizes.
Proof. revert l. induction sizes as [|s r IH]; simpl; intros l; [reflexivity|]. now rewrite IH. Qed.

Lemma take_chunks_concat {A} (sizes : list nat) (l : list A) :
  sum sizes = length l -> concat (take_chunks sizes l) = l.
Proof.
  revert l. induction sizes as [|s r IH]; simpl; intros l H.
  - destruct l; simpl in *; [reflexivity|discriminate].
  - rewrite IH; [apply firstn_skipn|]. rewrite skipn_length. lia.
Qed.

Lemma take_chunks_lengths {A} (sizes : list nat) (l : list A) :
  sum sizes = length l -> map (@length A) (take_chunks sizes l) = sizes.
Proof.
  revert l. induction sizes as [|s r IH]; simpl; intros l H; [reflexivity|].
  f_equal.
  - rewrite firstn_length. lia.
  - apply IH. rewrite skipn_length. lia.
Qed.

(* ------------------------------------------------------------------ split_sizes *)
Lemma divmod_facts n k : 1 <= k -> n = k * (n / k) + n mod k /\ n mod k < k.
Proof.
  intros Hk. split.
  - apply Nat.div_mod. lia.
  - apply Nat.mod_upper_bound. lia.
Qed.

Lemma split_sizes_sum n k : 1 <= k -> sum (split_sizes n k) = n.
Proof.
  intros Hk. unfold split_sizes. rewrite sum_app, !sum_repeat.
  destruct (divmod_facts n k Hk) as [H1 H2].
  set (q := n / k) in *. set (r := n mod k) in *.
  rewrite Nat.mul_sub_distr_r.
  assert (r * q <= k * q) by (apply Nat.mul_le_mono_r; lia).
  lia.
Qed.

Lemma split_sizes_length n k : 1 <= k -> length (split_sizes n k) = k.
Proof.
  intros Hk. unfold split_sizes. rewrite app_length, !repeat_length.
  destruct (divmod_facts n k Hk) as [_ H2]. lia.
Qed.

Lemma split_sizes_values n k : 1 <= k ->
  Forall (fun s => s = n / k \/ s = S (n / k)) (split_sizes n k).
Proof.
  intros _. unfold split_sizes. apply Forall_forall. intros s Hs.
  apply in_app_or in Hs. destruct Hs as [Hs|Hs]; apply repeat_spec in Hs; auto.
Qed.

(* ------------------------------------------------------------------ array_split *)
Lemma array_split_lengths n k : 1 <= k -> map (@length nat) (array_split n k) = split_sizes n k.
Proof.
  intros Hk. unfold array_split. apply take_chunks_lengths.
  rewrite seq_length. now apply split_sizes_sum.
Qed.

(* np.array_split(np.arange(n), k): exactly k shards, pairwise disjoint and covering (their
   concatenation in index order IS 0..n-1), sizes differ by at most one *)
Theorem array_split_partition n k : 1 <= k ->
  concat (array_split n k) = seq 0 n /\ length (array_split n k) = k /\
  (forall a b, In a (map (@length nat) (array_split n k)) ->
               In b (map (@length nat) (array_split n k)) -> a <= b + 1).
Proof.
  intros Hk. split; [|split].
  - unfold array_split. apply take_chunks_concat. rewrite seq_length. now apply split_sizes_sum.
  - unfold array_split. rewrite take_chunks_length. now apply split_sizes_length.
  - rewrite array_split_lengths by assumption. intros a b Ha Hb.
    pose proof (split_sizes_values n k Hk) as HF. rewrite Forall_forall in HF.
    apply HF in Ha. apply HF in Hb. lia.
Qed.

Lemma NoDup_app_disjoint {A} (a b : list A) x : NoDup (a ++ b) -> In x a -> In x b -> False.
Proof.
  induction a as [|y a IH]; simpl; intros HN Ha Hb; [contradiction|].
  inversion HN as [|? ? Hnin HN']; subst.
  destruct Ha as [->|Ha].
  - apply Hnin. apply in_or_app. now right.
  - now apply IH.
Qed.

Lemma NoDup_app_tail {A} (a b : list A) : NoDup (a ++ b) -> NoDup b.
Proof.
  induction a as [|y a IH]; simpl; intros HN; [assumption|].
  inversion HN; subst. auto.
Qed.

Lemma concat_NoDup_unique {A} (ll : list (list A)) (x : A) j1 j2 :
  NoDup (concat ll) -> j1 < length ll -> j2 < length ll ->
  In x (nth j1 ll []) -> In x (nth j2 ll []) -> j1 = j2.
Proof.
  revert j1 j2. induction ll as [|a ll IH]; simpl; intros j1 j2 HN H1 H2 I1 I2; [lia|].
  assert (Hc : forall j, j < length ll -> In x (nth j ll []) -> In x (concat ll)).
  { intros j Hj Hi. apply in_concat. exists (nth j ll []). split; [now apply nth_In|assumption]. }
  destruct j1 as [|j1], j2 as [|j2]; [reflexivity| | |].
  - exfalso. apply (NoDup_app_disjoint a (concat ll) x HN I1). apply (Hc j2); [lia|assumption].
  - exfalso. apply (NoDup_app_disjoint a (concat ll) x HN I2). apply (Hc j1); [lia|assumption].
  - f_equal. apply IH; try assumption; try lia. now apply NoDup_app_tail in HN.
Qed.

(* every position lies in exactly one shard *)
Corollary array_split_exactly_once n k i : 1 <= k -> i < n ->
  exists! j, j < k /\ In i (nth j (array_split n k) []).
Proof.
  intros Hk Hi. destruct (array_split_partition n k Hk) as (Hc & Hl & _).
  assert (Hin : In i (concat (array_split n k))) by (rewrite Hc; apply in_seq; lia).
  apply in_concat in Hin. destruct Hin as (l & Hl1 & Hl2).
  destruct (In_nth _ _ [] Hl1) as (j & Hj & Hnth).
  exists j. split.
  - split; [lia|]. now rewrite Hnth.
  - intros j' [Hj' Hi']. apply (concat_NoDup_unique (array_split n k) i); try lia.
    + rewrite Hc. apply seq_NoDup.
    + now rewrite Hnth.
    + assumption.
Qed.

(* ------------------------------------------------------------------ Dataset.split argument check *)
Theorem split_refuses n k : (k < 1 \/ Z.of_nat n < k)%Z -> split_indices n k = Err (lib EValue).
Proof.
  intros H. unfold split_indices.
  destruct (Z.ltb_spec k 1); [reflexivity|].
  destruct (Z.ltb_spec (Z.of_nat n) k); [reflexivity|]. lia.
Qed.

Theorem split_accepts n k : (1 <= k <= Z.of_nat n)%Z -> split_indices n k = Ok (array_split n (Z.to_nat k)).
Proof.
  intros H. unfold split_indices.
  destruct (Z.ltb_spec k 1); [lia|].
  destruct (Z.ltb_spec (Z.of_nat n) k); [lia|]. reflexivity.
Qed.

(* ------------------------------------------------------------------ selecting windows *)
Lemma firstn_app_exact {A} (l1 l2 : list A) s : length l1 = s -> firstn s (l1 ++ l2) = l1.
Proof. intros <-. induction l1; simpl; [reflexivity|]. now f_equal. Qed.

Lemma skipn_app_exact {A} (l1 l2 : list A) s : length l1 = s -> skipn s (l1 ++ l2) = l2.
Proof. intros <-. induction l1; simpl; auto. Qed.

Lemma skipn_cons_nth {A} (t : list A) a : a < length t ->
  exists x, nth_error t a = Some x /\ skipn a t = x :: skipn (S a) t.
Proof.
  revert a. induction t as [|y t IH]; simpl; intros a Ha; [lia|].
  destruct a as [|a]; simpl.
  - exists y. split; reflexivity.
  - apply IH. lia.
Qed.

Lemma skipn_add {A} (t : list A) a s : skipn s (skipn a t) = skipn (a + s) t.
Proof.
  revert t. induction a as [|a IH]; simpl; intros t; [reflexivity|].
  destruct t as [|y t]; [now rewrite skipn_nil|]. apply IH.
Qed.

Lemma select_cons {A} j idx (t : list A) x r :
  nth_error t j = Some x -> select idx t = Some r -> select (j :: idx) t = Some (x :: r).
Proof. intros H1 H2. unfold select in *. simpl. rewrite H1. simpl. rewrite H2. reflexivity. Qed.

(* select (seq a s) t is the window t[a : a+s] *)
Lemma select_seq {A} (t : list A) s a : a + s <= length t ->
  select (seq a s) t = Some (firstn s (skipn a t)).
Proof.
  revert a. induction s as [|s IH]; intros a H; [reflexivity|].
  destruct (skipn_cons_nth t a) as (x & Hx & Hs); [lia|].
  rewrite Hs. simpl. apply select_cons; [assumption|].
  rewrite IH by lia. reflexivity.
Qed.

(* selecting the chunks of seq a (sum sizes) gives the chunks of the window starting at a *)
Lemma select_chunks {A} (t : list A) sizes a : a + sum sizes <= length t ->
  Forall2 (fun idx c => select idx t = Some c)
          (take_chunks sizes (seq a (sum sizes))) (take_chunks sizes (skipn a t)).
Proof.
  revert a. induction sizes as [|s r IH]; simpl; intros a H; [constructor|].
  rewrite seq_app.
  rewrite firstn_app_exact by apply seq_length.
  rewrite skipn_app_exact by apply seq_length.
  constructor.
  - apply select_seq. lia.
  - rewrite skipn_add. apply IH. lia.
Qed.

Lemma Forall2_omapM' {A B} (f : A -> option B) l r :
  Forall2 (fun a b => f a = Some b) l r -> omapM f l = Some r.
Proof.
  induction 1 as [|a b l r Hab _ IH]; simpl; [reflexivity|].
  rewrite Hab. simpl. rewrite IH. reflexivity.
Qed.

Lemma Forall2_impl {A B} (R R' : A -> B -> Prop) l r :
  (forall a b, R a b -> R' a b) -> Forall2 R l r -> Forall2 R' l r.
Proof. intros H. induction 1; constructor; auto. Qed.

Lemma Forall2_map_l {A B C} (g : A -> B) (R : B -> C -> Prop) l r :
  Forall2 (fun a c => R (g a) c) l r -> Forall2 R (map g l) r.
Proof. induction 1; simpl; constructor; auto. Qed.

(* ------------------------------------------------------------------ dataset level *)
Lemma split_all_ok d t k :
  wfb d = true -> tbl d = Some t -> ixok d = true -> (1 <= k <= Z.of_nat (length t))%Z ->
  split_all k d = Ok (map (fun idx => DSlice idx d) (array_split (length t) (Z.to_nat k))).
Proof.
  intros Hwf Ht Hix Hk.
  pose proof (agrees_of_tbl d t Hwf Ht) as Hag.
  unfold ixok in Hix. apply andb_true_iff in Hix. destruct Hix as [Hi Hik].
  destruct (ag_idx d t Hag Hi Hik) as [Hlen _].
  unfold split_all. rewrite Hlen. simpl.
  rewrite split_accepts by assumption. simpl.
  rewrite Hi. reflexivity.
Qed.

(* the shards of an indexable dataset reassemble to it *)
Theorem shards_reassemble d t k :
  wfb d = true -> tbl d = Some t -> ixok d = true -> (1 <= k <= Z.of_nat (length t))%Z ->
  exists shards ts,
    split_all k d = Ok shards /\ length shards = Z.to_nat k /\
    Forall2 (fun s ts => wfb s = true /\ tbl s = Some ts) shards ts /\ concat ts = t /\
    tbl (DConcat shards) = Some t.
Proof.
  intros Hwf Ht Hix Hk.
  set (n := length t). set (k' := Z.to_nat k).
  assert (Hk' : 1 <= k') by (unfold k'; lia).
  pose proof (split_sizes_sum n k' Hk') as Hsum.
  exists (map (fun idx => DSlice idx d) (array_split n k')), (take_chunks (split_sizes n k') t).
  assert (HF : Forall2 (fun s ts => wfb s = true /\ tbl s = Some ts)
                 (map (fun idx => DSlice idx d) (array_split n k')) (take_chunks (split_sizes n k') t)).
  { apply Forall2_map_l. unfold array_split.
    pose proof (select_chunks t (split_sizes n k') 0) as HS.
    rewrite Hsum in HS. simpl in HS. specialize (HS (le_n _)).
    eapply Forall2_impl; [|exact HS].
    intros idx c Hsel. simpl. split; [assumption|].
    rewrite Hix, Ht. simpl. exact Hsel. }
  assert (Hcat : concat (take_chunks (split_sizes n k') t) = t)
    by (apply take_chunks_concat; exact Hsum).
  split; [|split; [|split; [|split]]].
  - apply split_all_ok; assumption.
  - rewrite map_length. apply (array_split_partition n k' Hk').
  - exact HF.
  - exact Hcat.
  - change (tbl (DConcat ?l)) with (option_map (@concat _) (omapM tbl l)).
    rewrite (Forall2_omapM' tbl _ (take_chunks (split_sizes n k') t)).
    + simpl. now rewrite Hcat.
    + eapply Forall2_impl; [|exact HF]. intros a b [_ H]. exact H.
Qed.

Lemma py_nth_map' {A B} (f : A -> B) l i :
  py_nth (map f l) i = (do a <- py_nth l i; Ok (f a)).
Proof.
  unfold py_nth. rewrite map_length.
  destruct ((if (i <? 0)%Z then (i + Z.of_nat (length l))%Z else i) <? 0)%Z; [reflexivity|].
  destruct (Z.of_nat (length l) <=? (if (i <? 0)%Z then (i + Z.of_nat (length l))%Z else i))%Z; [reflexivity|].
  simpl. rewrite nth_error_map. now destruct (nth_error l _).
Qed.

(* shard(k, i) is split(k)[i] - literally, including which exception is raised *)
Theorem shard_is_split_nth p d k i :
  build p = Ok d -> build (PShard k i p) = (do shards <- split_all k d; py_nth shards i).
Proof.
  intros Hb. simpl. rewrite Hb. simpl. unfold split_all.
  destruct (len_ d) as [n|e]; simpl; [|reflexivity].
  destruct (split_indices n k) as [parts|e]; simpl; [|reflexivity].
  destruct (indexable d); simpl; [|reflexivity].
  rewrite py_nth_map'. reflexivity.
Qed.

Print Assumptions take_chunks_concat.
Print Assumptions take_chunks_lengths.
Print Assumptions split_sizes_sum.
Print Assumptions split_sizes_length.
Print Assumptions split_sizes_values.
Print Assumptions array_split_partition.
Print Assumptions array_split_exactly_once.
Print Assumptions split_refuses.
Print Assumptions split_accepts.
Print Assumptions shards_reassemble.
Print Assumptions shard_is_split_nth.
