(* TraceInter.v - Model B: intersperse of k lazy pipelines, with events.
   IntersperseDataset.__iter__ opens one iterator per input and walks the order table (Build.intersperse_order: the
   positions (i+1)/len sorted exactly, ties to the earlier input): each next() pulls exactly ONE element from the input the
   table names - nothing is read ahead from any input, and after the last element no input is asked again.
   `inter_segs` is defined on the streams (Trace.iter_s) of the inputs, so every stage class of Model B may sit below.
   Definitions only; proofs in TraceInterProofs.v. *)
From Coq Require Import List Arith Bool.
Require Import LD.Base LD.Build LD.Trace LD.TraceTie.
Import ListNotations.
Local Open Scope nat_scope.

(* take the next segment of input `di`: (that segment, the inputs with it removed) *)
Fixpoint take_from (di : nat) (ins : list (list seg)) : option (seg * list (list seg)) :=
  match ins, di with
  | [], _ => None
  | l :: r, O => match l with s :: l' => Some (s, l' :: r) | [] => None end
  | l :: r, S d => match take_from d r with Some (s, r') => Some (s, l :: r') | None => None end
  end.

Fixpoint inter_segs (id : nat) (order : list nat) (ins : list (list seg)) : list seg :=
  match order with
  | [] => []
  | di :: r => match take_from di ins with
               | Some (s, ins') => tag_fetch id s :: inter_segs id r ins'
               | None => []
               end
  end.

Definition inter_order (ds : list lds) : list nat := map fst (intersperse_order (map (fun d => length (lref d)) ds)).

(* the stream of intersperse(ds): the merged segments; no trailing events *)
Definition inter_s (id : nat) (ds : list lds) : stream :=
  (inter_segs id (inter_order ds) (map (fun d => fst (iter_s d)) ds), []).

(* eager reference: merge of the reference lists by the same table *)
Fixpoint take_val (di : nat) (ins : list (list val)) : option (val * list (list val)) :=
  match ins, di with
  | [], _ => None
  | l :: r, O => match l with v :: l' => Some (v, l' :: r) | [] => None end
  | l :: r, S d => match take_val d r with Some (v, r') => Some (v, l :: r') | None => None end
  end.
Fixpoint inter_vals (order : list nat) (ins : list (list val)) : list val :=
  match order with
  | [] => []
  | di :: r => match take_val di ins with Some (v, ins') => v :: inter_vals r ins' | None => [] end
  end.
Definition inter_ref (ds : list lds) : list val := inter_vals (inter_order ds) (map lref ds).

(* how many of the first k table entries name input di *)
Definition count_upto (di k : nat) (order : list nat) : nat := count_occ Nat.eq_dec (firstn k order) di.

(* ---- correspondence ---- *)
Definition inter_obs (id : nat) (ds : list lds) : list (list (nat * val) * val) * list (nat * val) :=
  let s := inter_s id ds in (map (fun sg => (apps (fst sg), snd sg)) (fst s), apps (snd s)).
Record ncase := mkNC { n_id : nat; n_ds : list lds; n_iter : list (list (nat * val) * val) * list (nat * val) }.
Definition ncase_ok (c : ncase) : bool := iter_obs_eqb (inter_obs (n_id c) (n_ds c)) (n_iter c).
Fixpoint nbad (j : nat) (cs : list ncase) : list nat :=
  match cs with [] => [] | c :: r => if ncase_ok c then nbad (S j) r else j :: nbad (S j) r end.
