From Coq Require Import List Arith Bool Lia.
Require Import LD.Base LD.Build LD.Trace LD.TraceTie LD.TraceProofs LD.TraceInter.
Import ListNotations.
Local Open Scope nat_scope.
From Coq Require Import ZArith.
Local Open Scope nat_scope.

(* TraceInterProofs.v - proofs about the intersperse of lazy pipelines (TraceInter.v):
   1. values: the merged stream delivers exactly the merged reference;
   2. demand: walking the order table removes from input di exactly as many segments as the table names di;
   3. events: the j-th result is the next unconsumed segment of the input named at position j, plus one Fetch;
   4. a concrete example. *)

(* ------------------------------------------------------------------------------------------------ *)
(* 1. values *)

Lemma take_from_val di ins :
  take_val di (map (map snd) ins) =
  match take_from di ins with
  | Some (s, ins') => Some (snd s, map (map snd) ins')
  | None => None
  end.
Proof.
  revert di. induction ins as [|l r IH]; intros di.
  - destruct di; reflexivity.
  - destruct di as [|d]; cbn [map take_val take_from].
    + destruct l as [|s l']; reflexivity.
    + rewrite IH. destruct (take_from d r) as [[s r']|]; reflexivity.
Qed.

Theorem inter_segs_values : forall id order ins,
  map snd (inter_segs id order ins) = inter_vals order (map (map snd) ins).
Proof.
  intros id order. induction order as [|di r IH]; intros ins; simpl; auto.
  rewrite take_from_val. destruct (take_from di ins) as [[s ins']|]; simpl; auto.
  now rewrite IH.
Qed.

Theorem inter_values_ref : forall id ds, Forall lwf ds -> values (inter_s id ds) = inter_ref ds.
Proof.
  intros id ds W. unfold values, inter_s, inter_ref. simpl.
  rewrite inter_segs_values. f_equal. rewrite map_map.
  induction W as [|d r Hd Hr IH]; simpl; auto.
  rewrite IH. f_equal. exact (values_ref d Hd).
Qed.

(* ------------------------------------------------------------------------------------------------ *)
(* 2. demand *)

(* the inputs that remain after walking the table *)
Fixpoint consumed (order : list nat) (ins : list (list seg)) : list (list seg) :=
  match order with
  | [] => ins
  | di :: r => match take_from di ins with
               | Some (_, ins') => consumed r ins'
               | None => ins
               end
  end.

(* take_from, characterised through nth_error *)
Lemma take_from_some di ins s l :
  nth_error ins di = Some (s :: l) ->
  exists ins', take_from di ins = Some (s, ins') /\
               nth_error ins' di = Some l /\
               (forall d, d <> di -> nth_error ins' d = nth_error ins d) /\
               length ins' = length ins.
Proof.
  revert di. induction ins as [|x r IH]; intros di H.
  - destruct di; discriminate.
  - destruct di as [|d]; simpl in H.
    + inversion H; subst. exists (l :: r). simpl. repeat split; auto.
      intros [|d] Hd; [congruence|reflexivity].
    + destruct (IH d H) as (r' & E & Hn & Ho & Hl).
      exists (x :: r'). simpl. rewrite E. repeat split; auto.
      intros [|d'] Hd; simpl; auto.
Qed.

(* the two side conditions are inherited by the tail of the table and the remaining inputs *)
Definition enough (order : list nat) (ins : list (list seg)) : Prop :=
  forall d l', nth_error ins d = Some l' -> count_occ Nat.eq_dec order d <= length l'.
Definition named (order : list nat) (ins : list (list seg)) : Prop :=
  forall d, In d order -> d < length ins.

Lemma step_take d0 r ins :
  enough (d0 :: r) ins -> named (d0 :: r) ins ->
  exists s l0 ins', nth_error ins d0 = Some (s :: l0) /\
                    take_from d0 ins = Some (s, ins') /\
                    nth_error ins' d0 = Some l0 /\
                    (forall d, d <> d0 -> nth_error ins' d = nth_error ins d) /\
                    enough r ins' /\ named r ins'.
Proof.
  intros He Hn.
  assert (Hd : d0 < length ins) by (apply Hn; simpl; auto).
  destruct (nth_error ins d0) as [l0|] eqn:E; [|apply nth_error_None in E; lia].
  pose proof (He d0 l0 E) as Hc. rewrite count_occ_cons_eq in Hc by reflexivity.
  destruct l0 as [|s l0]; [simpl in Hc; lia|]. simpl in Hc.
  destruct (take_from_some d0 ins s l0 E) as (ins' & T & N & O & L).
  exists s, l0, ins'. repeat split; auto.
  - intros d l' Hl. destruct (Nat.eq_dec d d0) as [->|Hne].
    + rewrite N in Hl. inversion Hl; subst. lia.
    + rewrite (O d Hne) in Hl. pose proof (He d l' Hl) as Hc'.
      rewrite count_occ_cons_neq in Hc' by congruence. exact Hc'.
  - intros d Hin. rewrite L. apply Hn. simpl; auto.
Qed.

(* The third hypothesis (the bound for di alone) follows from the fourth; it is kept as in the intended statement. *)
Theorem inter_remaining : forall order ins di l,
  (forall d, In d order -> d < length ins) ->
  nth_error ins di = Some l ->
  count_occ Nat.eq_dec order di <= length l ->
  (forall d l', nth_error ins d = Some l' -> count_occ Nat.eq_dec order d <= length l') ->
  nth_error (consumed order ins) di = Some (skipn (count_occ Nat.eq_dec order di) l).
Proof.
  intros order. induction order as [|d0 r IH]; intros ins di l Hn Hl _ He.
  - simpl. exact Hl.
  - destruct (step_take d0 r ins He Hn) as (s & l0 & ins' & E & T & N & O & He' & Hn').
    simpl consumed. rewrite T.
    destruct (Nat.eq_dec d0 di) as [->|Hne].
    + rewrite count_occ_cons_eq by reflexivity.
      rewrite E in Hl. inversion Hl; subst l. simpl skipn.
      apply IH; auto.
    + rewrite count_occ_cons_neq by assumption.
      assert (Hl' : nth_error ins' di = Some l) by (rewrite O; auto).
      apply IH; auto.
Qed.

(* the form used for "after k results": the table prefix firstn k order *)
Corollary inter_remaining_upto : forall order ins k di l,
  (forall d, In d order -> d < length ins) ->
  (forall d l', nth_error ins d = Some l' -> count_occ Nat.eq_dec order d <= length l') ->
  nth_error ins di = Some l ->
  nth_error (consumed (firstn k order) ins) di = Some (skipn (count_upto di k order) l).
Proof.
  intros order ins k di l Hn He Hl. unfold count_upto.
  assert (Hc : forall d, count_occ Nat.eq_dec (firstn k order) d <= count_occ Nat.eq_dec order d).
  { intros d. rewrite <- (firstn_skipn k order) at 2. rewrite count_occ_app. lia. }
  apply inter_remaining; auto.
  - intros d Hd. apply Hn. rewrite <- (firstn_skipn k order). apply in_or_app; auto.
  - specialize (He di l Hl). specialize (Hc di). lia.
  - intros d l' Hd. specialize (He d l' Hd). specialize (Hc d). lia.
Qed.

(* ------------------------------------------------------------------------------------------------ *)
(* 3. events *)

Theorem inter_length : forall id order ins,
  (forall d l', nth_error ins d = Some l' -> count_occ Nat.eq_dec order d <= length l') ->
  (forall d, In d order -> d < length ins) ->
  length (inter_segs id order ins) = length order.
Proof.
  intros id order. induction order as [|d0 r IH]; intros ins He Hn; simpl; auto.
  destruct (step_take d0 r ins He Hn) as (s & l0 & ins' & E & T & N & O & He' & Hn').
  rewrite T. simpl. f_equal. apply IH; auto.
Qed.

Theorem inter_segment_origin : forall id order ins j di,
  (forall d l', nth_error ins d = Some l' -> count_occ Nat.eq_dec order d <= length l') ->
  (forall d, In d order -> d < length ins) ->
  nth_error order j = Some di ->
  exists l s, nth_error ins di = Some l /\
              nth_error l (count_occ Nat.eq_dec (firstn j order) di) = Some s /\
              nth_error (inter_segs id order ins) j = Some (tag_fetch id s).
Proof.
  intros id order. induction order as [|d0 r IH]; intros ins j di He Hn Hj.
  - destruct j; discriminate.
  - destruct (step_take d0 r ins He Hn) as (s0 & l0 & ins' & E & T & N & O & He' & Hn').
    simpl inter_segs. rewrite T.
    destruct j as [|j].
    + simpl in Hj. inversion Hj; subst di. exists (s0 :: l0), s0. simpl. auto.
    + simpl in Hj. destruct (IH ins' j di He' Hn' Hj) as (l & s & Hl & Hs & Hr).
      simpl firstn. simpl nth_error at 3.
      destruct (Nat.eq_dec d0 di) as [->|Hne].
      * rewrite count_occ_cons_eq by reflexivity.
        rewrite N in Hl. inversion Hl; subst l.
        exists (s0 :: l0), s. simpl. auto.
      * rewrite count_occ_cons_neq by assumption.
        exists l, s. rewrite <- (O di) by congruence. auto.
Qed.

(* consequence: the user-function applications inside the j-th result are exactly those of that one segment *)
Corollary inter_segment_apps : forall id' id order ins j di,
  (forall d l', nth_error ins d = Some l' -> count_occ Nat.eq_dec order d <= length l') ->
  (forall d, In d order -> d < length ins) ->
  nth_error order j = Some di ->
  exists l s s', nth_error ins di = Some l /\
                 nth_error l (count_upto di j order) = Some s /\
                 nth_error (inter_segs id order ins) j = Some s' /\
                 snd s' = snd s /\
                 apps_of id' (fst s') = apps_of id' (fst s).
Proof.
  intros id' id order ins j di He Hn Hj.
  destruct (inter_segment_origin id order ins j di He Hn Hj) as (l & s & Hl & Hs & Hr).
  exists l, s, (tag_fetch id s). unfold count_upto. repeat split; auto.
  unfold tag_fetch; simpl. rewrite apps_of_app. simpl. apply app_nil_r.
Qed.

(* ------------------------------------------------------------------------------------------------ *)
(* 4. example *)

Definition ex_f (v : val) : val := match v with VInt z => VInt (z + 1)%Z | _ => v end.
Definition ex_g (v : val) : val := match v with VInt z => VInt (z * 2)%Z | _ => v end.
Definition ex_ds : list lds :=
  [LMap 2 ex_f (LSrc 1 [VInt 1; VInt 2; VInt 3]%Z); LMap 4 ex_g (LSrc 3 [VInt 10; VInt 20]%Z)].

Example inter_example :
  inter_order ex_ds = [0; 1; 0; 0; 1] /\
  events_upto 1 (inter_s 9 ex_ds) = [Fetch 1; App 2 (VInt 1%Z); Fetch 2; Fetch 9] /\
  apps_of 2 (events_upto 1 (inter_s 9 ex_ds)) = [VInt 1%Z] /\
  apps_of 4 (events_upto 1 (inter_s 9 ex_ds)) = [] /\
  events_upto 2 (inter_s 9 ex_ds) =
    [Fetch 1; App 2 (VInt 1%Z); Fetch 2; Fetch 9; Fetch 3; App 4 (VInt 10%Z); Fetch 4; Fetch 9] /\
  apps_of 4 (events_upto 2 (inter_s 9 ex_ds)) = [VInt 10%Z] /\
  apps_of 2 (events_upto 2 (inter_s 9 ex_ds)) = [VInt 1%Z] /\
  apps_of 4 (events_upto 4 (inter_s 9 ex_ds)) = [VInt 10%Z] /\
  values (inter_s 9 ex_ds) = [VInt 2; VInt 20; VInt 3; VInt 4; VInt 40]%Z /\
  inter_ref ex_ds = [VInt 2; VInt 20; VInt 3; VInt 4; VInt 40]%Z.
Proof. vm_compute. repeat split; reflexivity. Qed.

Print Assumptions inter_values_ref.
Print Assumptions inter_segment_origin.
