From Coq Require Import List Arith Bool Lia Permutation.
Require Import LD.Shuffle LD.ShuffleProofs LD.ShuffleFreeze.
Import ListNotations.

(* ShuffleFreezeProofs.v - proofs about Model F part 1b (ShuffleFreeze.v): frozen copies of a per-epoch reshuffle.
     1. frozen_stable(_step)          : no later operation changes the index array of an existing frozen copy
     2. frozen_is_perm                : every frozen copy's array is a permutation of the positions
     3. finv / finv_init / _step / _run : every iterator over a frozen copy has yielded a prefix of ITS copy's array.
        VERSION PROVED: the ORIGINAL (unrestricted) finv; finv_step / finv_run hold for EVERY operation, no fop_wf
        hypothesis.  Reason: an iterator started by `FStart c` on a copy index that does not exist yet has
        nth c (frozen s) [] = [], so the conjunct p <= length [] forces p = 0 and its output [] = firstn 0 _ stays a
        prefix of whatever array is appended later at index c.
        fop_wf / fops_wf are defined all the same and give the extra invariant fwf (every iterator's copy exists),
        which theorem 4 needs: an iterator over a copy that does not exist is "exhausted" at p = 0 with output [].
     4. frozen_iteration_is_the_copy (under fops_wf), frozen_iteration_is_the_copy_lt (under c < length frozen instead),
        frozen_iteration_nodup (in flight; needs neither)
     5. frozen_alias_refuted          : the aliasing variant yields a duplicate
     6. frozen_example *)

Lemma frun_cons s o ops : frun s (o :: ops) = frun (fstep s o) ops.
Proof. reflexivity. Qed.

(* ================================================================ 1. stability *)
Theorem frozen_stable_step : forall s o c a,
  nth_error (frozen s) c = Some a -> nth_error (frozen (fstep s o)) c = Some a.
Proof.
  intros s o c a H. destruct o as [ro|sigma|c'|it]; simpl.
  - exact H.
  - rewrite nth_error_app1; [exact H|]. apply nth_error_Some. congruence.
  - exact H.
  - destruct (nth_error (fpos s) it) as [[c' p]|]; [|exact H].
    destruct (nth_error (nth c' (frozen s) []) p); [|exact H]. exact H.
Qed.

Theorem frozen_stable : forall ops s c a,
  nth_error (frozen s) c = Some a -> nth_error (frozen (frun s ops)) c = Some a.
Proof.
  induction ops as [|o ops IH]; intros s c a H; [exact H|].
  rewrite frun_cons. apply IH. apply frozen_stable_step. exact H.
Qed.

(* the number of frozen copies never decreases *)
Lemma frozen_length_step s o : length (frozen s) <= length (frozen (fstep s o)).
Proof.
  destruct o as [ro|sigma|c'|it]; simpl; try lia.
  - rewrite app_length. simpl. lia.
  - destruct (nth_error (fpos s) it) as [[c' p]|]; [|lia].
    destruct (nth_error (nth c' (frozen s) []) p); simpl; lia.
Qed.

(* ================================================================ 2. every frozen array is a permutation *)
Definition pinv (n : nat) (s : fstate) : Prop :=
  Permutation (arr (src s)) (seq 0 n) /\ Forall (fun a => Permutation a (seq 0 n)) (frozen s).

Lemma pinv_init n : pinv n (finit n).
Proof. split; simpl; [reflexivity|constructor]. Qed.

Lemma pinv_step n s o : fop_ok n o -> pinv n s -> pinv n (fstep s o).
Proof.
  intros Hok [Ha Hf]. destruct o as [ro|sigma|c'|it]; simpl.
  - split; [|exact Hf]. simpl. destruct ro as [sigma|it].
    + simpl. apply (apply_perm_is_perm n); [exact Hok|exact Ha].
    + rewrite rstep_next_arr. exact Ha.
  - assert (Hn : Permutation (apply_perm sigma (arr (src s))) (seq 0 n))
      by (apply (apply_perm_is_perm n); [exact Hok|exact Ha]).
    split; simpl; [exact Hn|]. apply Forall_app. split; [exact Hf|]. constructor; [exact Hn|constructor].
  - split; assumption.
  - destruct (nth_error (fpos s) it) as [[c' p]|]; [|split; assumption].
    destruct (nth_error (nth c' (frozen s) []) p); split; assumption.
Qed.

Lemma pinv_run n ops : forall s, Forall (fop_ok n) ops -> pinv n s -> pinv n (frun s ops).
Proof.
  induction ops as [|o ops IH]; intros s Hops Hs; [exact Hs|].
  inversion Hops; subst. rewrite frun_cons. apply IH; [assumption|]. apply pinv_step; assumption.
Qed.

Theorem frozen_is_perm : forall n ops,
  Forall (fop_ok n) ops -> Forall (fun a => Permutation a (seq 0 n)) (frozen (frun (finit n) ops)).
Proof.
  intros n ops Hops. apply (pinv_run n ops (finit n) Hops (pinv_init n)).
Qed.

(* ================================================================ 3. the prefix invariant (ORIGINAL version) *)
Definition finv (s : fstate) : Prop :=
  length (fpos s) = length (fouts s) /\
  forall it c p, nth_error (fpos s) it = Some (c, p) ->
    nth it (fouts s) [] = firstn p (nth c (frozen s) []) /\ p <= length (nth c (frozen s) []).

Definition fop_wf (s : fstate) (o : fop) : Prop :=
  match o with FStart c => c < length (frozen s) | _ => True end.
Fixpoint fops_wf (s : fstate) (ops : list fop) : Prop :=
  match ops with [] => True | o :: r => fop_wf s o /\ fops_wf (fstep s o) r end.

Theorem finv_init : forall n, finv (finit n).
Proof.
  intros n. split; [reflexivity|]. intros it c p H. simpl in H. destruct it; discriminate.
Qed.

(* holds for EVERY operation (no fop_wf needed) *)
Theorem finv_step : forall s o, finv s -> finv (fstep s o).
Proof.
  intros [sr fr ps os] o [Hl H]. simpl in Hl, H.
  destruct o as [ro|sigma|c0|it]; unfold finv; simpl.
  - split; assumption.
  - split; [assumption|]. intros it c p Hn. destruct (H it c p Hn) as [Ho Hle].
    destruct (lt_dec c (length fr)) as [Hc|Hc].
    + rewrite app_nth1 by assumption. split; assumption.
    + rewrite (nth_overflow fr) in Ho, Hle by lia. simpl in Hle.
      assert (p = 0) by lia. subst p. rewrite Ho. split; [reflexivity|lia].
  - rewrite !app_length. simpl. split; [lia|]. intros it c p Hn.
    destruct (lt_dec it (length ps)) as [Hi|Hi].
    + rewrite nth_error_app1 in Hn by assumption. rewrite app_nth1 by lia. apply H. exact Hn.
    + rewrite nth_error_app2 in Hn by lia. rewrite app_nth2 by lia. rewrite <- Hl.
      destruct (it - length ps) as [|k]; simpl in Hn.
      * inversion Hn; subst. simpl. split; [reflexivity|lia].
      * destruct k; discriminate.
  - destruct (nth_error ps it) as [[c p]|] eqn:E1; [|simpl; split; assumption].
    destruct (nth_error (nth c fr []) p) as [idx|] eqn:E2; simpl; [|split; assumption].
    rewrite !upd_length. split; [assumption|]. intros it' c' p' Hn.
    assert (Hit : it < length ps) by (apply nth_error_Some; congruence).
    destruct (Nat.eq_dec it it') as [<-|Hne].
    + rewrite nth_error_upd_eq in Hn by assumption. inversion Hn; subst c' p'.
      rewrite nth_upd_eq by lia. destruct (H _ _ _ E1) as [Ho Hle]. split.
      * rewrite Ho. symmetry. apply firstn_S_snoc. exact E2.
      * assert (p < length (nth c fr [])) by (apply nth_error_Some; congruence). lia.
    + rewrite nth_error_upd_neq in Hn by assumption. rewrite nth_upd_neq by assumption. apply H. exact Hn.
Qed.

Theorem finv_run : forall ops s, finv s -> finv (frun s ops).
Proof.
  induction ops as [|o ops IH]; intros s Hs; [exact Hs|].
  rewrite frun_cons. apply IH. apply finv_step. exact Hs.
Qed.

(* the extra invariant of well-formed histories: the copy of every iterator exists *)
Definition fwf (s : fstate) : Prop :=
  forall it c p, nth_error (fpos s) it = Some (c, p) -> c < length (frozen s).

Lemma fwf_init n : fwf (finit n).
Proof. intros it c p H. simpl in H. destruct it; discriminate. Qed.

Lemma fwf_step s o : fop_wf s o -> fwf s -> fwf (fstep s o).
Proof.
  intros Hwf H it c p Hn. pose proof (frozen_length_step s o) as Hlen.
  destruct o as [ro|sigma|c0|it0]; simpl in Hn, Hwf.
  - specialize (H _ _ _ Hn). lia.
  - specialize (H _ _ _ Hn). lia.
  - destruct (lt_dec it (length (fpos s))) as [Hi|Hi].
    + rewrite nth_error_app1 in Hn by assumption. specialize (H _ _ _ Hn). lia.
    + rewrite nth_error_app2 in Hn by lia.
      destruct (it - length (fpos s)) as [|k]; simpl in Hn.
      * inversion Hn; subst. simpl. exact Hwf.
      * destruct k; discriminate.
  - revert Hn Hlen. simpl.
    destruct (nth_error (fpos s) it0) as [[c1 p1]|] eqn:E1; [|intros Hn _; exact (H _ _ _ Hn)].
    destruct (nth_error (nth c1 (frozen s) []) p1) as [idx|] eqn:E2; simpl; [|intros Hn _; exact (H _ _ _ Hn)].
    intros Hn _. destruct (Nat.eq_dec it0 it) as [<-|Hne].
    + rewrite nth_error_upd_eq in Hn by (apply nth_error_Some; congruence).
      inversion Hn; subst. exact (H _ _ _ E1).
    + rewrite nth_error_upd_neq in Hn by assumption. exact (H _ _ _ Hn).
Qed.

Lemma fwf_run ops : forall s, fops_wf s ops -> fwf s -> fwf (frun s ops).
Proof.
  induction ops as [|o ops IH]; intros s Hwf Hs; [exact Hs|].
  destruct Hwf as [Ho Hr]. rewrite frun_cons. apply IH; [exact Hr|]. apply fwf_step; assumption.
Qed.

(* ================================================================ 4. an iteration over a frozen copy is the copy *)
Lemma nth_Forall {A} (P : A -> Prop) (l : list A) c d : Forall P l -> c < length l -> P (nth c l d).
Proof. intros H Hc. rewrite Forall_forall in H. apply H. apply nth_In. exact Hc. Qed.

(* with the existence of the copy as a direct hypothesis *)
Theorem frozen_iteration_is_the_copy_lt : forall n ops it c p,
  Forall (fop_ok n) ops ->
  nth_error (fpos (frun (finit n) ops)) it = Some (c, p) ->
  c < length (frozen (frun (finit n) ops)) ->
  p = length (nth c (frozen (frun (finit n) ops)) []) ->
  Permutation (nth it (fouts (frun (finit n) ops)) []) (seq 0 n).
Proof.
  intros n ops it c p Hops Hn Hc Hp.
  destruct (finv_run ops (finit n) (finv_init n)) as [_ H].
  destruct (H _ _ _ Hn) as [Ho _]. rewrite Ho, Hp, firstn_all.
  apply (nth_Forall _ _ c [] (frozen_is_perm n ops Hops) Hc).
Qed.

Theorem frozen_iteration_is_the_copy : forall n ops it c p,
  Forall (fop_ok n) ops ->
  fops_wf (finit n) ops ->
  nth_error (fpos (frun (finit n) ops)) it = Some (c, p) ->
  p = length (nth c (frozen (frun (finit n) ops)) []) ->
  Permutation (nth it (fouts (frun (finit n) ops)) []) (seq 0 n).
Proof.
  intros n ops it c p Hops Hwf Hn Hp.
  apply (frozen_iteration_is_the_copy_lt n ops it c p Hops Hn); [|exact Hp].
  exact (fwf_run ops (finit n) Hwf (fwf_init n) _ _ _ Hn).
Qed.

Lemma NoDup_firstn {A} (l : list A) p : NoDup l -> NoDup (firstn p l).
Proof.
  intros H. revert p. induction H as [|x l Hx Hl IH]; intros [|p]; simpl; try constructor.
  - intros Hin. apply Hx. rewrite <- (firstn_skipn p l). apply in_or_app. left. exact Hin.
  - apply IH.
Qed.

(* in flight: no duplicates so far (needs neither fops_wf nor the existence of the copy) *)
Theorem frozen_iteration_nodup : forall n ops it c p,
  Forall (fop_ok n) ops ->
  nth_error (fpos (frun (finit n) ops)) it = Some (c, p) ->
  NoDup (nth it (fouts (frun (finit n) ops)) []).
Proof.
  intros n ops it c p Hops Hn.
  destruct (finv_run ops (finit n) (finv_init n)) as [_ H].
  destruct (H _ _ _ Hn) as [Ho _]. rewrite Ho. apply NoDup_firstn.
  destruct (lt_dec c (length (frozen (frun (finit n) ops)))) as [Hc|Hc].
  - apply (Permutation_NoDup (l := seq 0 n)); [|apply seq_NoDup].
    symmetry. apply (nth_Forall _ _ c [] (frozen_is_perm n ops Hops) Hc).
  - rewrite nth_overflow by lia. constructor.
Qed.

(* ================================================================ 5. the aliasing variant is refuted *)
Theorem frozen_alias_refuted :
  exists n ops it, Forall (fop_ok n) ops /\ ~ NoDup (nth it (fouts (frun_alias (finit n) ops)) []).
Proof.
  exists 2, [FFreeze [1;0]; FStart 0; FNext 0; FSrc (RStart [1;0]); FNext 0], 0. split.
  - constructor; [simpl; apply perm_swap|].
    constructor; [exact I|]. constructor; [exact I|].
    constructor; [simpl; apply perm_swap|]. constructor; [exact I|constructor].
  - vm_compute. intros H. inversion H as [|x l Hin Hnd]; subst. apply Hin. left. reflexivity.
Qed.

(* ================================================================ 6. example *)
Example frozen_example :
  let ops := [FFreeze [2;0;1]; FStart 0; FNext 0; FFreeze [1;0;2]; FStart 1; FNext 1;
              FSrc (RStart [2;1;0]); FNext 0; FNext 1; FSrc (RNext 0); FFreeze [0;2;1];
              FNext 1; FNext 0; FNext 0; FNext 1] in
  let s := frun (finit 3) ops in
  frozen s = [[2;0;1]; [0;2;1]; [1;0;2]] /\
  fouts s = [[2;0;1]; [0;2;1]] /\
  arr (src s) = [1;0;2] /\
  outs (src s) = [[1]].
Proof. vm_compute. repeat split. Qed.

Print Assumptions frozen_iteration_is_the_copy.
Print Assumptions frozen_stable.
