(* TraceTie.v - correspondence helpers for Model B *)
From Coq Require Import String.
From Coq Require Import List Arith ZArith Bool.
Require Import LD.Base LD.Fn LD.Trace.
Import ListNotations.
Local Open Scope nat_scope.

Definition app_of (e : ev) : list (nat * val) := match e with App i a => [(i, a)] | _ => [] end.
Definition apps (l : list ev) : list (nat * val) := flat_map app_of l.
Definition av_eqb (a b : nat * val) : bool := Nat.eqb (fst a) (fst b) && val_eqb (snd a) (snd b).

(* what the harness sees of an iteration: per next() the value and the user-function applications, then the
   applications of the terminating next() *)
Definition iter_obs (d : lds) : list (list (nat * val) * val) * list (nat * val) :=
  let s := iter_s d in (map (fun sg => (apps (fst sg), snd sg)) (fst s), apps (snd s)).
Definition get_obs (d : lds) (i : nat) : option (list (nat * val) * val) :=
  match get_s d i with Some (e, v) => Some (apps e, v) | None => None end.
(* hit counts per node id: (fetches + fails, fails) as ProfilingDataset reports them *)
Definition hits (ids : list nat) (l : list ev) : list (nat * nat) :=
  map (fun id => (fetches_of id l + fails_of id l, fails_of id l)) ids.

Definition seg_eqb (a b : list (nat * val) * val) : bool := list_eqb av_eqb (fst a) (fst b) && val_eqb (snd a) (snd b).
Definition iter_obs_eqb (a b : list (list (nat * val) * val) * list (nat * val)) : bool :=
  list_eqb seg_eqb (fst a) (fst b) && list_eqb av_eqb (snd a) (snd b).
Definition oget_eqb (a b : option (list (nat * val) * val)) : bool :=
  match a, b with Some x, Some y => seg_eqb x y | None, None => true | _, _ => false end.
Definition hits_eqb (a b : list (nat * nat)) : bool := list_eqb (fun x y => Nat.eqb (fst x) (fst y) && Nat.eqb (snd x) (snd y)) a b.

(* a case: pipeline; observed iteration; observed gets; profiling after k next() calls (k, hit counts);
   profiling after ds[i] (i, hit counts) *)
Record bcase := mkBC {
  b_d : lds;
  b_iter : list (list (nat * val) * val) * list (nat * val);
  b_gets : list (nat * option (list (nat * val) * val));
  b_prof_iter : list (nat * list (nat * nat));
  b_prof_get : list (nat * list (nat * nat)) }.
Definition prof_after (d : lds) (k : nat) : list (nat * nat) :=
  let s := iter_s d in
  hits (ids_of d) (if length (fst s) <? k then all_events s else events_upto k s).
Definition prof_get (d : lds) (i : nat) : list (nat * nat) :=
  hits (ids_of d) (match get_s d i with Some (e, _) => e | None => fail_path d end).
Definition bcase_ok (c : bcase) : list nat :=
  (if iter_obs_eqb (iter_obs (b_d c)) (b_iter c) then [] else [1]) ++
  (if forallb (fun g => oget_eqb (get_obs (b_d c) (fst g)) (snd g)) (b_gets c) then [] else [2]) ++
  (if forallb (fun g => hits_eqb (prof_after (b_d c) (fst g)) (snd g)) (b_prof_iter c) then [] else [3]) ++
  (if forallb (fun g => hits_eqb (prof_get (b_d c) (fst g)) (snd g)) (b_prof_get c) then [] else [4]).
Fixpoint bbad (j : nat) (cs : list bcase) : list (nat * list nat) :=
  match cs with [] => [] | c :: r => match bcase_ok c with [] => bbad (S j) r | m => (j, m) :: bbad (S j) r end end.
