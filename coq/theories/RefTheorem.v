(* RefTheorem.v - the model of every stage agrees with its eager reference (all clauses of `agrees`),
   for every descriptor, by nested induction; the per-stage lemmas are in RefLemmas_A1..A4.v. *)
From Coq Require Import String.
From Coq Require Import List Arith ZArith Bool Lia.
Require Import LD.Base LD.PySlice LD.Pipeline LD.Ref.
Require LD.RefLemmas_A1 LD.RefLemmas_A2 LD.RefLemmas_A3 LD.RefLemmas_A4.
Import ListNotations.

Theorem tbl_agrees : forall d, stage_ok d.
Proof.
  induction d using ds_ind'.
  - apply RefLemmas_A1.stage_list.
  - apply RefLemmas_A1.stage_listwu.
  - apply RefLemmas_A1.stage_dict.
  - apply RefLemmas_A1.stage_map; assumption.
  - apply RefLemmas_A1.stage_parmap; assumption.
  - apply RefLemmas_A1.stage_filter; assumption.
  - apply RefLemmas_A2.stage_catch; assumption.
  - apply RefLemmas_A2.stage_prefetch; assumption.
  - apply RefLemmas_A2.stage_slice; assumption.
  - apply RefLemmas_A3.stage_concat; assumption.
  - apply RefLemmas_A4.stage_intersperse; assumption.
  - apply RefLemmas_A3.stage_zip; assumption.
  - apply RefLemmas_A4.stage_keyzip; assumption.
  - apply RefLemmas_A3.stage_items; assumption.
  - apply RefLemmas_A3.stage_batch; assumption.
  - apply RefLemmas_A3.stage_unbatch; assumption.
  - apply RefLemmas_A1.stage_cycle.
  - apply RefLemmas_A2.stage_cache; assumption.
Qed.

Corollary agrees_of_tbl d t : wfb d = true -> tbl d = Some t -> agrees d t.
Proof. intros H1 H2. exact (tbl_agrees d H1 t H2). Qed.
