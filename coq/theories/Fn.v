(* Fn.v - a finite table of user-function codes with an interpreter.  Theorems quantify over
   ALL Gallina functions; this table only serves the correspondence check, where each code is
   mirrored one-for-one by a Python function in harness/fnlib.py. *)
From Coq Require Import String.
From Coq Require Import List Arith ZArith Bool Lia.
Require Import LD.Base.
Import ListNotations.
Open Scope Z_scope.

Fixpoint first_int (v : val) : option Z :=
  match v with
  | VInt z => Some z
  | VStr _ | VNone => None
  | VList l | VTup l | VDict _ l =>
      (fix go (l : list val) : option Z :=
         match l with
         | [] => None
         | x :: t => match first_int x with Some z => Some z | None => go t end
         end) l
  end.
Definition fint (v : val) : Z := match first_int v with Some z => z | None => 0 end.

Fixpoint deep_add (c : Z) (v : val) : val :=
  match v with
  | VInt z => VInt (z + c)
  | VStr s => VStr s
  | VNone => VNone
  | VList l => VList (map (deep_add c) l)
  | VTup l => VTup (map (deep_add c) l)
  | VDict ks l => VDict ks (map (deep_add c) l)
  end.
Fixpoint deep_mul (c : Z) (v : val) : val :=
  match v with
  | VInt z => VInt (z * c)
  | VStr s => VStr s
  | VNone => VNone
  | VList l => VList (map (deep_mul c) l)
  | VTup l => VTup (map (deep_mul c) l)
  | VDict ks l => VDict ks (map (deep_mul c) l)
  end.

Inductive pcode :=
| PTrue | PFalse
| PModEq (m r : Z)     (* fint x mod m = r  (m > 0) *)
| PLt (c : Z)          (* fint x < c *)
| PEq (c : Z)
| PIn (l : list Z).   (* fint x is one of l *)
Definition interp_p (p : pcode) (v : val) : bool :=
  match p with
  | PTrue => true | PFalse => false
  | PModEq m r => (fint v mod m =? r)
  | PLt c => fint v <? c
  | PEq c => fint v =? c
  | PIn l => existsb (Z.eqb (fint v)) l
  end.

Inductive fcode :=
| FId
| FAdd (c : Z) | FMul (c : Z)
| FWrapList            (* x -> [x, x] *)
| FWrapTup             (* x -> (x,)   *)
| FFirst               (* x[0] of a list/tuple, TypeError otherwise *)
| FKeyInt | FKeyNeg    (* sort keys: fint x, - fint x *)
| FKeyMod (m : Z)      (* fint x mod m : sort / group keys with ties *)
| FRaiseIf (p : pcode) (c : ecls) (tag : Z) (g : fcode).   (* raise c(tag) if p x else g x *)

Fixpoint interp_f (f : fcode) (v : val) : res val :=
  match f with
  | FId => Ok v
  | FAdd c => Ok (deep_add c v)
  | FMul c => Ok (deep_mul c v)
  | FWrapList => Ok (VList [v; v])
  | FWrapTup => Ok (VTup [v])
  | FFirst => match v with
              | VList (x :: _) | VTup (x :: _) => Ok x
              | VList [] | VTup [] => Err (lib EIndex)
              | _ => Err (lib EType)
              end
  | FKeyInt => Ok (VInt (fint v))
  | FKeyNeg => Ok (VInt (- fint v))
  | FKeyMod m => Ok (VInt (fint v mod m))
  | FRaiseIf p c tag g => if interp_p p v then Err (mkexn c tag) else interp_f g v
  end.

(* filter predicates: a boolean code, possibly raising first *)
Inductive qcode :=
| QP (p : pcode)
| QRaiseIf (p : pcode) (c : ecls) (tag : Z) (q : pcode).
Definition interp_q (q : qcode) (v : val) : res bool :=
  match q with
  | QP p => Ok (interp_p p v)
  | QRaiseIf p c tag q => if interp_p p v then Err (mkexn c tag) else Ok (interp_p q v)
  end.
