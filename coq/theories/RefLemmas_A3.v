(* RefLemmas_A3.v - per-stage agreement lemmas for Concat, Zip, Batch, Unbatch, Items. *)
From Coq Require Import String.
From Coq Require Import List Arith ZArith Bool Lia ZifyBool ZifyNat.
Require Import LD.Base LD.PySlice LD.Pipeline LD.Ref.
Import ListNotations.
Open Scope Z_scope.

(* ================================================================== helpers *)

(* ---------- py_nth ---------- *)
Lemma A3_py_nth_nat {A} (l : list A) (j : nat) :
  py_nth l (Z.of_nat j) = match nth_error l j with Some a => Ok a | None => Err (lib EIndex) end.
Proof.
  unfold py_nth.
  destruct (Z.of_nat j <? 0) eqn:E1; [lia|].
  destruct ((Z.of_nat j <? 0) || (Z.of_nat (length l) <=? Z.of_nat j)) eqn:E2.
  - assert (H : (length l <= j)%nat) by lia.
    apply nth_error_None in H. now rewrite H.
  - now rewrite Nat2Z.id.
Qed.

Lemma A3_py_nth_nonneg {A} (l : list A) (i : Z) :
  0 <= i -> py_nth l i = py_nth l (Z.of_nat (Z.to_nat i)).
Proof. intros H. now rewrite Z2Nat.id. Qed.

Lemma A3_py_nth_neg {A} (l : list A) (i : Z) :
  i < 0 ->
  py_nth l i = if i + Z.of_nat (length l) <? 0 then Err (lib EIndex)
               else py_nth l (i + Z.of_nat (length l)).
Proof.
  intros H. unfold py_nth.
  destruct (i <? 0) eqn:E1; [|lia].
  destruct (i + Z.of_nat (length l) <? 0) eqn:E2; cbn [orb]; auto.
  rewrite E2. reflexivity.
Qed.

Lemma A3_py_nth_oob {A} (l : list A) (i : Z) :
  Z.of_nat (length l) <= i -> py_nth l i = Err (lib EIndex).
Proof.
  intros H. unfold py_nth.
  destruct (i <? 0) eqn:E1; [lia|].
  destruct ((i <? 0) || (Z.of_nat (length l) <=? i)) eqn:E2; auto. lia.
Qed.

Lemma A3_py_nth_in {A} (l : list A) (i : Z) :
  0 <= i < Z.of_nat (length l) ->
  exists a, nth_error l (Z.to_nat i) = Some a /\ py_nth l i = Ok a.
Proof.
  intros H. rewrite A3_py_nth_nonneg by lia. rewrite A3_py_nth_nat.
  destruct (nth_error l (Z.to_nat i)) eqn:E.
  - eauto.
  - apply nth_error_None in E. lia.
Qed.

Lemma A3_py_nth_app_l {A} (a b : list A) (i : Z) :
  0 <= i < Z.of_nat (length a) -> py_nth (a ++ b) i = py_nth a i.
Proof.
  intros H. rewrite (A3_py_nth_nonneg (a ++ b)), (A3_py_nth_nonneg a) by lia.
  rewrite !A3_py_nth_nat. rewrite nth_error_app1 by lia. reflexivity.
Qed.

Lemma A3_py_nth_app_r {A} (a b : list A) (i : Z) :
  Z.of_nat (length a) <= i -> py_nth (a ++ b) i = py_nth b (i - Z.of_nat (length a)).
Proof.
  intros H. rewrite (A3_py_nth_nonneg (a ++ b)), (A3_py_nth_nonneg b) by lia.
  rewrite !A3_py_nth_nat. rewrite nth_error_app2 by lia.
  replace (Z.to_nat (i - Z.of_nat (length a))) with (Z.to_nat i - length a)%nat by lia.
  reflexivity.
Qed.

Lemma A3_py_nth_map {A B} (f : A -> B) (l : list A) (i : Z) :
  py_nth (map f l) i = do x <- py_nth l i; Ok (f x).
Proof.
  unfold py_nth. rewrite map_length.
  destruct ((_ <? 0) || _); simpl; auto.
  rewrite nth_error_map. destruct (nth_error l _); reflexivity.
Qed.

(* py_nth at any integer, reduced to the non-negative case *)
Lemma A3_py_nth_norm {A} (l : list A) (i : Z) :
  py_nth l i =
  do j <- norm_neg i (Ok (length l)); if Z.of_nat (length l) <=? j then Err (lib EIndex) else py_nth l j.
Proof.
  unfold norm_neg. destruct (i <? 0) eqn:E1; simpl.
  - rewrite A3_py_nth_neg by lia.
    destruct (i + Z.of_nat (length l) <? 0) eqn:E2; simpl; auto.
    destruct (Z.of_nat (length l) <=? i + Z.of_nat (length l)) eqn:E3; auto. lia.
  - destruct (Z.of_nat (length l) <=? i) eqn:E3; auto.
    apply A3_py_nth_oob. lia.
Qed.

(* ---------- omapM / Forall2 ---------- *)
Lemma A3_omapM_Forall2 {A B} (f : A -> option B) (l : list A) (r : list B) :
  omapM f l = Some r -> Forall2 (fun a b => f a = Some b) l r.
Proof.
  revert r. induction l as [|a l IH]; simpl; intros r H.
  - inversion H. constructor.
  - destruct (f a) eqn:E; simpl in H; [|discriminate].
    destruct (omapM f l) eqn:E2; simpl in H; [|discriminate].
    inversion H; subst. constructor; auto.
Qed.

Lemma A3_Forall2_length {A B} (R : A -> B -> Prop) l r : Forall2 R l r -> length l = length r.
Proof. induction 1; simpl; auto. Qed.

Lemma A3_parts_agree (l : list ds) (ts : list tab) :
  Forall stage_ok l -> forallb wfb l = true -> omapM tbl l = Some ts ->
  Forall2 agrees l ts.
Proof.
  intros HF HW HT. apply A3_omapM_Forall2 in HT.
  induction HT; constructor.
  - inversion HF; subst. simpl in HW. apply andb_true_iff in HW as [HW1 HW2].
    apply H2; auto.
  - inversion HF; subst. simpl in HW. apply andb_true_iff in HW as [HW1 HW2]. auto.
Qed.

(* ---------- vals / pairs / nokey ---------- *)
Lemma A3_vals_nokey vs : vals (nokey vs) = vs.
Proof. unfold vals, nokey. rewrite map_map. simpl. apply map_id. Qed.

Lemma A3_length_nokey vs : length (nokey vs) = length vs.
Proof. unfold nokey. apply map_length. Qed.

Lemma A3_vals_concat ts : vals (concat ts) = concat (map vals ts).
Proof. unfold vals. apply concat_map. Qed.

Lemma A3_pairs_concat ts : pairs (concat ts) = concat (map pairs ts).
Proof. unfold pairs. apply concat_map. Qed.

Lemma A3_length_vals t : length (vals t) = length t.
Proof. apply map_length. Qed.

(* ---------- concat_traces ---------- *)
Lemma A3_concat_traces_End (xs : list (list val)) :
  concat_traces (map (fun x => (x, End)) xs) = (concat xs, End).
Proof.
  induction xs as [|x xs IH]; simpl; auto. rewrite IH. reflexivity.
Qed.

(* ---------- sum_res ---------- *)
Lemma A3_sum_res_Ok (ns : list nat) :
  sum_res (map Ok ns) = Ok (fold_right Nat.add 0%nat ns).
Proof. induction ns as [|n ns IH]; simpl; auto. rewrite IH. reflexivity. Qed.

Lemma A3_length_concat {A} (ls : list (list A)) :
  length (concat ls) = fold_right Nat.add 0%nat (map (@length A) ls).
Proof. induction ls; simpl; auto. rewrite app_length. congruence. Qed.

(* ---------- mapM ---------- *)
Lemma A3_mapM_Forall2 {A B} (f : A -> res B) (l : list A) (r : list B) :
  mapM f l = Ok r -> Forall2 (fun a b => f a = Ok b) l r.
Proof.
  revert r. induction l as [|a l IH]; simpl; intros r H.
  - inversion H. constructor.
  - destruct (f a) eqn:E; simpl in H; [|discriminate].
    destruct (mapM f l) eqn:E2; simpl in H; [|discriminate].
    inversion H; subst. constructor; auto.
Qed.


(* ---------- inb / nodupb / assoc / functional ---------- *)
Lemma A3_inb_In k ks : inb k ks = true <-> In k ks.
Proof.
  unfold inb. rewrite existsb_exists. split.
  - intros [x [H1 H2]]. apply String.eqb_eq in H2. now subst.
  - intros H. exists k. split; auto. apply String.eqb_refl.
Qed.

Lemma A3_nodupb_NoDup ks : nodupb ks = true -> NoDup ks.
Proof.
  induction ks as [|k ks IH]; simpl; intros H; constructor.
  - apply andb_true_iff in H as [H _]. intros HI. apply A3_inb_In in HI. rewrite HI in H. discriminate.
  - apply andb_true_iff in H as [_ H]. auto.
Qed.

Lemma A3_NoDup_functional (t : tab) : NoDup (map fst t) -> functional t.
Proof.
  induction t as [|[k0 v0] t IH]; simpl; intros H k v v' H1 H2.
  - destruct H1.
  - inversion H; subst.
    destruct H1 as [H1|H1], H2 as [H2|H2].
    + congruence.
    + inversion H1; subst. exfalso. apply H4. apply (in_map fst) in H2. exact H2.
    + inversion H2; subst. exfalso. apply H4. apply (in_map fst) in H1. exact H1.
    + eapply IH; eauto.
Qed.

Lemma A3_assoc_app k (a b : tab) :
  assoc k (a ++ b) = match assoc k a with Some v => Some v | None => assoc k b end.
Proof.
  unfold assoc. induction a as [|[k0 v0] a IH]; simpl; auto.
  destruct (String.eqb k k0); simpl; auto.
Qed.

Lemma A3_assoc_notin k (t : tab) : inb k (map fst t) = false -> assoc k t = None.
Proof.
  unfold assoc, inb. induction t as [|[k0 v0] t IH]; simpl; auto.
  destruct (String.eqb k k0); simpl; [discriminate|auto].
Qed.

Lemma A3_assoc_in k (t : tab) : inb k (map fst t) = true -> exists v, assoc k t = Some v.
Proof.
  unfold assoc, inb. induction t as [|[k0 v0] t IH]; simpl; [discriminate|].
  destruct (String.eqb k k0); simpl; eauto.
Qed.

Lemma A3_functional_map (g : key -> val -> val) (t : tab) :
  functional t -> functional (map (fun kv => (fst kv, g (fst kv) (snd kv))) t).
Proof.
  intros F k v v' H1 H2.
  apply in_map_iff in H1 as [[k1 v1] [E1 I1]].
  apply in_map_iff in H2 as [[k2 v2] [E2 I2]].
  simpl in *. inversion E1; inversion E2; subst. subst.
  rewrite (F _ _ _ I1 I2). reflexivity.
Qed.

(* ---------- norm_neg ---------- *)
Lemma A3_norm_neg_nonneg i n j : norm_neg i n = Ok j -> 0 <= j.
Proof.
  unfold norm_neg. destruct (i <? 0) eqn:E.
  - destruct n as [m|e]; simpl; [|discriminate].
    destruct (i + Z.of_nat m <? 0) eqn:E2; [discriminate|]. intros H; inversion H; lia.
  - intros H; inversion H; lia.
Qed.

Lemma A3_bind_norm_ext {B} i n (f g : Z -> res B) :
  (forall j, 0 <= j -> f j = g j) ->
  (do j <- norm_neg i n; f j) = (do j <- norm_neg i n; g j).
Proof.
  intros H. destruct (norm_neg i n) eqn:E; simpl; auto.
  apply H. eapply A3_norm_neg_nonneg; eauto.
Qed.

Lemma A3_py_nth_norm2 {A} (l : list A) (i : Z) :
  py_nth l i = do j <- norm_neg i (Ok (length l)); py_nth l j.
Proof.
  rewrite A3_py_nth_norm. apply A3_bind_norm_ext. intros j Hj.
  destruct (Z.of_nat (length l) <=? j) eqn:E; auto.
  symmetry. apply A3_py_nth_oob. lia.
Qed.

(* ================================================================== DConcat *)
Definition A3_cwalk := fix walk (l : list ds) (j : Z) : res val :=
  match l with
  | [] => Err (lib EIndex)
  | d :: t => do m <- len_ d;
              if Z.of_nat m <=? j then walk t (j - Z.of_nat m) else get_i d j
  end.
Lemma A3_get_i_concat l i :
  get_i (DConcat l) i = do j <- norm_neg i (sum_res (map len_ l)); A3_cwalk l j.
Proof. reflexivity. Qed.

Definition A3_kwalk (k : key) := fix walk (l : list ds) : res val :=
  match l with
  | [] => Err (lib EKey)
  | d :: t => do ks <- keys_ d; if inb k ks then get_k d k else walk t
  end.
Lemma A3_get_k_concat l k :
  get_k (DConcat l) k = do _u <- keys_ (DConcat l); A3_kwalk k l.
Proof. reflexivity. Qed.

Lemma A3_cwalk_ok (l : list ds) (ts : list tab) :
  Forall2 (fun d t => len_ d = Ok (length t) /\ forall i, get_i d i = py_nth (vals t) i) l ts ->
  forall j, 0 <= j -> A3_cwalk l j = py_nth (vals (concat ts)) j.
Proof.
  induction 1 as [|d t l ts [HL HG] HF IH]; intros j Hj; simpl.
  - symmetry. apply A3_py_nth_oob. simpl. lia.
  - rewrite HL. simpl. unfold vals. rewrite map_app. fold (vals t). fold (vals (concat ts)).
    destruct (Z.of_nat (length t) <=? j) eqn:E.
    + rewrite IH by lia. rewrite A3_py_nth_app_r; rewrite A3_length_vals; [reflexivity|lia].
    + rewrite HG. rewrite A3_py_nth_app_l; [reflexivity|]. rewrite A3_length_vals. lia.
Qed.

Lemma A3_concat_sum (l : list ds) (ts : list tab) :
  Forall2 (fun d t => len_ d = Ok (length t)) l ts ->
  sum_res (map len_ l) = Ok (length (concat ts)).
Proof.
  induction 1 as [|d t l ts HL HF IH]; simpl; auto.
  rewrite HL, IH. simpl. rewrite app_length. reflexivity.
Qed.

Lemma A3_concat_len (l : list ds) (ts : list tab) :
  Forall2 (fun d t => forall m, len_ d = Ok m -> m = length t) l ts ->
  forall m, sum_res (map len_ l) = Ok m -> m = length (concat ts).
Proof.
  induction 1 as [|d t l ts HL HF IH]; simpl; intros m Hm.
  - inversion Hm. reflexivity.
  - destruct (len_ d) as [a|] eqn:E1; simpl in Hm; [|discriminate].
    destruct (sum_res (map len_ l)) as [b|] eqn:E2; simpl in Hm; [|discriminate].
    inversion Hm. rewrite app_length. rewrite (HL a eq_refl), (IH b eq_refl). reflexivity.
Qed.

Lemma A3_Forall2_impl {A B} (R S : A -> B -> Prop) l r :
  (forall a b, R a b -> S a b) -> Forall2 R l r -> Forall2 S l r.
Proof. intros H. induction 1; constructor; auto. Qed.

Lemma A3_Forall2_idx (l : list ds) (ts : list tab) :
  Forall2 agrees l ts -> forallb indexable l = true -> forallb ikeyed l = true ->
  Forall2 (fun d t => len_ d = Ok (length t) /\ forall i, get_i d i = py_nth (vals t) i) l ts.
Proof.
  induction 1 as [|d t l ts HA HF IH]; simpl; intros H1 H2; constructor.
  - apply andb_true_iff in H1 as [H1 _]. apply andb_true_iff in H2 as [H2 _].
    apply (ag_idx _ _ HA); auto.
  - apply andb_true_iff in H1 as [_ H1]. apply andb_true_iff in H2 as [_ H2]. auto.
Qed.

Lemma A3_concat_keys (l : list ds) (ts : list tab) :
  Forall2 agrees l ts -> forall kss, mapM keys_ l = Ok kss ->
  kss = map (map fst) ts /\ forallb keyedb l = true /\ forallb indexable l = true /\
  forallb ikeyed l = true.
Proof.
  induction 1 as [|d t l ts HA HF IH]; simpl; intros kss H.
  - inversion H. auto.
  - destruct (keys_ d) as [ks0|] eqn:E1; simpl in H; [|discriminate].
    fold (mapM keys_ l) in H.
    destruct (mapM keys_ l) as [kr|] eqn:E2; simpl in H; [|discriminate].
    inversion H; subst.
    destruct (ag_keys _ _ HA _ E1) as (K1 & K2 & K3 & K4 & K5).
    destruct (IH _ eq_refl) as (I1 & I2 & I3 & I4).
    rewrite K1, K4, K5, I2, I3, I4. subst. auto.
Qed.

Lemma A3_kwalk_ok k (l : list ds) (ts : list tab) :
  Forall2 agrees l ts -> forall kss, mapM keys_ l = Ok kss ->
  match assoc k (concat ts) with
  | Some v => A3_kwalk k l = Ok v
  | None => exists e, A3_kwalk k l = Err e
  end.
Proof.
  induction 1 as [|d t l ts HA HF IH]; simpl; intros kss H.
  - unfold assoc. simpl. eauto.
  - destruct (keys_ d) as [ks0|] eqn:E1; simpl in H; [|discriminate].
    fold (mapM keys_ l) in H.
    destruct (mapM keys_ l) as [kr|] eqn:E2; simpl in H; [|discriminate].
    destruct (ag_keys _ _ HA _ E1) as (K1 & K2 & _).
    pose proof (ag_getk _ _ HA _ E1 k) as G.
    rewrite A3_assoc_app. subst ks0. cbn [bind].
    destruct (inb k (map fst t)) eqn:EI.
    + destruct (A3_assoc_in _ _ EI) as [v Ev]. rewrite Ev in *. exact G.
    + rewrite (A3_assoc_notin _ _ EI). apply (IH _ eq_refl).
Qed.

Lemma stage_concat l : Forall stage_ok l -> stage_ok (DConcat l).
Proof.
  intros HF HW t HT. simpl in HW, HT.
  destruct (omapM tbl l) as [ts|] eqn:ET; simpl in HT; [|discriminate].
  inversion HT; subst t; clear HT.
  pose proof (A3_parts_agree _ _ HF HW ET) as HA.
  constructor.
  - (* iter *)
    simpl. rewrite A3_vals_concat, <- A3_concat_traces_End. f_equal.
    clear -HA. induction HA; simpl; auto. rewrite (ag_iter _ _ H). f_equal. exact IHHA.
  - (* iterk *)
    simpl. intros HK. rewrite A3_pairs_concat, <- A3_concat_traces_End. f_equal.
    clear -HA HK. induction HA; simpl; auto. simpl in HK. apply andb_true_iff in HK as [K1 K2].
    rewrite (ag_iterk _ _ H K1). rewrite IHHA; auto.
  - (* len *)
    simpl. apply A3_concat_len. eapply A3_Forall2_impl; [|exact HA].
    intros a b Hab. apply (ag_len _ _ Hab).
  - (* idx *)
    intros HI HK. simpl in HI, HK.
    pose proof (A3_Forall2_idx _ _ HA HI HK) as HX.
    assert (HS : sum_res (map len_ l) = Ok (length (concat ts))).
    { apply A3_concat_sum. eapply A3_Forall2_impl; [|exact HX]. intros a b [H _]; exact H. }
    split; [exact HS|].
    intros i. rewrite A3_get_i_concat, HS.
    rewrite (A3_py_nth_norm2 (vals (concat ts))). rewrite A3_length_vals.
    apply A3_bind_norm_ext. intros j Hj. apply A3_cwalk_ok; auto.
  - (* keys *)
    simpl. intros ks HKs.
    destruct (mapM keys_ l) as [kss|] eqn:EM; simpl in HKs; [|discriminate].
    unfold unique_keys in HKs. destruct (nodupb (concat kss)) eqn:EN; [|discriminate].
    inversion HKs; subst ks; clear HKs.
    destruct (A3_concat_keys _ _ HA _ EM) as (K1 & K2 & K3 & K4).
    assert (HC : concat kss = map fst (concat ts)).
    { subst kss. symmetry. apply concat_map. }
    repeat split; auto.
    apply A3_NoDup_functional. rewrite <- HC. apply A3_nodupb_NoDup. exact EN.
  - (* getk *)
    intros ks HKs k. rewrite A3_get_k_concat, HKs. simpl bind.
    simpl in HKs.
    destruct (mapM keys_ l) as [kss|] eqn:EM; simpl in HKs; [|discriminate].
    eapply A3_kwalk_ok; eauto.
Qed.

(* ================================================================== DUnbatch *)
Lemma A3_unbatch_until_ok l bs :
  omapM seq_elems l = Some bs -> unbatch_until l = (concat bs, End).
Proof.
  revert bs. induction l as [|a l IH]; simpl; intros bs H.
  - inversion H. reflexivity.
  - destruct a; simpl in H; try discriminate;
      destruct (omapM seq_elems l) eqn:E; simpl in H; try discriminate;
      inversion H; subst; rewrite (IH _ eq_refl); reflexivity.
Qed.

Lemma stage_unbatch d : stage_ok d -> stage_ok (DUnbatch d).
Proof.
  intros HS HW t HT. simpl in HW, HT.
  destruct (tbl d) as [t0|] eqn:ET; simpl in HT; [|discriminate].
  destruct (omapM seq_elems (vals t0)) as [bs|] eqn:EB; simpl in HT; [|discriminate].
  inversion HT; subst t; clear HT.
  pose proof (HS HW t0 ET) as HA.
  constructor; simpl; try discriminate.
  rewrite (ag_iter _ _ HA). simpl. rewrite (A3_unbatch_until_ok _ _ EB).
  unfold then_end. simpl. rewrite A3_vals_nokey. reflexivity.
Qed.

(* ================================================================== DItems *)
Lemma A3_index_of_assoc k (t : tab) :
  match index_of k (map fst t) with
  | Some j => exists v, nth_error t j = Some (k, v) /\ assoc k t = Some v
  | None => assoc k t = None
  end.
Proof.
  induction t as [|[k0 v0] t IH]; simpl; auto.
  unfold assoc. simpl. destruct (String.eqb k k0) eqn:E.
  - apply String.eqb_eq in E. subst. exists v0. auto.
  - fold (assoc k t). destruct (index_of k (map fst t)); simpl; auto.
Qed.

Lemma A3_assoc_map (g : key -> val -> val) k (t : tab) :
  assoc k (map (fun kv => (fst kv, g (fst kv) (snd kv))) t) = option_map (g k) (assoc k t).
Proof.
  unfold assoc. induction t as [|[k0 v0] t IH]; simpl; auto.
  destruct (String.eqb k k0) eqn:E; simpl; auto.
  apply String.eqb_eq in E. subst. reflexivity.
Qed.

Lemma A3_rekey_pairs (t : tab) :
  map rekey (pairs t) = pairs (map (fun kv => (fst kv, pair_of (fst kv) (snd kv))) t).
Proof. unfold pairs. rewrite !map_map. reflexivity. Qed.

Lemma stage_items d : stage_ok d -> stage_ok (DItems d).
Proof.
  intros HS HW t HT. simpl in HW, HT.
  destruct (keyedb d) eqn:EK; [|discriminate].
  destruct (tbl d) as [t0|] eqn:ET; simpl in HT; [|discriminate].
  inversion HT; subst t; clear HT.
  pose proof (HS HW t0 ET) as HA.
  assert (HV : vals (map (fun kv => (fst kv, pair_of (fst kv) (snd kv))) t0) = pairs t0).
  { unfold vals, pairs. rewrite map_map. reflexivity. }
  assert (HK : map fst (map (fun kv : key * val => (fst kv, pair_of (fst kv) (snd kv))) t0) = map fst t0).
  { rewrite map_map. reflexivity. }
  constructor.
  - simpl. rewrite (ag_iterk _ _ HA EK). unfold conv_items. simpl. rewrite HV. reflexivity.
  - simpl. intros _. rewrite (ag_iterk _ _ HA EK). unfold conv_items. simpl.
    rewrite A3_rekey_pairs. reflexivity.
  - simpl. intros m Hm. rewrite map_length. apply (ag_len _ _ HA _ Hm).
  - intros HI HKY. simpl in HI, HKY. apply andb_true_iff in HKY as [HKO HKY].
    destruct (ag_idx _ _ HA HI HKY) as [HL HG].
    split.
    + simpl. rewrite map_length. exact HL.
    + intros i. simpl. unfold keys_ok in HKO.
      destruct (keys_ d) as [ks|] eqn:EKS; [|discriminate].
      destruct (ag_keys _ _ HA _ EKS) as (_ & K2 & _). subst ks. simpl.
      rewrite HG, HV. unfold vals, pairs. rewrite !A3_py_nth_map.
      destruct (py_nth t0 i); reflexivity.
  - simpl. intros ks HKs.
    destruct (ag_keys _ _ HA _ HKs) as (K1 & K2 & K3 & K4 & K5).
    repeat split; auto.
    + rewrite HK. exact K2.
    + apply (A3_functional_map pair_of). exact K3.
    + unfold keys_ok. rewrite HKs, K5. reflexivity.
  - intros ks HKs k. simpl in HKs.
    destruct (ag_keys _ _ HA _ HKs) as (K1 & K2 & K3 & K4 & K5).
    destruct (ag_idx _ _ HA K4 K5) as [HL HG].
    rewrite (A3_assoc_map pair_of). simpl. rewrite HKs. simpl. subst ks.
    pose proof (A3_index_of_assoc k t0) as HX.
    destruct (index_of k (map fst t0)) as [j|].
    + destruct HX as [v [HN HAs]]. rewrite HAs. simpl.
      rewrite HG, A3_py_nth_nat. unfold vals. rewrite nth_error_map, HN. reflexivity.
    + rewrite HX. simpl. eauto.
Qed.

(* ================================================================== DZip *)
Lemma A3_py_nth_cases {A} (l : list A) (i : Z) (d : A) :
  py_nth l i =
  let n := Z.of_nat (length l) in
  let j := if i <? 0 then i + n else i in
  if (j <? 0) || (n <=? j) then Err (lib EIndex) else Ok (nth (Z.to_nat j) l d).
Proof.
  unfold py_nth. cbv zeta.
  destruct ((_ <? 0) || _) eqn:E; auto.
  rewrite (nth_error_nth' l d); [reflexivity|].
  destruct (i <? 0) eqn:E1; lia.
Qed.

Lemma A3_fold_min n xs : Forall (fun x => x = n) xs -> fold_right Nat.min n xs = n.
Proof. induction 1; simpl; auto. subst. rewrite IHForall. apply Nat.min_id. Qed.

Lemma A3_zip_rows_cons t0 TS :
  zip_rows (t0 :: TS) =
  let ts := t0 :: TS in
  let r := fold_right Nat.min (length (fst t0)) (map (fun t => length (fst t)) ts) in
  (map (fun j => VTup (map (fun t => nth j (fst t) VNone) ts)) (seq 0 r),
   match find (fun t => (length (fst t) =? r)%nat) ts with Some t => snd t | None => End end).
Proof. reflexivity. Qed.

Lemma A3_zip_rows_ok (cols : list (list val)) n :
  cols <> [] -> Forall (fun c => length c = n) cols ->
  zip_rows (map (fun c => (c, End)) cols) = (transpose n cols, End).
Proof.
  destruct cols as [|c0 cs]; [congruence|]. intros _ HF.
  assert (HR : fold_right Nat.min (length c0)
                 (map (fun t : list val * ending => length (fst t)) (map (fun c => (c, End)) (c0 :: cs))) = n).
  { rewrite map_map. inversion HF; subst. apply A3_fold_min.
    apply Forall_forall. intros x Hx. apply in_map_iff in Hx as [c [Hc1 Hc2]]. simpl in Hc1.
    subst x. rewrite Forall_forall in HF. apply HF. exact Hc2. }
  change (map (fun c => (c, End)) (c0 :: cs)) with ((c0, End) :: map (fun c : list val => (c, End)) cs) in *.
  rewrite A3_zip_rows_cons. cbv zeta. cbn [fst] in HR |- *.
  match goal with |- context [seq 0 ?r] => set (R := r) end.
  assert (HR' : R = n) by exact HR. clearbody R. subst R. clear HR.
  inversion HF; subst. cbn [find fst snd]. rewrite Nat.eqb_refl.
  f_equal. unfold transpose. apply map_ext. intros j. f_equal.
  cbn [map fst]. f_equal. rewrite map_map. reflexivity.
Qed.

Definition A3_zgo (i : Z) := fix go (l : list ds) : res (list val) :=
  match l with
  | [] => Ok []
  | d :: t => do v <- get_i d i; do r <- go t; Ok (v :: r)
  end.
Lemma A3_get_i_zip l i : get_i (DZip l) i = do vs <- A3_zgo i l; Ok (VTup vs).
Proof. reflexivity. Qed.

Lemma A3_zgo_ok i n (l : list ds) (ts : list tab) :
  Forall2 (fun d t => len_ d = Ok (length t) /\ forall i, get_i d i = py_nth (vals t) i) l ts ->
  Forall (fun t => length t = n) ts ->
  A3_zgo i l =
  let j := if i <? 0 then i + Z.of_nat n else i in
  if (j <? 0) || (Z.of_nat n <=? j)
  then (match l with [] => Ok [] | _ => Err (lib EIndex) end)
  else Ok (map (fun t => nth (Z.to_nat j) (vals t) VNone) ts).
Proof.
  induction 1 as [|d t l ts [HL HG] HF IH]; intros HN; cbv zeta.
  - simpl. destruct (_ || _); reflexivity.
  - inversion HN; subst. cbv zeta in IH. simpl. rewrite HG.
    rewrite (A3_py_nth_cases (vals t) i VNone). cbv zeta. rewrite A3_length_vals.
    destruct (_ || _) eqn:E; simpl; auto.
    rewrite (IH H2). reflexivity.
Qed.

Lemma stage_zip l : Forall stage_ok l -> stage_ok (DZip l).
Proof.
  intros HF HW t HT. simpl in HW, HT.
  destruct (omapM tbl l) as [ts|] eqn:ET; simpl in HT; [|discriminate].
  destruct (same_lengths ts) eqn:ES; [|discriminate].
  inversion HT; subst t; clear HT.
  pose proof (A3_parts_agree _ _ HF HW ET) as HA.
  set (n := length (hd [] ts)).
  assert (HNE : ts <> []) by (destruct ts; [discriminate|congruence]).
  assert (HN : Forall (fun t : tab => length t = n) ts).
  { destruct ts as [|t0 r]; [congruence|]. simpl in ES. subst n. simpl.
    constructor; auto. rewrite forallb_forall in ES. apply Forall_forall.
    intros x Hx. apply Nat.eqb_eq. apply ES. exact Hx. }
  assert (HLEN : length (nokey (transpose n (map vals ts))) = n).
  { rewrite A3_length_nokey. unfold transpose. rewrite map_length, seq_length. reflexivity. }
  constructor.
  - simpl. rewrite A3_vals_nokey.
    assert (HM : map (iter_ false) l = map (fun c => (c, End)) (map vals ts)).
    { clear -HA. induction HA; simpl; auto. rewrite (ag_iter _ _ H). f_equal. exact IHHA. }
    rewrite HM. apply A3_zip_rows_ok.
    + destruct ts; [congruence|discriminate].
    + apply Forall_forall. intros c Hc. apply in_map_iff in Hc as [t [Ht1 Ht2]]. subst c.
      rewrite A3_length_vals. rewrite Forall_forall in HN. auto.
  - simpl. discriminate.
  - intros m Hm. rewrite HLEN. simpl in Hm.
    destruct HA as [|d0 t0 l' ts' HA0 HA']; [exfalso; apply HNE; reflexivity|].
    inversion HN; subst. rewrite <- H1. apply (ag_len _ _ HA0 _ Hm).
  - intros HI HK. simpl in HI, HK.
    pose proof (A3_Forall2_idx _ _ HA HI HK) as HX.
    rewrite HLEN. split.
    + destruct HX as [|d0 t0 l' ts' [HL0 _] HX']; [exfalso; apply HNE; reflexivity|].
      simpl. inversion HN; subst. rewrite <- H1. exact HL0.
    + intros i. rewrite A3_get_i_zip, (A3_zgo_ok i n _ _ HX HN). cbv zeta.
      rewrite A3_vals_nokey. unfold transpose. rewrite A3_py_nth_map.
      rewrite (A3_py_nth_cases (seq 0 n) i 0%nat). cbv zeta. rewrite seq_length.
      destruct (_ || _) eqn:E.
      * destruct l; [|reflexivity]. exfalso. apply HNE. inversion HX. reflexivity.
      * simpl. rewrite seq_nth by (destruct (i <? 0); lia). simpl.
        rewrite map_map. reflexivity.
  - simpl. discriminate.
  - simpl. discriminate.
Qed.

(* ================================================================== DBatch *)
Lemma A3_skipn_skipn {A} a b (l : list A) : skipn a (skipn b l) = skipn (b + a) l.
Proof.
  revert l. induction b as [|b IH]; intros l; simpl; auto.
  destruct l; simpl; auto. apply skipn_nil.
Qed.

Lemma A3_skipn_cons {A} (l : list A) s v :
  nth_error l s = Some v -> skipn s l = v :: skipn (S s) l.
Proof.
  revert l. induction s as [|s IH]; intros l H; destruct l; simpl in *; try discriminate.
  - inversion H. reflexivity.
  - apply IH. exact H.
Qed.

Lemma A3_nth_error_seq nb j :
  nth_error (seq 0 nb) j = if (j <? nb)%nat then Some j else None.
Proof.
  destruct (Nat.ltb_spec j nb).
  - rewrite (nth_error_nth' _ 0%nat) by (rewrite seq_length; lia).
    rewrite seq_nth by lia. reflexivity.
  - apply nth_error_None. rewrite seq_length. lia.
Qed.

Definition A3_chunk (n : nat) (l : list val) (j : nat) : val := VList (firstn n (skipn (j * n) l)).
Definition A3_nb (n : nat) (drop : bool) (m : nat) : nat :=
  (if drop then m / n else (m + n - 1) / n)%nat.

Lemma A3_ref_chunks_eq n drop l :
  ref_chunks n drop l = map (A3_chunk n l) (seq 0 (A3_nb n drop (length l))).
Proof. reflexivity. Qed.

Lemma A3_chunks_fuel_S f n l :
  chunks_fuel (S f) n l =
  if (length l <? n)%nat then ([], l)
  else let '(bs, r) := chunks_fuel f n (skipn n l) in (VList (firstn n l) :: bs, r).
Proof. reflexivity. Qed.

Lemma A3_chunks_fuel_ok n : (0 < n)%nat -> forall fuel l, (length l < fuel)%nat ->
  chunks_fuel fuel n l =
  (map (A3_chunk n l) (seq 0 (length l / n)), skipn ((length l / n) * n) l).
Proof.
  intros Hn. induction fuel as [|f IH]; intros l Hl; [lia|].
  rewrite A3_chunks_fuel_S.
  destruct (Nat.ltb_spec (length l) n) as [E|E].
  - rewrite Nat.div_small by lia. reflexivity.
  - rewrite IH by (rewrite skipn_length; lia).
    rewrite skipn_length.
    assert (HD : (length l / n = S ((length l - n) / n))%nat).
    { replace (length l) with ((length l - n) + 1 * n)%nat at 1 by lia.
      rewrite Nat.div_add by lia. lia. }
    rewrite HD. set (q := ((length l - n) / n)%nat).
    change (seq 0 (S q)) with (0%nat :: seq 1 q). rewrite <- seq_shift.
    cbn [map]. rewrite map_map. f_equal.
    + f_equal. apply map_ext. intros j. unfold A3_chunk. rewrite A3_skipn_skipn. reflexivity.
    + rewrite A3_skipn_skipn. reflexivity.
Qed.

Lemma A3_nb_nodrop n m :
  (0 < n)%nat ->
  let q := (m / n)%nat in
  ((m + n - 1) / n)%nat = if (m - q * n =? 0)%nat then q else S q.
Proof.
  intros Hn q. pose proof (Nat.div_mod m n ltac:(lia)) as HM.
  pose proof (Nat.mod_upper_bound m n ltac:(lia)) as HU. fold q in HM.
  destruct (Nat.eqb_spec (m - q * n) 0) as [E|E]; symmetry.
  - apply (Nat.div_unique _ _ _ (n - 1)%nat); nia.
  - apply (Nat.div_unique _ _ _ (m mod n - 1)%nat); nia.
Qed.

Lemma A3_batch_trace_ok n drop l :
  (0 < n)%nat -> batch_trace n drop (l, End) = (ref_chunks n drop l, End).
Proof.
  intros Hn. unfold batch_trace. cbn [fst snd].
  replace (Nat.max n 1) with n by lia.
  rewrite (A3_chunks_fuel_ok n Hn) by lia.
  f_equal. rewrite A3_ref_chunks_eq. unfold A3_nb. destruct drop.
  - apply app_nil_r.
  - rewrite (A3_nb_nodrop n (length l) Hn). cbv zeta.
    set (q := (length l / n)%nat).
    assert (HLr : length (skipn (q * n) l) = (length l - q * n)%nat) by apply skipn_length.
    pose proof (Nat.div_mod (length l) n ltac:(lia)) as HM.
    pose proof (Nat.mod_upper_bound (length l) n ltac:(lia)) as HU. fold q in HM.
    destruct (Nat.eqb_spec (length l - q * n) 0) as [E|E].
    + destruct (skipn (q * n) l); [apply app_nil_r|]. simpl in HLr. lia.
    + rewrite seq_S, map_app. f_equal. cbn [map Nat.add]. unfold A3_chunk.
      rewrite (firstn_all2 (n:=n)) by nia.
      destruct (skipn (q * n) l); [simpl in HLr; lia|reflexivity].
Qed.

Lemma A3_batch_collect_ext g g' :
  (forall i, g i = g' i) ->
  forall k s f dr, batch_collect g s k f dr = batch_collect g' s k f dr.
Proof.
  intros H. induction k as [|k IH]; intros s f dr; simpl; auto.
  rewrite H. destruct (g' s).
  - rewrite IH. reflexivity.
  - rewrite IH. reflexivity.
Qed.

Lemma A3_bc_S g s k f dr :
  batch_collect g s (S k) f dr =
  match g s with
  | Ok v => do r <- batch_collect g (s + 1) k false dr; Ok (v :: r)
  | Err e => if isa (ecl e) EIndex
             then (if f || dr then Err e else batch_collect g (s + 1) k false dr)
             else Err e
  end.
Proof. reflexivity. Qed.

Lemma A3_bc_nodrop_rest (l : list val) : forall k s,
  batch_collect (py_nth l) (Z.of_nat s) k false false = Ok (firstn k (skipn s l)).
Proof.
  induction k as [|k IH]; intros s.
  - reflexivity.
  - rewrite A3_bc_S, A3_py_nth_nat.
    replace (Z.of_nat s + 1) with (Z.of_nat (S s)) by lia. rewrite IH.
    destruct (nth_error l s) as [v|] eqn:E.
    + rewrite (A3_skipn_cons _ _ _ E). reflexivity.
    + apply nth_error_None in E.
      replace (isa (ecl (lib EIndex)) EIndex) with true by reflexivity. cbn [orb].
      rewrite !skipn_all2 by lia. rewrite !firstn_nil. reflexivity.
Qed.

Lemma A3_bc_nodrop_first (l : list val) k s :
  (0 < k)%nat ->
  batch_collect (py_nth l) (Z.of_nat s) k true false =
  if (s <? length l)%nat then Ok (firstn k (skipn s l)) else Err (lib EIndex).
Proof.
  intros Hk. destruct k as [|k]; [lia|].
  rewrite A3_bc_S, A3_py_nth_nat.
  replace (Z.of_nat s + 1) with (Z.of_nat (S s)) by lia. rewrite A3_bc_nodrop_rest.
  destruct (nth_error l s) as [v|] eqn:E.
  - assert (s < length l)%nat by (apply nth_error_Some; congruence).
    destruct (Nat.ltb_spec s (length l)); [|lia].
    rewrite (A3_skipn_cons _ _ _ E). reflexivity.
  - apply nth_error_None in E. destruct (Nat.ltb_spec s (length l)); [lia|]. reflexivity.
Qed.

Lemma A3_bc_drop (l : list val) : forall k s first,
  batch_collect (py_nth l) (Z.of_nat s) k first true =
  if (k =? 0)%nat || (s + k <=? length l)%nat
  then Ok (firstn k (skipn s l)) else Err (lib EIndex).
Proof.
  induction k as [|k IH]; intros s first.
  - reflexivity.
  - rewrite A3_bc_S, A3_py_nth_nat.
    replace (Z.of_nat s + 1) with (Z.of_nat (S s)) by lia. rewrite IH.
    destruct (nth_error l s) as [v|] eqn:E.
    + assert (s < length l)%nat by (apply nth_error_Some; congruence).
      rewrite (A3_skipn_cons _ _ _ E).
      destruct k as [|k].
      * cbn [Nat.eqb orb bind]. destruct (Nat.leb_spec (s + 1) (length l)); [|lia]. reflexivity.
      * cbn [Nat.eqb orb].
        destruct (Nat.leb_spec (S s + S k) (length l)), (Nat.leb_spec (s + S (S k)) (length l));
          try lia; reflexivity.
    + apply nth_error_None in E. cbn [Nat.eqb orb].
      destruct (Nat.leb_spec (s + S k) (length l)); [lia|].
      rewrite orb_true_r. reflexivity.
Qed.

Lemma A3_nb_lt n m j drop :
  (0 < n)%nat ->
  (j <? A3_nb n drop m)%nat = if drop then (j * n + n <=? m)%nat else (j * n <? m)%nat.
Proof.
  intros Hn. unfold A3_nb. destruct drop.
  - pose proof (Nat.mul_div_le m n ltac:(lia)) as H1.
    destruct (Nat.ltb_spec j (m / n)), (Nat.leb_spec (j * n + n) m); auto; exfalso.
    + assert (n * S j <= n * (m / n))%nat by (apply Nat.mul_le_mono_l; lia). nia.
    + assert (S j <= m / n)%nat by (apply Nat.div_le_lower_bound; nia). lia.
  - pose proof (Nat.mul_div_le (m + n - 1) n ltac:(lia)) as H1.
    destruct (Nat.ltb_spec j ((m + n - 1) / n)), (Nat.ltb_spec (j * n) m); auto; exfalso.
    + assert (n * S j <= n * ((m + n - 1) / n))%nat by (apply Nat.mul_le_mono_l; lia). nia.
    + assert (S j <= (m + n - 1) / n)%nat by (apply Nat.div_le_lower_bound; nia). lia.
Qed.

Lemma A3_get_i_batch n drop d i :
  get_i (DBatch n drop d) i =
  do j <- norm_neg i (len_ (DBatch n drop d));
  do b <- batch_collect (get_i d) (j * Z.of_nat n) n true drop; Ok (VList b).
Proof. reflexivity. Qed.

Lemma A3_len_batch n drop d :
  len_ (DBatch n drop d) =
  do m <- len_ d; if (n =? 0)%nat then Err (lib EZeroDiv) else Ok (A3_nb n drop m).
Proof. reflexivity. Qed.

Lemma A3_batch_get (l : list val) n drop j :
  (0 < n)%nat -> 0 <= j ->
  (do b <- batch_collect (py_nth l) (j * Z.of_nat n) n true drop; Ok (VList b)) =
  py_nth (map (A3_chunk n l) (seq 0 (A3_nb n drop (length l)))) j.
Proof.
  intros Hn Hj.
  rewrite A3_py_nth_map. rewrite (A3_py_nth_nonneg (seq _ _)) by lia.
  rewrite A3_py_nth_nat, A3_nth_error_seq.
  replace (j * Z.of_nat n) with (Z.of_nat (Z.to_nat j * n)) by lia.
  set (j' := Z.to_nat j).
  rewrite (A3_nb_lt n (length l) j' drop Hn).
  destruct drop.
  - rewrite A3_bc_drop.
    destruct (Nat.eqb_spec n 0); [lia|]. cbn [orb].
    destruct (j' * n + n <=? length l)%nat; reflexivity.
  - rewrite A3_bc_nodrop_first by lia.
    destruct (j' * n <? length l)%nat; reflexivity.
Qed.

Lemma stage_batch n drop d : stage_ok d -> stage_ok (DBatch n drop d).
Proof.
  intros HS HW t HT. simpl in HW, HT.
  destruct (Nat.eqb_spec n 0) as [En|En]; [discriminate|].
  destruct (tbl d) as [t0|] eqn:ET; simpl in HT; [|discriminate].
  inversion HT; subst t; clear HT.
  pose proof (HS HW t0 ET) as HA.
  assert (Hn : (0 < n)%nat) by lia.
  assert (HLEN : length (nokey (ref_chunks n drop (vals t0))) = A3_nb n drop (length t0)).
  { rewrite A3_length_nokey, A3_ref_chunks_eq, map_length, seq_length, A3_length_vals. reflexivity. }
  constructor.
  - cbn [iter_]. rewrite (ag_iter _ _ HA), A3_batch_trace_ok by lia.
    rewrite A3_vals_nokey. reflexivity.
  - cbn [keyedb]. discriminate.
  - intros m Hm. rewrite HLEN. rewrite A3_len_batch in Hm.
    destruct (len_ d) as [m0|] eqn:EL; cbn [bind] in Hm; [|discriminate].
    destruct (Nat.eqb_spec n 0); [discriminate|]. inversion Hm.
    rewrite (ag_len _ _ HA _ EL). reflexivity.
  - intros HI HK. cbn [indexable ikeyed] in HI, HK.
    destruct (ag_idx _ _ HA HI HK) as [HL HG].
    assert (HLB : len_ (DBatch n drop d) = Ok (A3_nb n drop (length t0))).
    { rewrite A3_len_batch, HL. cbn [bind]. destruct (Nat.eqb_spec n 0); [lia|]. reflexivity. }
    rewrite HLEN. split; [exact HLB|].
    intros i. rewrite A3_get_i_batch, HLB, A3_vals_nokey.
    rewrite (A3_py_nth_norm2 (ref_chunks n drop (vals t0))).
    rewrite A3_ref_chunks_eq, map_length, seq_length, A3_length_vals.
    apply A3_bind_norm_ext. intros j Hj.
    rewrite (A3_batch_collect_ext _ _ HG).
    rewrite <- (A3_length_vals t0). apply A3_batch_get; auto.
  - cbn [keys_]. discriminate.
  - cbn [keys_]. discriminate.
Qed.
