(* RefLemmas_A3.v - per-stage agreement lemmas for Concat, Zip, Batch, Unbatch, Items. *)
From Coq Require Import String.
From Coq Require Import List Arith ZArith Bool Lia ZifyBool ZifyNat.
Require Import LD.Base LD.PySlice LD.Pipeline LD.Ref.
Import ListNotations.
Open Scope Z_scope.

(* ================================================================== helpers *)

(* ---------- py_nth ---------- *)
Lemma A3_py_nth_nat {A} (l : list A) (j : nat) :
  py_nth l (Z.of_nat j) = match nth_error l j with Some a => Ok a | None => Err (lib EIndex) end.
Proof.
  unfold py_nth.
  destruct (Z.of_nat j <? 0) eqn:E1; [lia|].
  destruct ((Z.of_nat j <? 0) || (Z.of_nat (length l) <=? Z.of_nat j)) eqn:E2.
  - assert (H : (length l <= j)%nat) by lia.
    apply nth_error_None in H. now rewrite H.
  - now rewrite Nat2Z.id.
Qed.

Lemma A3_py_nth_nonneg {A} (l : list A) (i : Z) :
  0 <= i -> py_nth l i = py_nth l (Z.of_nat (Z.to_nat i)).
Proof. intros H. now rewrite Z2Nat.id. Qed.

Lemma A3_py_nth_neg {A} (l : list A) (i : Z) :
  i < 0 ->
  py_nth l i = if i + Z.of_nat (length l) <? 0 then Err (lib EIndex)
               else py_nth l (i + Z.of_nat (length l)).
Proof.
  intros H. unfold py_nth.
  destruct (i <? 0) eqn:E1; [|lia].
  destruct (i + Z.of_nat (length l) <? 0) eqn:E2; cbn [orb]; auto.
  rewrite E2. reflexivity.
Qed.

Lemma A3_py_nth_oob {A} (l : list A) (i : Z) :
  Z.of_nat (length l) <= i -> py_nth l i = Err (lib EIndex).
Proof.
  intros H. unfold py_nth.
  destruct (i <? 0) eqn:E1; [lia|].
  destruct ((i <? 0) || (Z.of_nat (length l) <=? i)) eqn:E2; auto. lia.
Qed.

Lemma A3_py_nth_in {A} (l : list A) (i : Z) :
  0 <= i < Z.of_nat (length l) ->
  exists a, nth_error l (Z.to_nat i) = Some a /\ py_nth l i = Ok a.
Proof.
  intros H. rewrite A3_py_nth_nonneg by lia. rewrite A3_py_nth_nat.
  destruct (nth_error l (Z.to_nat i)) eqn:E.
  - eauto.
  - apply nth_error_None in E. lia.
Qed.

Lemma A3_py_nth_app_l {A} (a b : list A) (i : Z) :
  0 <= i < Z.of_nat (length a) -> py_nth (a ++ b) i = py_nth a i.
Proof.
  intros H. rewrite (A3_py_nth_nonneg (a ++ b)), (A3_py_nth_nonneg a) by lia.
  rewrite !A3_py_nth_nat. rewrite nth_error_app1 by lia. reflexivity.
Qed.

Lemma A3_py_nth_app_r {A} (a b : list A) (i : Z) :
  Z.of_nat (length a) <= i -> py_nth (a ++ b) i = py_nth b (i - Z.of_nat (length a)).
Proof.
  intros H. rewrite (A3_py_nth_nonneg (a ++ b)), (A3_py_nth_nonneg b) by lia.
  rewrite !A3_py_nth_nat. rewrite nth_error_app2 by lia.
  replace (Z.to_nat (i - Z.of_nat (length a))) with (Z.to_nat i - length a)%nat by lia.
  reflexivity.
Qed.

Lemma A3_py_nth_map {A B} (f : A -> B) (l : list A) (i : Z) :
  py_nth (map f l) i = do x <- py_nth l i; Ok (f x).
Proof.
  unfold py_nth. rewrite map_length.
  destruct ((_ <? 0) || _); simpl; auto.
  rewrite nth_error_map. destruct (nth_error l _); reflexivity.
Qed.

(* py_nth at any integer, reduced to the non-negative case *)
Lemma A3_py_nth_norm {A} (l : list A) (i : Z) :
  py_nth l i =
  do j <- norm_neg i (Ok (length l)); if Z.of_nat (length l) <=? j then Err (lib EIndex) else py_nth l j.
Proof.
  unfold norm_neg. destruct (i <? 0) eqn:E1; simpl.
  - rewrite A3_py_nth_neg by lia.
    destruct (i + Z.of_nat (length l) <? 0) eqn:E2; simpl; auto.
    destruct (Z.of_nat (length l) <=? i + Z.of_nat (length l)) eqn:E3; auto. lia.
  - destruct (Z.of_nat (length l) <=? i) eqn:E3; auto.
    apply A3_py_nth_oob. lia.
Qed.

(* ---------- omapM / Forall2 ---------- *)
Lemma A3_omapM_Forall2 {A B} (f : A -> option B) (l : list A) (r : list B) :
  omapM f l = Some r -> Forall2 (fun a b => f a = Some b) l r.
Proof.
  revert r. induction l as [|a l IH]; simpl; intros r H.
  - inversion H. constructor.
  - destruct (f a) eqn:E; simpl in H; [|discriminate].
    destruct (omapM f l) eqn:E2; simpl in H; [|discriminate].
    inversion H; subst. constructor; auto.
Qed.

Lemma A3_Forall2_length {A B} (R : A -> B -> Prop) l r : Forall2 R l r -> length l = length r.
Proof. induction 1; simpl; auto. Qed.

Lemma A3_parts_agree (l : list ds) (ts : list tab) :
  Forall stage_ok l -> forallb wfb l = true -> omapM tbl l = Some ts ->
  Forall2 agrees l ts.
Proof.
  intros HF HW HT. apply A3_omapM_Forall2 in HT.
  induction HT; constructor.
  - inversion HF; subst. simpl in HW. apply andb_true_iff in HW as [HW1 HW2].
    apply H2; auto.
  - inversion HF; subst. simpl in HW. apply andb_true_iff in HW as [HW1 HW2]. auto.
Qed.

(* ---------- vals / pairs / nokey ---------- *)
Lemma A3_vals_nokey vs : vals (nokey vs) = vs.
Proof. unfold vals, nokey. rewrite map_map. simpl. apply map_id. Qed.

Lemma A3_length_nokey vs : length (nokey vs) = length vs.
Proof. unfold nokey. apply map_length. Qed.

Lemma A3_vals_concat ts : vals (concat ts) = concat (map vals ts).
Proof. unfold vals. apply concat_map. Qed.

Lemma A3_pairs_concat ts : pairs (concat ts) = concat (map pairs ts).
Proof. unfold pairs. apply concat_map. Qed.

Lemma A3_length_vals t : length (vals t) = length t.
Proof. apply map_length. Qed.

(* ---------- concat_traces ---------- *)
Lemma A3_concat_traces_End (xs : list (list val)) :
  concat_traces (map (fun x => (x, End)) xs) = (concat xs, End).
Proof.
  induction xs as [|x xs IH]; simpl; auto. rewrite IH. reflexivity.
Qed.

(* ---------- sum_res ---------- *)
Lemma A3_sum_res_Ok (ns : list nat) :
  sum_res (map Ok ns) = Ok (fold_right Nat.add 0%nat ns).
Proof. induction ns as [|n ns IH]; simpl; auto. rewrite IH. reflexivity. Qed.

Lemma A3_length_concat {A} (ls : list (list A)) :
  length (concat ls) = fold_right Nat.add 0%nat (map (@length A) ls).
Proof. induction ls; simpl; auto. rewrite app_length. congruence. Qed.

(* ---------- mapM ---------- *)
Lemma A3_mapM_Forall2 {A B} (f : A -> res B) (l : list A) (r : list B) :
  mapM f l = Ok r -> Forall2 (fun a b => f a = Ok b) l r.
Proof.
  revert r. induction l as [|a l IH]; simpl; intros r H.
  - inversion H. constructor.
  - destruct (f a) eqn:E; simpl in H; [|discriminate].
    destruct (mapM f l) eqn:E2; simpl in H; [|discriminate].
    inversion H; subst. constructor; auto.
Qed.


(* ---------- inb / nodupb / assoc / functional ---------- *)
Lemma A3_inb_In k ks : inb k ks = true <-> In k ks.
Proof.
  unfold inb. rewrite existsb_exists. split.
  - intros [x [H1 H2]]. apply String.eqb_eq in H2. now subst.
  - intros H. exists k. split; auto. apply String.eqb_refl.
Qed.

Lemma A3_nodupb_NoDup ks : nodupb ks = true -> NoDup ks.
Proof.
  induction ks as [|k ks IH]; simpl; intros H; constructor.
  - apply andb_true_iff in H as [H _]. intros HI. apply A3_inb_In in HI. rewrite HI in H. discriminate.
  - apply andb_true_iff in H as [_ H]. auto.
Qed.

Lemma A3_NoDup_functional (t : tab) : NoDup (map fst t) -> functional t.
Proof.
  induction t as [|[k0 v0] t IH]; simpl; intros H k v v' H1 H2.
  - destruct H1.
  - inversion H; subst.
    destruct H1 as [H1|H1], H2 as [H2|H2].
    + congruence.
    + inversion H1; subst. exfalso. apply H4. apply (in_map fst) in H2. exact H2.
    + inversion H2; subst. exfalso. apply H4. apply (in_map fst) in H1. exact H1.
    + eapply IH; eauto.
Qed.

Lemma A3_assoc_app k (a b : tab) :
  assoc k (a ++ b) = match assoc k a with Some v => Some v | None => assoc k b end.
Proof.
  unfold assoc. induction a as [|[k0 v0] a IH]; simpl; auto.
  destruct (String.eqb k k0); simpl; auto.
Qed.

Lemma A3_assoc_notin k (t : tab) : inb k (map fst t) = false -> assoc k t = None.
Proof.
  unfold assoc, inb. induction t as [|[k0 v0] t IH]; simpl; auto.
  destruct (String.eqb k k0); simpl; [discriminate|auto].
Qed.

Lemma A3_assoc_in k (t : tab) : inb k (map fst t) = true -> exists v, assoc k t = Some v.
Proof.
  unfold assoc, inb. induction t as [|[k0 v0] t IH]; simpl; [discriminate|].
  destruct (String.eqb k k0); simpl; eauto.
Qed.

Lemma A3_functional_map (g : key -> val -> val) (t : tab) :
  functional t -> functional (map (fun kv => (fst kv, g (fst kv) (snd kv))) t).
Proof.
  intros F k v v' H1 H2.
  apply in_map_iff in H1 as [[k1 v1] [E1 I1]].
  apply in_map_iff in H2 as [[k2 v2] [E2 I2]].
  simpl in *. inversion E1; inversion E2; subst. subst.
  rewrite (F _ _ _ I1 I2). reflexivity.
Qed.
