From Coq Require Import List Arith Bool Lia ZifyBool ZifyNat.
Import ListNotations.
Require Import LD.Pool LD.PoolProofs.

Fixpoint oks_before (l : list sev) : list nat :=
  match l with SOk v :: r => v :: oks_before r | _ => [] end.

Definition held (p : ppc) : list nat :=
  match p with P2 v | P3 _ v | PY v | P4 v => [v] | _ => [] end.
Definition waiting (p : ppc) : option nat :=
  match p with P3 id _ | P6 id => Some id | _ => None end.
Definition closed_pc (p : ppc) : bool :=
  match p with PExit Closed | PEnd Closed => true | _ => false end.

Section S.
Variable B W : nat.
Variable K : option nat.
Variable fn : nat -> tres.
Variable src0 : list sev.
Hypothesis Bpos : 1 <= B.
Hypothesis Wpos : 1 <= W.
Notation step := (step B W K fn).

Definition res_ok (t : task) (x : nat) : Prop := fn (targ t) = ROk x.

Record OInv (s : st) : Prop := {
  O_args : match pc s with
           | PTerm | PExit _ | PEnd _ => exists rest, map targ (tasks s) ++ rest = oks_before src0
           | _ => map targ (tasks s) ++ held (pc s) ++ oks_before (src s) = oks_before src0
           end;
  O_done : forall id t r, nth_error (tasks s) id = Some t -> tst t = Done r -> r = fn (targ t);
  O_deliv : Forall2 res_ok (firstn (length (delivered s)) (tasks s)) (delivered s);
  O_dlen : length (delivered s) <= length (tasks s);
  O_qh : match waiting (pc s) with
         | Some id => id = length (delivered s) /\ qh s = S id /\ id < length (tasks s)
         | None => match pc s with
                   | PTerm | PExit _ | PEnd _ => length (delivered s) <= qh s <= length (tasks s)
                   | _ => qh s = length (delivered s)
                   end
         end;
  O_B : match pc s with
        | P3 _ _ | PY _ | P4 _ => length (tasks s) - qh s + 1 <= B
        | _ => length (tasks s) - qh s <= B
        end;
  O_pull : match pc s with
           | PTerm | PExit _ | PEnd _ => pulled s <= length (tasks s) + 1
           | _ => pulled s = length (tasks s) + length (held (pc s))
           end;
  O_nocancel : closed_pc (pc s) = false -> forall t, In t (tasks s) -> tst t <> Cancelled;
}.

Lemma oinv_init : OInv (init src0).
Proof. constructor; simpl; intros; auto; try lia; try contradiction.
  destruct id; discriminate. Qed.

Ltac inv_step :=
  repeat match goal with
  | H : Some _ = Some _ |- _ => inversion H; subst; clear H
  | H : None = Some _ |- _ => discriminate
  | H : context [if ?b then _ else _] |- _ => destruct b eqn:?
  | H : context [match ?x with _ => _ end] |- _ => destruct x eqn:?
  end.

Lemma firstn_upd l i s n : firstn n (upd l i s) = upd (firstn n l) i s.
Proof. revert l i; induction n as [|n IH]; intros [|a r] [|i]; simpl; auto; f_equal; auto. Qed.

Lemma forall2_res_upd l i s d : Forall2 res_ok l d -> Forall2 res_ok (upd l i s) d.
Proof. intros H. revert i. induction H; intros [|i]; simpl; constructor; auto. Qed.

Lemma in_upd l i s t : In t (upd l i s) -> In t l \/ tst t = s.
Proof. revert i; induction l as [|a r IH]; intros [|i]; simpl; intros H; auto.
  - destruct H as [<-|H]; auto.
  - destruct H as [<-|H]; auto. destruct (IH _ H); auto. Qed.

Lemma nth_upd_cases l i j s t : nth_error (upd l i s) j = Some t ->
  (i = j /\ tst t = s /\ exists t0, nth_error l j = Some t0 /\ targ t0 = targ t) \/ (nth_error l j = Some t).
Proof.
  revert i j; induction l as [|a r IH]; intros [|i] [|j]; simpl; intros H; try discriminate; auto.
  - inversion H; subst. left. repeat split; auto. exists a; auto.
  - destruct (IH _ _ H) as [(E & E2 & t0 & E3 & E4)|E]; auto. left. subst. repeat split; auto. exists t0; auto.
Qed.

Lemma firstn_app_le {A} (a b : list A) n : n <= length a -> firstn n (a ++ b) = firstn n a.
Proof. intros. rewrite firstn_app. replace (n - length a) with 0 by lia. simpl. apply app_nil_r. Qed.

Lemma firstn_S_nth {A} (l : list A) n x : nth_error l n = Some x -> firstn (S n) l = firstn n l ++ [x].
Proof. revert n; induction l as [|a r IH]; intros [|n] H; simpl in *; try discriminate.
  - inversion H; auto. - f_equal; auto. Qed.

Lemma in_cancel l f t : In t (cancel_from l f) -> In t l \/ tst t = Cancelled.
Proof. revert f; induction l as [|a r IH]; intros [|f]; simpl; intros H; auto.
  - destruct H as [<-|H]. destruct (is_pending a); auto. destruct (IH _ H); auto.
  - destruct H as [<-|H]; auto. destruct (IH _ H); auto. Qed.

Lemma nth_cancel l f j t : nth_error (cancel_from l f) j = Some t ->
  nth_error l j = Some t \/ (tst t = Cancelled /\ exists t0, nth_error l j = Some t0 /\ targ t0 = targ t).
Proof. revert f j; induction l as [|a r IH]; intros [|f] [|j]; simpl; intros H; try discriminate; auto.
  - inversion H; subst. destruct (is_pending a); auto. right. split; auto. exists a; auto.
  - eapply IH; eauto. - eapply IH; eauto. Qed.

Lemma firstn_cancel l f n : n <= f -> firstn n (cancel_from l f) = firstn n l.
Proof. revert l f; induction n as [|n IH]; intros [|a r] [|f] H; simpl; auto; try lia. f_equal. apply IH. lia. Qed.

Lemma nth_app_task ts (x : task) id t : nth_error (ts ++ [x]) id = Some t -> nth_error ts id = Some t \/ t = x.
Proof. intros H. destruct (Nat.lt_ge_cases id (length ts)).
  - rewrite nth_error_app1 in H by lia. auto.
  - rewrite nth_error_app2 in H by lia. destruct (id - length ts) as [|k]; simpl in H. inversion H; auto. destruct k; discriminate. Qed.

Lemma deliver_ext ts dl id t x : Forall2 res_ok (firstn (length dl) ts) dl -> id = length dl ->
  nth_error ts id = Some t -> fn (targ t) = ROk x -> Forall2 res_ok (firstn (length dl + 1) ts) (dl ++ [x]).
Proof. intros F -> N R. rewrite Nat.add_1_r. rewrite (firstn_S_nth _ _ _ N). apply Forall2_app; auto. Qed.

Lemma stat_some ts id r : stat ts id = Some r -> exists t, nth_error ts id = Some t /\ tst t = r.
Proof. unfold stat. destruct (nth_error ts id); simpl; intros H; inversion H; eauto. Qed.

Lemma oinv_step s t s' : OInv s -> step s t = Some s' -> OInv s'.
Proof.
  intros [Oa Od Ov Ol Oq Ob Op On] Hs. destruct s as [sr ts q p dl pl]. simpl in *.
  destruct t; simpl in Hs.
  - (* consumer *)
    unfold cstep, set_pc in Hs; simpl in Hs.
    destruct p; simpl in *; inv_step; constructor; simpl in *; intros;
      rewrite ?app_length, ?map_app, ?cancel_length, ?cancel_targs in *; simpl in *;
      try (rewrite <- ?app_assoc in *; simpl in *; assumption);
      try lia; eauto.
    all: try (match goal with H : _ = SOk _ :: _ |- _ => rewrite H in * | H : _ = SFail _ :: _ |- _ => rewrite H in * | H : _ = @nil sev |- _ => rewrite H in * end; simpl in *; rewrite <- ?app_assoc in *; simpl in *; try assumption; try lia).
    all: try (match goal with H : stat _ _ = Some _ |- _ => destruct (stat_some _ _ _ H) as (tk & Hn & Ht) end).
    all: try (destruct Oq as (E1 & E2 & E3); eapply deliver_ext; eauto; symmetry; eapply Od; eauto; fail).
    all: try (eexists; eassumption).
    all: try (eexists; rewrite <- ?app_assoc; simpl; eassumption).
    all: try (match goal with H : nth_error (_ ++ [_]) _ = Some _ |- _ => destruct (nth_app_task _ _ _ _ H) as [?| ->]; simpl in *; eauto; try discriminate end).
    all: try (rewrite firstn_app_le by lia; assumption).
    all: try (match goal with H : In _ (_ ++ [_]) |- _ => apply in_app_or in H; destruct H as [H|H]; [auto| destruct H as [<-|H]; [simpl; discriminate | destruct H]] end).
    all: try (match goal with H : nth_error (cancel_from _ _) _ = Some _ |- _ => destruct (nth_cancel _ _ _ _ H) as [?|(E1 & _)]; eauto; congruence end).
    all: try (rewrite firstn_cancel by lia; assumption).
    all: try (destruct Oq as (? & ? & ?); subst; lia).
    all: try (destruct Oq as (? & ? & ?); subst; repeat split; lia).
  - (* start *)
    unfold wstart in Hs; simpl in Hs.
    destruct (started _ && _); [|discriminate].
    destruct (first_pending ts) as [n|] eqn:Hfp; [|discriminate]. inversion Hs; subst; clear Hs.
    destruct (first_pending_spec _ _ Hfp) as (tk & Hn & Hp).
    constructor; simpl in *; rewrite ?upd_length, ?upd_targs, ?firstn_upd in *; auto.
    + intros id t r H1 H2. destruct (nth_upd_cases _ _ _ _ _ H1) as [(E & E2 & _)|E]; eauto. congruence.
    + apply forall2_res_upd; auto.
    + intros Hc t Hin. destruct (in_upd _ _ _ _ Hin) as [E|E]; auto. congruence.
  - (* finish *)
    unfold wfinish in Hs; simpl in Hs.
    destruct (nth_error ts id) as [t0|] eqn:Hn; [|discriminate].
    destruct (tst t0) eqn:Ht0; try discriminate. inversion Hs; subst; clear Hs.
    constructor; simpl in *; rewrite ?upd_length, ?upd_targs, ?firstn_upd in *; auto.
    + intros id0 t1 r H1 H2. destruct (nth_upd_cases _ _ _ _ _ H1) as [(E & E2 & t2 & E3 & E4)|E]; eauto.
      subst. rewrite E2 in H2. inversion H2; subst. rewrite Hn in E3. inversion E3; subst. congruence.
    + apply forall2_res_upd; auto.
    + intros Hc t1 Hin. destruct (in_upd _ _ _ _ Hin) as [E|E]; auto. congruence.
Qed.

Lemma oinv_reach s : reach B W K fn (init src0) s -> OInv s.
Proof. induction 1; eauto using oinv_init, oinv_step. Qed.

Lemma res_ok_map l d : Forall2 res_ok l d -> Forall2 (fun a x => fn a = ROk x) (map targ l) d.
Proof. induction 1; simpl; constructor; auto. Qed.

(* C04 (pool): what has been delivered is exactly fn applied, in order, to a prefix of the source *)
Theorem pool_delivered_in_order s : reach B W K fn (init src0) s ->
  exists args rest, oks_before src0 = args ++ rest /\ Forall2 (fun a x => fn a = ROk x) args (delivered s).
Proof.
  intros H. apply oinv_reach in H. destruct H as [Oa _ Ov Ol _ _ _ _].
  assert (P : exists rest, map targ (tasks s) ++ rest = oks_before src0).
  { destruct (pc s); eauto. }
  destruct P as [rest P].
  exists (map targ (firstn (length (delivered s)) (tasks s))),
         (map targ (skipn (length (delivered s)) (tasks s)) ++ rest).
  split.
  - rewrite <- P. rewrite app_assoc. rewrite <- map_app. rewrite firstn_skipn. reflexivity.
  - apply res_ok_map; assumption.
Qed.

(* C07 (pool) *)
Theorem pool_started_bound s : reach B W K fn (init src0) s -> length (tasks s) - qh s <= B.
Proof. intros H. apply oinv_reach in H. destruct H as [_ _ _ _ _ Ob _ _]. destruct (pc s); lia. Qed.
Theorem pool_pulled_bound s : reach B W K fn (init src0) s -> pulled s <= length (tasks s) + 1.
Proof. intros H. apply oinv_reach in H. destruct H as [_ _ _ _ _ _ Op _].
  destruct (pc s); simpl in *; lia. Qed.
End S.

Print Assumptions pool_delivered_in_order.
