(* PropsA.v - the C01/C02/C03 statements derived from tbl_agrees in the form the properties are worded. *)
From Coq Require Import String.
From Coq Require Import List Arith ZArith Bool Lia ZifyBool ZifyNat.
Require Import LD.Base LD.PySlice LD.Pipeline LD.Ref LD.RefTheorem.
Require LD.RefLemmas_A1.
Import ListNotations.
Open Scope Z_scope.

(* ---- Python indexing facts ---- *)
Lemma py_nth_in_range {A} (l : list A) (i : Z) :
  0 <= i < Z.of_nat (length l) ->
  exists a, nth_error l (Z.to_nat i) = Some a /\ py_nth l i = Ok a /\ py_nth l (i - Z.of_nat (length l)) = Ok a.
Proof.
  intros Hi. destruct (nth_error l (Z.to_nat i)) as [a|] eqn:E.
  - exists a. split; [reflexivity|]. unfold py_nth. split.
    + replace (i <? 0) with false by lia. cbn iota.
      replace ((i <? 0) || (Z.of_nat (length l) <=? i)) with false by lia. rewrite E. reflexivity.
    + replace (i - Z.of_nat (length l) <? 0) with true by lia. cbn iota.
      replace (i - Z.of_nat (length l) + Z.of_nat (length l)) with i by lia.
      replace ((i <? 0) || (Z.of_nat (length l) <=? i)) with false by lia. rewrite E. reflexivity.
  - apply nth_error_None in E. lia.
Qed.

Lemma py_nth_out_of_range {A} (l : list A) (i : Z) :
  i < - Z.of_nat (length l) \/ Z.of_nat (length l) <= i -> py_nth l i = Err (lib EIndex).
Proof.
  intros Hi. unfold py_nth.
  destruct (i <? 0) eqn:E.
  - replace ((i + Z.of_nat (length l) <? 0) || (Z.of_nat (length l) <=? i + Z.of_nat (length l))) with true by lia.
    reflexivity.
  - replace ((i <? 0) || (Z.of_nat (length l) <=? i)) with true by lia. reflexivity.
Qed.

(* ---- C01 ---- *)
Theorem iter_is_reference d t :
  wfb d = true -> tbl d = Some t -> iter_ false d = (vals t, End).
Proof. intros W T. apply (ag_iter _ _ (agrees_of_tbl d t W T)). Qed.

Theorem items_iter_is_reference d t :
  wfb d = true -> tbl d = Some t -> keyedb d = true -> iter_ true d = (pairs t, End).
Proof. intros W T. apply (ag_iterk _ _ (agrees_of_tbl d t W T)). Qed.

(* ---- C02 ---- *)
Theorem index_agrees d t :
  wfb d = true -> tbl d = Some t -> indexable d = true -> ikeyed d = true ->
  let n := Z.of_nat (length t) in
  len_ d = Ok (length t) /\
  (forall i, 0 <= i < n -> exists v, nth_error (vals t) (Z.to_nat i) = Some v /\
                                    get_i d i = Ok v /\ get_i d (i - n) = Ok v) /\
  (forall i, i < - n \/ n <= i -> get_i d i = Err (lib EIndex)).
Proof.
  intros W T I K n. destruct (ag_idx _ _ (agrees_of_tbl d t W T) I K) as [HL HG].
  assert (Hlen : length (vals t) = length t) by (unfold vals; apply map_length).
  split; [exact HL|]. split.
  - intros i Hi. rewrite !HG. subst n. rewrite <- Hlen in Hi |- *.
    destruct (py_nth_in_range (vals t) i Hi) as (a & E1 & E2 & E3). exists a. auto.
  - intros i Hi. rewrite HG. apply py_nth_out_of_range. subst n. rewrite Hlen. exact Hi.
Qed.

Theorem sized_len_is_count d t m :
  wfb d = true -> tbl d = Some t -> len_ d = Ok m -> m = length (fst (iter_ false d)).
Proof.
  intros W T L. pose proof (agrees_of_tbl d t W T) as A.
  rewrite (ag_iter _ _ A). simpl. unfold vals. rewrite map_length. apply (ag_len _ _ A). exact L.
Qed.

(* F15: without the premise `ikeyed` integer indexing fails although the dataset calls itself indexable *)
Definition f15_witness : ds :=
  DItems (DConcat [DDict [("a"%string, VInt 1)]; DDict [("a"%string, VInt 1)]]).
Example items_dupkeys_index_refuted :
  wfb f15_witness = true /\ indexable f15_witness = true /\ len_ f15_witness = Ok 2%nat /\
  (exists t, tbl f15_witness = Some t /\ length t = 2%nat) /\
  get_i f15_witness 0 = Err (lib EAssert).
Proof. repeat split; try reflexivity. eexists. split; reflexivity. Qed.

(* ---- C03 ---- *)
Theorem keys_aligned d t ks :
  wfb d = true -> tbl d = Some t -> keys_ d = Ok ks ->
  ks = map fst t /\ length ks = length (fst (iter_ false d)) /\
  iter_ true d = (pairs t, End) /\ iter_ false d = (vals t, End) /\
  (forall j k v, nth_error t j = Some (k, v) -> get_k d k = Ok v) /\
  (forall k, ~ In k ks -> exists e, get_k d k = Err e).
Proof.
  intros W T Hk. pose proof (agrees_of_tbl d t W T) as A.
  destruct (ag_keys _ _ A ks Hk) as (Kb & Eks & Fun & Ix & Ik).
  split; [exact Eks|]. split.
  { rewrite (ag_iter _ _ A). simpl. subst ks. unfold vals. rewrite !map_length. reflexivity. }
  split; [apply (ag_iterk _ _ A Kb)|]. split; [apply (ag_iter _ _ A)|]. split.
  - intros j k v Hj. pose proof (ag_getk _ _ A ks Hk k) as G.
    apply nth_error_In in Hj.
    rewrite (RefLemmas_A1.In_functional_assoc k v t Fun Hj) in G. exact G.
  - intros k Hn. pose proof (ag_getk _ _ A ks Hk k) as G.
    assert (E : assoc k t = None) by (apply RefLemmas_A1.assoc_None_not_In; subst ks; exact Hn).
    rewrite E in G. exact G.
Qed.

(* non-vacuity: a concrete keyed, indexable pipeline meets all premises *)
Definition demo_ds : ds :=
  DMap (fun v => match v with VInt z => Ok (VInt (z + 1)) | _ => Err (lib EType) end)
       (DSlice [2; 0]%nat (DConcat [DDict [("a"%string, VInt 1); ("b"%string, VInt 2)]; DDict [("c"%string, VInt 3)]])).
Example demo_meets_premises :
  wfb demo_ds = true /\ indexable demo_ds = true /\ ikeyed demo_ds = true /\
  tbl demo_ds = Some [("c"%string, VInt 4); ("a"%string, VInt 2)] /\ keys_ demo_ds = Ok ["c"%string; "a"%string].
Proof. repeat split; reflexivity. Qed.
