From Coq Require Import List Arith Bool Lia.
Import ListNotations.

(* ---------- model of parallel_utils.lazy_parallel_map over an abstract executor ---------- *)
Inductive sev := SOk (v : nat) | SFail (tag : nat).
Inductive tres := ROk (x : nat) | RErr (tag : nat).
Inductive tstat := Pending | Running | Done (r : tres) | Cancelled.
Record task := mkT { targ : nat; tst : tstat }.

Inductive how := Normal | Closed | Raised (tag : nat).
Inductive ppc :=
| P0 | P1 | P2 (v : nat) | P3 (id v : nat) | PY (v : nat) | P4 (v : nat)
| P5 | P6 (id : nat) | PY2 | PTerm | PExit (h : how) | PEnd (h : how).

Record st := mk {
  src : list sev; tasks : list task; qh : nat;   (* q = ids qh .. length tasks - 1 *)
  pc : ppc; delivered : list nat; pulled : nat
}.

Section Params.
Variable B W : nat.
Variable K : option nat.        (* close after K delivered examples; None = exhaust *)
Variable fn : nat -> tres.      (* the mapped function (may fail) *)

Definition init (s : list sev) : st := mk s [] 0 P0 [] 0.

Definition want_close (n : nat) : bool := match K with Some k => k <=? n | None => false end.

Fixpoint upd (l : list task) (i : nat) (s : tstat) : list task :=
  match l, i with
  | [], _ => []
  | t :: r, O => mkT (targ t) s :: r
  | t :: r, S i' => t :: upd r i' s
  end.
Definition stat (l : list task) (i : nat) : option tstat := option_map tst (nth_error l i).

Definition is_pending (t : task) := match tst t with Pending => true | _ => false end.
Definition is_running (t : task) := match tst t with Running => true | _ => false end.
Definition n_running (l : list task) : nat := length (filter is_running l).
Definition quiescent (l : list task) : bool := forallb (fun t => negb (is_pending t) && negb (is_running t)) l.

(* cancel every Pending future with id >= from *)
Fixpoint cancel_from (l : list task) (from : nat) : list task :=
  match l with
  | [] => []
  | t :: r => match from with
              | O => (if is_pending t then mkT (targ t) Cancelled else t) :: cancel_from r O
              | S f => t :: cancel_from r f
              end
  end.

Fixpoint first_pending (l : list task) : option nat :=
  match l with
  | [] => None
  | t :: r => if is_pending t then Some 0 else option_map S (first_pending r)
  end.

Inductive tid := TC | TStart | TFinish (id : nat).

Definition set_pc (s : st) (p : ppc) : st := mk (src s) (tasks s) (qh s) p (delivered s) (pulled s).

Definition cstep (s : st) : option st :=
  match pc s with
  | P0 => match K with Some 0 => None | _ => Some (set_pc s P1) end
  | P1 => match src s with
          | [] => Some (set_pc s P5)
          | SOk v :: r => Some (mk r (tasks s) (qh s) (P2 v) (delivered s) (S (pulled s)))
          | SFail t :: r => Some (mk [] (tasks s) (qh s) (PExit (Raised t)) (delivered s) (pulled s))
          end
  | P2 v => if B <=? length (tasks s) - qh s
            then Some (mk (src s) (tasks s) (S (qh s)) (P3 (qh s) v) (delivered s) (pulled s))
            else Some (set_pc s (P4 v))
  | P3 id v => match stat (tasks s) id with
               | Some (Done (ROk x)) => Some (mk (src s) (tasks s) (qh s) (PY v) (delivered s ++ [x]) (pulled s))
               | Some (Done (RErr t)) => Some (set_pc s (PExit (Raised t)))
               | _ => None
               end
  | PY v => if want_close (length (delivered s)) then Some (set_pc s PTerm) else Some (set_pc s (P4 v))
  | P4 v => Some (mk (src s) (tasks s ++ [mkT v Pending]) (qh s) P1 (delivered s) (pulled s))
  | P5 => if qh s <? length (tasks s)
          then Some (mk (src s) (tasks s) (S (qh s)) (P6 (qh s)) (delivered s) (pulled s))
          else Some (set_pc s (PExit Normal))
  | P6 id => match stat (tasks s) id with
             | Some (Done (ROk x)) => Some (mk (src s) (tasks s) (qh s) PY2 (delivered s ++ [x]) (pulled s))
             | Some (Done (RErr t)) => Some (set_pc s (PExit (Raised t)))
             | _ => None
             end
  | PY2 => if want_close (length (delivered s)) then Some (set_pc s PTerm) else Some (set_pc s P5)
  | PTerm => Some (mk (src s) (cancel_from (tasks s) (qh s)) (qh s) (PExit Closed) (delivered s) (pulled s))
  | PExit h => if quiescent (tasks s) then Some (set_pc s (PEnd h)) else None
  | PEnd _ => None
  end.

Definition started (s : st) : bool := match pc s with P0 | PEnd _ => false | _ => true end.

Definition wstart (s : st) : option st :=
  if started s && (n_running (tasks s) <? W) then
    match first_pending (tasks s) with
    | Some id => Some (mk (src s) (upd (tasks s) id Running) (qh s) (pc s) (delivered s) (pulled s))
    | None => None
    end
  else None.

Definition wfinish (s : st) (id : nat) : option st :=
  match nth_error (tasks s) id with
  | Some t => match tst t with
              | Running => Some (mk (src s) (upd (tasks s) id (Done (fn (targ t)))) (qh s) (pc s) (delivered s) (pulled s))
              | _ => None
              end
  | None => None
  end.

Definition step (s : st) (t : tid) : option st :=
  match t with TC => cstep s | TStart => wstart s | TFinish id => wfinish s id end.

Inductive reach (s0 : st) : st -> Prop :=
| reach0 : reach s0 s0
| reachS : forall s t s', reach s0 s -> step s t = Some s' -> reach s0 s'.

Fixpoint run (s : st) (sched : list tid) : st :=
  match sched with [] => s | t :: r => match step s t with Some s' => run s' r | None => run s r end end.

End Params.

(* sanity: a concrete run *)
Definition f1 (v : nat) : tres := if v =? 7 then RErr 1 else ROk (v * 10).
Definition demo := run 2 2 None f1 (init [SOk 1; SOk 2; SOk 3; SOk 4])
  (TC :: TC :: TC :: TC :: TStart :: TC :: TC :: TC :: TStart :: TFinish 1 :: TC :: TC :: TC :: TFinish 0 :: TC :: TC :: TC :: TC ::
   TStart :: TStart :: TFinish 3 :: TFinish 2 :: TC :: TC :: TC :: TC :: TC :: TC :: TC :: TC :: TC :: TC :: TC :: nil).
Eval vm_compute in (delivered demo, pc demo, pulled demo).
