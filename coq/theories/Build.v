(* Build.v - the factory methods of lazy_dataset.Dataset (what a user writes) -> stage
   descriptors of Pipeline.v, mirroring what each factory evaluates eagerly and which
   constructions it refuses.  Plus the observation language used by the tie. *)
From Coq Require Import String.
From Coq Require Import List Arith ZArith Bool Lia.
Require Import LD.Base LD.PySlice LD.Pipeline.
Import ListNotations.
Open Scope Z_scope.

(* ---- sorting (Python's sorted on a total order; stability is immaterial on (value, index)) ---- *)
Section Sort.
  Context {A : Type} (leb : A -> A -> bool).
  Fixpoint insert (x : A) (l : list A) : list A :=
    match l with
    | [] => [x]
    | y :: t => if leb x y then x :: l else y :: insert x t
    end.
  Fixpoint isort (l : list A) : list A :=
    match l with [] => [] | x :: t => insert x (isort t) end.
End Sort.

Inductive skey := KInt (z : Z) | KStr (s : string).
Definition to_skey (v : val) : res skey :=
  match v with VInt z => Ok (KInt z) | VStr s => Ok (KStr s) | _ => Err (lib EType) end.
Definition skey_cmp (a b : skey) : option comparison :=
  match a, b with
  | KInt x, KInt y => Some (x ?= y)
  | KStr s, KStr t => Some (String.compare s t)
  | _, _ => None
  end.
Definition homogeneous (l : list skey) : bool :=
  match l with
  | [] => true
  | KInt _ :: _ => forallb (fun k => match k with KInt _ => true | _ => false end) l
  | KStr _ :: _ => forallb (fun k => match k with KStr _ => true | _ => false end) l
  end.
(* (value, index) lexicographic *)
Definition ki_leb (a b : skey * nat) : bool :=
  match skey_cmp (fst a) (fst b) with
  | Some Lt => true
  | Some Eq => (snd a <=? snd b)%nat
  | _ => false
  end.
Definition sort_order (vals : list skey) (rev : bool) : list nat :=
  let tagged := combine vals (seq 0 (length vals)) in
  map snd (if rev then isort (fun a b => ki_leb b a) tagged else isort ki_leb tagged).

(* intersperse order table: sorted (( (ei+1)/len, di, ei )), fractions compared exactly *)
Definition frac_leb (a b : nat * nat * nat) : bool :=  (* (len, di, ei) *)
  let '(la, da, ea) := a in let '(lb, db, eb) := b in
  let x := (S ea * lb)%nat in let y := (S eb * la)%nat in
  if (x <? y)%nat then true else if (y <? x)%nat then false
  else if (da <? db)%nat then true else if (db <? da)%nat then false
  else (ea <=? eb)%nat.
Definition intersperse_order (lens : list nat) : list (nat * nat) :=
  let entries := concat (map (fun '(di, n) => map (fun ei => (n, di, ei)) (seq 0 n))
                             (combine (seq 0 (length lens)) lens)) in
  map (fun '(_, di, ei) => (di, ei)) (isort frac_leb entries).

(* ---- programs ---- *)
Inductive sl := SlSlice (a b c : option Z) | SlInts (l : list Z) | SlKeys (l : list key).

Inductive prog :=
| PList (vs : list val) | PListWu (vs : list val) | PDict (kvs : list (key * val))
| PMap (f : val -> res val) (p : prog)
| PParMap (f : val -> res val) (w b : nat) (p : prog)
| PFilter (q : val -> res bool) (lazy : bool) (p : prog)
| PCatch (E : list ecls) (p : prog)
| PPrefetch (w b : nat) (E : option (list ecls)) (p : prog)
| PGet (s : sl) (p : prog)
| PConcat (ps : list prog) | PIntersperse (ps : list prog) | PZip (ps : list prog) | PKeyZip (ps : list prog)
| PItems (p : prog) | PBatch (n : nat) (drop : bool) (p : prog) | PUnbatch (p : prog)
| PCycle (p : prog) | PCache (lazy : bool) (p : prog)
| PSort (kf : option (val -> res val)) (rev : bool) (p : prog)
| PShard (k i : Z) (p : prog) | PTile (r : nat) (p : prog) | PCopy (p : prog).

Definition mk_slice (s : sl) (d : ds) : res ds :=
  if negb (indexable d) then Err (lib ERuntime) else
  do n <- len_ d;
  do idx <- match s with
            | SlSlice a b c => slice_indices n a b c
            | SlInts l => fancy_indices n l
            | SlKeys l => do ks <- keys_ d; key_indices ks l
            end;
  Ok (DSlice idx d).

Definition positions_where (q : val -> res bool) (l : list val) : res (list Z) :=
  (fix go (l : list val) (i : Z) : res (list Z) :=
     match l with
     | [] => Ok []
     | v :: t => do b <- q v; do r <- go t (i + 1); Ok (if b then i :: r else r)
     end) l 0.

Definition trace_res (t : trace) : res (list val) :=
  match snd t with End => Ok (fst t) | Raised e => Err e end.

Definition all_eq_nat (l : list nat) : bool :=
  match l with [] => true | x :: t => forallb (Nat.eqb x) t end.
Definition same_key_sets (kss : list (list key)) : bool :=
  let all := concat kss in
  forallb (fun ks => forallb (fun k => inb k ks) all) kss.

Definition split_pair (kv : val) : res (key * val) :=
  match kv with VTup [VStr k; v] => Ok (k, v) | _ => Err (lib EType) end.

(* lazy_dataset.new(dataset) = from_dataset *)
Definition from_dataset (d : ds) : res ds :=
  let t := iter_ false (DItems d) in
  match snd t with
  | Raised e =>
      if isa (ecl e) EItemsND || isa (ecl e) ENotImpl
      then (do vs <- trace_res (iter_ false d); Ok (DList vs))
      else Err e
  | End =>
      do kvs <- mapM split_pair (fst t);
      if nodupb (map fst kvs) then Ok (DDict kvs) else Ok (DList (map snd kvs))
  end.

Fixpoint build (p : prog) : res ds :=
  match p with
  | PList vs => Ok (DList vs)
  | PListWu vs => Ok (DListWu vs)
  | PDict kvs => Ok (DDict kvs)
  | PMap f p => do d <- build p; Ok (DMap f d)
  | PParMap f w b p => do d <- build p; if (w =? 0)%nat then Ok (DMap f d) else Ok (DParMap f w b d)
  | PFilter q lazy p =>
      do d <- build p;
      if lazy then Ok (DFilter q d)
      else if negb (indexable d) then Err (lib ERuntime)
      else do vs <- trace_res (iter_ false d);
           do idx <- positions_where q vs;
           do _n <- len_ d;
           mk_slice (SlInts idx) d
  | PCatch E p => do d <- build p; Ok (DCatch E d)
  | PPrefetch w b E p =>
      do d <- build p;
      do _u <- (if (w =? 1)%nat then Ok tt
                else match len_ d with Ok _ => Ok tt | Err _ => Err (lib ERuntime) end);
      if (w =? 0)%nat || (b <? w)%nat then Err (lib EAssert) else Ok (DPrefetch w b E d)
  | PGet s p => do d <- build p; mk_slice s d
  | PConcat ps =>
      do dl <- mapM build ps;
      match dl with [] => Err (lib EValue) | [d] => Ok d | _ => Ok (DConcat dl) end
  | PIntersperse ps =>
      do dl <- mapM build ps;
      match dl with
      | [] => Err (lib EValue)
      | [d] => Ok d
      | _ => do lens <- mapM len_ dl;
             if forallb (fun n => (0 <? n)%nat) lens
             then Ok (DIntersperse (intersperse_order lens) dl) else Err (lib EAssert)
      end
  | PZip ps =>
      do dl <- mapM build ps;
      match dl with
      | [] => Err (lib EValue)
      | _ => do lens <- mapM len_ dl; if all_eq_nat lens then Ok (DZip dl) else Err (lib EAssert)
      end
  | PKeyZip ps =>
      do dl <- mapM build ps;
      match dl with
      | [] => Err (lib EValue)
      | [_] => Err (lib EAssert)
      | _ => do kss <- mapM keys_ dl; if same_key_sets kss then Ok (DKeyZip dl) else Err (lib EAssert)
      end
  | PItems p => do d <- build p; Ok (DItems d)
  | PBatch n drop p => do d <- build p; Ok (DBatch n drop d)
  | PUnbatch p => do d <- build p; Ok (DUnbatch d)
  | PCycle p => do d <- build p; Ok (DCycle d)
  | PCache lazy p =>
      do d <- build p;
      if lazy then (if indexable d then Ok (DCache d) else Err (lib EAssert))
      else if indexable d || ordered d then from_dataset d else Err (lib EAssert)
  | PSort kf rev p =>
      do d <- build p;
      match kf with
      | None =>
          match keys_ d with
          | Err e => if isa (ecl e) ENotImpl then Err (lib ERuntime) else Err e
          | Ok ks =>
              let sorted := if rev then isort (fun a b => String.leb b a) ks else isort String.leb ks in
              (* self[sorted]: an empty list is an (empty) integer index *)
              match sorted with [] => mk_slice (SlInts []) d | _ => mk_slice (SlKeys sorted) d end
          end
      | Some kf =>
          do vs <- trace_res (iter_ false d);
          do kvals <- mapM (fun v => do k <- kf v; to_skey k) vs;
          if negb (homogeneous kvals) then Err (lib EType)
          else mk_slice (SlInts (map Z.of_nat (sort_order kvals rev))) d
      end
  | PShard k i p =>
      do d <- build p;
      do n <- len_ d;
      do parts <- split_indices n k;
      if negb (indexable d) then Err (lib ERuntime) else
      do idx <- py_nth parts i;
      Ok (DSlice idx d)
  | PTile r p =>
      do d <- build p;
      match r with O => Err (lib EType) | 1%nat => Ok d | _ => Ok (DConcat (repeat d r)) end
  | PCopy p => build p
  end.

(* ---- observations ---- *)
Inductive obsq :=
| QIter (wk : bool) | QTake (wk : bool) (k : nat)
| QLen | QKeys | QGetI (i : Z) | QGetK (k : key) | QIndexable | QOrdered.
Inductive obsr :=
| RTrace (t : trace) | RVal (r : res val) | RNat (r : res nat) | RKeys (r : res (list key)) | RBool (b : bool)
| RRefused.     (* construction failed *)

Definition observe (d : ds) (q : obsq) : obsr :=
  match q with
  | QIter wk => RTrace (iter_ wk d)
  | QTake wk k => RTrace (match d with DCycle d' => take_cycle wk k d'
                                     | _ => let t := iter_ wk d in
                                            if (k <=? length (fst t))%nat then (firstn k (fst t), End) else t end)
  | QLen => RNat (len_ d)
  | QKeys => RKeys (keys_ d)
  | QGetI i => RVal (get_i d i)
  | QGetK k => RVal (get_k d k)
  | QIndexable => RBool (indexable d)
  | QOrdered => RBool (ordered d)
  end.

(* projection: library-raised errors (tag 0) are compared as "some error" except IndexError,
   which must stay an IndexError; user-raised ones (tag <> 0) are compared exactly *)
Definition exn_match (m i : exn) : bool :=
  if etag m =? 0 then (if ecls_eqb (ecl m) EIndex then isa (ecl i) EIndex else true) else exn_eqb m i.
Definition res_match {A} (eqb : A -> A -> bool) (m i : res A) : bool :=
  match m, i with Ok x, Ok y => eqb x y | Err e, Err f => exn_match e f | _, _ => false end.
Definition obsr_match (m i : obsr) : bool :=
  match m, i with
  | RTrace (l, e), RTrace (l', e') =>
      list_eqb val_eqb l l' && match e, e' with End, End => true | Raised x, Raised y => exn_match x y | _, _ => false end
  | RVal a, RVal b => res_match val_eqb a b
  | RNat a, RNat b => res_match Nat.eqb a b
  | RKeys a, RKeys b => res_match (list_eqb String.eqb) a b
  | RBool a, RBool b => Bool.eqb a b
  | RRefused, RRefused => true
  | _, _ => false
  end.

(* one case: a program, and a script of (query, what the implementation answered) *)
Definition case := (prog * list (obsq * obsr))%type.
Fixpoint mismatches_from (d : ds) (j : nat) (script : list (obsq * obsr)) : list (nat * obsr) :=
  match script with
  | [] => []
  | (q, r) :: t => let m := observe d q in
                   (if obsr_match m r then [] else [(j, m)]) ++ mismatches_from d (S j) t
  end.
Definition check_case (c : case) : list (nat * obsr) :=
  match build (fst c) with
  | Err _ => match snd c with [(_, RRefused)] => [] | _ => [(0%nat, RRefused)] end
  | Ok d => mismatches_from d 0 (snd c)
  end.
Fixpoint check_cases (j : nat) (cs : list case) : list (nat * list (nat * obsr)) :=
  match cs with
  | [] => []
  | c :: t => match check_case c with [] => check_cases (S j) t | m => (j, m) :: check_cases (S j) t end
  end.
