(* TraceProofs.v - Model B (Trace.v): values agree with the eager reference (A), demand-driven evaluation (B, C08),
   profiling counts (C, C20).  Standard library only; no axioms. *)
From Coq Require Import String.
From Coq Require Import List Arith ZArith Bool Lia ZifyBool ZifyNat.
Require Import LD.Base LD.Trace.
Import ListNotations.
Local Open Scope nat_scope.

(* ------------------------------------------------------------------------------------------------ *)
(* well-formedness *)

(* no LFilter / LUnbatch anywhere below: the pipeline has a length and supports random access *)
Fixpoint indexable_l (d : lds) : bool :=
  match d with
  | LSrc _ _ => true
  | LMap _ _ d' | LBatch _ _ d' | LSlice _ _ d' => indexable_l d'
  | LFilter _ _ _ | LUnbatch _ _ => false
  | LConcat _ a b | LZip _ a b => indexable_l a && indexable_l b
  end.

(* batch sizes >= 1; batches hold lists; slice indices in range of an indexable input; zip inputs indexable
   (zip needs len() of both inputs) and of equal length *)
Fixpoint lwf (d : lds) : Prop :=
  match d with
  | LSrc _ _ => True
  | LMap _ _ d' | LFilter _ _ d' => lwf d'
  | LBatch _ n d' => 1 <= n /\ lwf d'
  | LUnbatch _ d' => lwf d' /\ Forall (fun v => match v with VList _ | VTup _ => True | _ => False end) (lref d')
  | LConcat _ a b => lwf a /\ lwf b
  | LZip _ a b => lwf a /\ lwf b /\ length (lref a) = length (lref b)
                  /\ indexable_l a = true /\ indexable_l b = true
  | LSlice _ idx d' => lwf d' /\ indexable_l d' = true /\ Forall (fun i => i < length (lref d')) idx
  end.

Definition root_id (d : lds) : nat :=
  match d with
  | LSrc id _ | LMap id _ _ | LFilter id _ _ | LBatch id _ _ | LUnbatch id _ | LConcat id _ _ | LZip id _ _
  | LSlice id _ _ => id
  end.

(* the sub-pipeline whose root carries the id (first match in pre-order) *)
Fixpoint sub (id : nat) (d : lds) : option lds :=
  if Nat.eqb (root_id d) id then Some d else
  match d with
  | LSrc _ _ => None
  | LMap _ _ d' | LFilter _ _ d' | LBatch _ _ d' | LUnbatch _ d' | LSlice _ _ d' => sub id d'
  | LConcat _ a b | LZip _ a b => match sub id a with Some x => Some x | None => sub id b end
  end.

(* the shortest prefix of l containing k elements satisfying p (all of l if there are fewer; [] for k = 0) *)
Fixpoint upto_kth_pass (p : val -> bool) (k : nat) (l : list val) : list val :=
  match l with
  | [] => []
  | x :: r => match k with
              | O => []
              | S k' => x :: upto_kth_pass p (if p x then k' else k) r
              end
  end.

Definition ev_id (e : ev) : nat := match e with Fetch i | App i _ | Fail i => i end.
(* remove every event of stage r *)
Definition drop (r : nat) (l : list ev) : list ev := filter (fun e => negb (Nat.eqb (ev_id e) r)) l.

(* ------------------------------------------------------------------------------------------------ *)
(* observers are monoid homomorphisms *)

Lemma apps_of_app id a b : apps_of id (a ++ b) = apps_of id a ++ apps_of id b.
Proof. apply flat_map_app. Qed.
Lemma fetches_of_app id a b : fetches_of id (a ++ b) = fetches_of id a + fetches_of id b.
Proof. unfold fetches_of. now rewrite filter_app, app_length. Qed.
Lemma fails_of_app id a b : fails_of id (a ++ b) = fails_of id a + fails_of id b.
Proof. unfold fails_of. now rewrite filter_app, app_length. Qed.
Lemma drop_app r a b : drop r (a ++ b) = drop r a ++ drop r b.
Proof. apply filter_app. Qed.
Lemma drop_nil r : drop r [] = [].
Proof. reflexivity. Qed.
Lemma drop_fetch r : drop r [Fetch r] = [].
Proof. unfold drop; simpl. now rewrite Nat.eqb_refl. Qed.
Lemma drop_app_fetch r v : drop r [App r v; Fetch r] = [].
Proof. unfold drop; simpl. now rewrite Nat.eqb_refl. Qed.
Lemma drop_app1 r v : drop r [App r v] = [].
Proof. unfold drop; simpl. now rewrite Nat.eqb_refl. Qed.

Lemma apps_of_drop id r l : id <> r -> apps_of id (drop r l) = apps_of id l.
Proof.
  intros H. induction l as [|e l IH]; simpl; auto.
  destruct e as [i|i a|i]; simpl; destruct (Nat.eqb_spec i r); simpl; auto.
  - subst. destruct (Nat.eqb_spec r id); [congruence|]. auto.
  - now rewrite IH.
Qed.
Lemma fetches_of_drop id r l : id <> r -> fetches_of id (drop r l) = fetches_of id l.
Proof.
  intros H. unfold fetches_of. induction l as [|e l IH]; simpl; auto.
  destruct e as [i|i a|i]; simpl; destruct (Nat.eqb_spec i r); simpl; auto.
  - subst. destruct (Nat.eqb_spec r id); [congruence|]. auto.
  - destruct (Nat.eqb i id); simpl; auto.
Qed.

Lemma events_upto_cons k e v l fin : events_upto (S k) ((e, v) :: l, fin) = e ++ events_upto k (l, fin).
Proof. reflexivity. Qed.
Lemma events_upto_0 s : events_upto 0 s = [].
Proof. reflexivity. Qed.
Lemma events_upto_nil k fin : events_upto k ([], fin) = [].
Proof. unfold events_upto. simpl. now rewrite firstn_nil. Qed.
Lemma all_events_cons e v l fin : all_events ((e, v) :: l, fin) = e ++ all_events (l, fin).
Proof. unfold all_events. simpl. now rewrite app_assoc. Qed.
Lemma all_events_nil fin : all_events ([], fin) = fin.
Proof. reflexivity. Qed.
Lemma events_upto_all k s : length (fst s) <= k -> events_upto k s ++ snd s = all_events s.
Proof. intros H. unfold events_upto, all_events. now rewrite firstn_all2. Qed.

(* ------------------------------------------------------------------------------------------------ *)
(* A. values *)

Lemma skipn_skipn' {A} a b (l : list A) : skipn a (skipn b l) = skipn (b + a) l.
Proof.
  revert l. induction b as [|b IH]; intros l; simpl; auto.
  destruct l; simpl; auto. now rewrite skipn_nil.
Qed.

Lemma chunk_nth fuel n l i : 1 <= n -> length l <= fuel ->
  nth_error (chunk fuel n l) i =
  if i * n <? length l then Some (VList (firstn n (skipn (i * n) l))) else None.
Proof.
  intros Hn. revert l i. induction fuel as [|f IH]; intros l i Hl.
  - destruct l; simpl in *; [|lia]. destruct (Nat.ltb_spec (i * n) 0); [lia|]. destruct i; reflexivity.
  - destruct l as [|x r].
    + simpl. destruct (Nat.ltb_spec (i * n) 0); [lia|]. destruct i; reflexivity.
    + cbn [chunk]. destruct i as [|i].
      * simpl. reflexivity.
      * cbn [nth_error]. rewrite IH by (rewrite skipn_length; cbn [length] in *; lia).
        rewrite skipn_length, skipn_skipn'. replace (S i * n) with (n + i * n) by lia.
        destruct (Nat.ltb_spec (i * n) (length (x :: r) - n)), (Nat.ltb_spec (n + i * n) (length (x :: r)));
          auto; lia.
Qed.

Lemma skipn_nth_cons {A} (l : list A) s v : nth_error l s = Some v -> skipn s l = v :: skipn (S s) l.
Proof.
  revert l. induction s as [|s IH]; intros [|x l] H; simpl in *; try discriminate.
  - now inversion H.
  - now apply IH.
Qed.

Lemma batch_get_spec get fails (L : list val) :
  (forall j, option_map snd (get j) = nth_error L j) ->
  forall k start first,
  match batch_get get fails start k first with
  | Some (es, vs) => vs = firstn k (skipn start L) /\ (first = true -> 1 <= k -> start < length L)
  | None => first = true /\ 1 <= k /\ length L <= start
  end.
Proof.
  intros G. induction k as [|k IH]; intros start first; simpl.
  - split; auto. lia.
  - specialize (IH (S start) false). pose proof (G start) as Gs.
    destruct (get start) as [[e v]|]; simpl in Gs.
    + destruct (batch_get get fails (S start) k false) as [[es vs]|].
      * destruct IH as [-> _]. symmetry in Gs. split.
        -- rewrite (skipn_nth_cons _ _ _ Gs). reflexivity.
        -- intros _ _. apply nth_error_Some. congruence.
      * destruct IH; discriminate.
    + symmetry in Gs. apply nth_error_None in Gs. destruct first.
      * repeat split; auto; lia.
      * destruct (batch_get get fails (S start) k false) as [[es vs]|].
        -- destruct IH as [-> _]. split; [|discriminate].
           rewrite !skipn_all2 by lia. now rewrite !firstn_nil.
        -- destruct IH; discriminate.
Qed.

Lemma nth_error_combine {A B} (a : list A) (b : list B) i :
  nth_error (combine a b) i =
  match nth_error a i, nth_error b i with Some x, Some y => Some (x, y) | _, _ => None end.
Proof.
  revert b i. induction a as [|x a IH]; intros b i; simpl.
  - destruct i; reflexivity.
  - destruct b as [|y b]; simpl.
    + destruct i; simpl; auto. destruct (nth_error a i); auto.
    + destruct i; simpl; auto.
Qed.

Lemma nth_error_slice (L : list val) idx i :
  Forall (fun j => j < length L) idx ->
  nth_error (flat_map (fun j => match nth_error L j with Some v => [v] | None => [] end) idx) i =
  match nth_error idx i with Some j => nth_error L j | None => None end.
Proof.
  intros H. revert i. induction H as [|j r Hj Hr IH]; intros i; simpl.
  - destruct i; reflexivity.
  - destruct (nth_error L j) as [v|] eqn:E.
    + destruct i; simpl; auto.
    + apply nth_error_None in E. lia.
Qed.

(* random access returns the reference value at that position, and fails exactly when out of range *)
Lemma get_s_val d : lwf d -> indexable_l d = true ->
  forall i, option_map snd (get_s d i) = nth_error (lref d) i.
Proof.
  induction d as [id vs|id f d IH|id p d IH|id n d IH|id d IH|id a IHa b IHb|id a IHa b IHb|id idx d IH];
    simpl; intros W X i; try discriminate.
  - destruct (nth_error vs i); reflexivity.
  - rewrite nth_error_map, <- (IH W X i). destruct (get_s d i) as [[e v]|]; reflexivity.
  - destruct W as [Hn W]. specialize (IH W X).
    replace (Nat.max n 1) with n by lia.
    pose proof (batch_get_spec (get_s d) (fail_path d) (lref d) IH n (i * n) true) as S.
    rewrite chunk_nth by lia.
    destruct (batch_get (get_s d) (fail_path d) (i * n) n true) as [[es vs]|]; simpl.
    + destruct S as [-> S]. destruct (Nat.ltb_spec (i * n) (length (lref d))); auto.
      specialize (S eq_refl Hn). lia.
    + destruct S as (_ & _ & S). destruct (Nat.ltb_spec (i * n) (length (lref d))); auto. lia.
  - destruct W as [Wa Wb]. apply andb_true_iff in X as [Xa Xb].
    destruct (Nat.ltb_spec i (length (lref a))).
    + rewrite nth_error_app1 by lia. rewrite <- (IHa Wa Xa i). destruct (get_s a i) as [[e v]|]; reflexivity.
    + rewrite nth_error_app2 by lia. rewrite <- (IHb Wb Xb).
      destruct (get_s b (i - length (lref a))) as [[e v]|]; reflexivity.
  - destruct W as (Wa & Wb & _). apply andb_true_iff in X as [Xa Xb].
    rewrite nth_error_map, nth_error_combine, <- (IHa Wa Xa i), <- (IHb Wb Xb i).
    destruct (get_s a i) as [[ea va]|], (get_s b i) as [[eb vb]|]; reflexivity.
  - destruct W as (W & X' & R). rewrite nth_error_slice by assumption.
    destruct (nth_error idx i) as [j|]; auto.
    rewrite <- (IH W X' j). destruct (get_s d j) as [[e v]|]; reflexivity.
Qed.

Theorem get_ref d i : lwf d -> indexable_l d = true ->
  (forall e v, get_s d i = Some (e, v) -> nth_error (lref d) i = Some v) /\
  (i < length (lref d) -> exists e v, get_s d i = Some (e, v)) /\
  (length (lref d) <= i -> get_s d i = None).
Proof.
  intros W X. pose proof (get_s_val d W X i) as G. repeat split.
  - intros e v E. rewrite E in G. simpl in G. auto.
  - intros H. destruct (get_s d i) as [[e v]|]; eauto.
    simpl in G. symmetry in G. apply nth_error_None in G. lia.
  - intros H. destruct (get_s d i) as [[e v]|]; auto.
    simpl in G. symmetry in G. assert (nth_error (lref d) i <> None) by congruence.
    apply nth_error_Some in H0. lia.
Qed.

Lemma filter_segs_values id p pend l : map snd (fst (filter_segs id p pend l)) = filter p (map snd l).
Proof.
  revert pend. induction l as [|[e v] r IH]; intros pend; simpl; auto.
  destruct (p v).
  - specialize (IH []). destruct (filter_segs id p [] r) as [o f]. simpl in *. now rewrite IH.
  - apply IH.
Qed.

Lemma batch_segs_values id n ce cv l fin fuel : 1 <= n -> length cv < n -> length cv + length l <= fuel ->
  map snd (fst (batch_segs id n ce cv l fin)) = chunk fuel n (cv ++ map snd l).
Proof.
  intros Hn. revert ce cv fuel. induction l as [|[e v] r IH]; intros ce cv fuel Hc Hf; simpl.
  - rewrite app_nil_r. destruct cv as [|x cv]; simpl.
    + destruct fuel; reflexivity.
    + destruct fuel as [|fuel]; [simpl in *; lia|]. cbn [chunk].
      rewrite firstn_all2, skipn_all2 by lia. destruct fuel; reflexivity.
  - destruct (Nat.leb_spec n (S (length cv))).
    + specialize (IH [] [] (pred fuel)). destruct (batch_segs id n [] [] r fin) as [o f]. simpl in *.
      rewrite IH by lia. destruct fuel as [|fuel]; [lia|]. cbn [chunk pred].
      destruct (cv ++ v :: map snd r) eqn:E; [destruct cv; discriminate|]. rewrite <- E.
      rewrite firstn_app, skipn_app. replace (n - length cv) with 1 by lia.
      rewrite firstn_all2, skipn_all2 by lia. reflexivity.
    + rewrite (IH (ce ++ e) (cv ++ [v]) fuel) by (rewrite ?app_length; simpl in *; lia).
      now rewrite <- app_assoc.
Qed.

Lemma spread_values id e b : map snd (spread id e b) = b.
Proof. revert e. induction b; intros e; simpl; auto. now rewrite IHb. Qed.

Lemma unbatch_segs_values id pend l : map snd (fst (unbatch_segs id pend l)) = flat_map elems (map snd l).
Proof.
  revert pend. induction l as [|[e v] r IH]; intros pend; simpl; auto.
  destruct (elems v) as [|x b] eqn:E.
  - apply IH.
  - specialize (IH []). destruct (unbatch_segs id [] r) as [o f]. cbn [fst snd] in *.
    simpl. rewrite map_app, spread_values. do 2 f_equal. exact IH.
Qed.

Lemma zip_segs_values id la lb fa fb :
  map snd (fst (zip_segs id la lb fa fb)) = map (fun p => VTup [fst p; snd p]) (combine (map snd la) (map snd lb)).
Proof.
  revert lb. induction la as [|[ea va] ra IH]; intros lb; simpl; auto.
  destruct lb as [|[eb vb] rb]; simpl; auto.
  specialize (IH rb). destruct (zip_segs id ra rb fa fb) as [o f]. simpl in *. now rewrite IH.
Qed.

Lemma slice_segs_values id d idx : lwf d -> indexable_l d = true -> Forall (fun i => i < length (lref d)) idx ->
  map snd (slice_segs id (get_s d) idx) =
  flat_map (fun i => match nth_error (lref d) i with Some v => [v] | None => [] end) idx.
Proof.
  intros W X H. induction H as [|j r Hj Hr IH]; simpl; auto.
  pose proof (get_s_val d W X j) as G. destruct (get_s d j) as [[e v]|]; simpl in G.
  - rewrite <- G. simpl. now rewrite IH.
  - symmetry in G. apply nth_error_None in G. lia.
Qed.

(* A1: the event-annotated iteration yields exactly the eager reference values *)
Theorem values_ref d : lwf d -> values (iter_s d) = lref d.
Proof.
  unfold values.
  induction d as [id vs|id f d IH|id p d IH|id n d IH|id d IH|id a IHa b IHb|id a IHa b IHb|id idx d IH];
    simpl; intros W.
  - rewrite map_map. simpl. apply map_id.
  - specialize (IH W). destruct (iter_s d) as [l fin]. simpl in *. rewrite map_map. simpl.
    rewrite <- IH, map_map. reflexivity.
  - specialize (IH W). destruct (iter_s d) as [l fin]. simpl in *.
    pose proof (filter_segs_values id p [] l) as F. destruct (filter_segs id p [] l) as [o pend]. simpl in *.
    now rewrite F, IH.
  - destruct W as [Hn W]. specialize (IH W). destruct (iter_s d) as [l fin]. simpl in *.
    rewrite (batch_segs_values id (Nat.max n 1) [] [] l fin (length (lref d))); simpl; try lia.
    + now rewrite IH.
    + rewrite <- IH, map_length. apply le_n.
  - destruct W as [W _]. specialize (IH W). destruct (iter_s d) as [l fin]. simpl in *.
    pose proof (unbatch_segs_values id [] l) as F. destruct (unbatch_segs id [] l) as [o pend]. simpl in *.
    now rewrite F, IH.
  - destruct W as [Wa Wb]. specialize (IHa Wa). specialize (IHb Wb).
    destruct (iter_s a) as [la fa], (iter_s b) as [lb fb]. simpl in *. rewrite <- IHa, <- IHb.
    destruct lb as [|[e v] r]; simpl.
    + rewrite map_map, app_nil_r. reflexivity.
    + rewrite map_app. simpl. rewrite !map_map. reflexivity.
  - destruct W as (Wa & Wb & _). specialize (IHa Wa). specialize (IHb Wb).
    destruct (iter_s a) as [la fa], (iter_s b) as [lb fb]. simpl in *.
    now rewrite zip_segs_values, IHa, IHb.
  - destruct W as (W & X & R). now apply slice_segs_values.
Qed.

Lemma length_iter d : lwf d -> length (fst (iter_s d)) = length (lref d).
Proof. intros W. rewrite <- (values_ref d W). unfold values. now rewrite map_length. Qed.

(* ------------------------------------------------------------------------------------------------ *)
(* which events can occur: a property P of events that holds for the events a stage generates itself is preserved
   by that stage *)

Definition segP (P : ev -> Prop) (s : seg) : Prop := Forall P (fst s).
Definition stream_all (P : ev -> Prop) (s : stream) : Prop := Forall (segP P) (fst s) /\ Forall P (snd s).

Ltac fa := repeat (apply Forall_app; split); repeat (apply Forall_cons); try apply Forall_nil; auto.

Lemma stream_all_upto P s k : stream_all P s -> Forall P (events_upto k s).
Proof.
  intros [H _]. unfold events_upto. revert k. induction H as [|[e v] l He Hl IH]; intros k.
  - rewrite firstn_nil. constructor.
  - destruct k; simpl; [constructor|]. apply Forall_app; split; [exact He|apply IH].
Qed.
Lemma stream_all_all P s : stream_all P s -> Forall P (all_events s).
Proof.
  intros [H F]. unfold all_events. apply Forall_app; split; auto.
  clear F. induction H as [|[e v] l He Hl IH]; simpl; [constructor|]. apply Forall_app; split; auto.
Qed.

Section Preserve.
  Variable P : ev -> Prop.
  Variable id : nat.
  Hypothesis Pf : P (Fetch id).

  Lemma filter_segs_P p pend l : (forall v, P (App id v)) -> Forall P pend -> Forall (segP P) l ->
    stream_all P (filter_segs id p pend l).
  Proof.
    intros Pa Hp Hl. revert pend Hp. induction Hl as [|[e v] r He Hr IH]; intros pend Hp; simpl.
    - split; simpl; auto.
    - unfold segP in He; simpl in He. destruct (p v).
      + specialize (IH [] (Forall_nil _)). destruct (filter_segs id p [] r) as [o f].
        destruct IH as [IH1 IH2]. split; simpl in *; auto. constructor; auto. unfold segP; simpl. fa.
      + apply IH. fa.
  Qed.

  Lemma batch_segs_P n ce cv l fin : Forall P ce -> Forall (segP P) l -> Forall P fin ->
    stream_all P (batch_segs id n ce cv l fin).
  Proof.
    intros Hc Hl Hfin. revert ce cv Hc. induction Hl as [|[e v] r He Hr IH]; intros ce cv Hc; simpl.
    - destruct cv; split; simpl; auto.
      + fa.
      + constructor; auto. unfold segP; simpl. fa.
    - unfold segP in He; simpl in He. destruct (n <=? S (length cv)).
      + specialize (IH [] [] (Forall_nil _)). destruct (batch_segs id n [] [] r fin) as [o f].
        destruct IH as [IH1 IH2]. split; simpl in *; auto. constructor; auto. unfold segP; simpl. fa.
      + apply IH. fa.
  Qed.

  Lemma spread_P e b : Forall P e -> Forall (segP P) (spread id e b).
  Proof.
    revert e. induction b as [|x b IH]; intros e He; simpl; constructor.
    - unfold segP; simpl. fa.
    - apply IH. constructor.
  Qed.

  Lemma unbatch_segs_P pend l : Forall P pend -> Forall (segP P) l -> stream_all P (unbatch_segs id pend l).
  Proof.
    intros Hp Hl. revert pend Hp. induction Hl as [|[e v] r He Hr IH]; intros pend Hp; simpl.
    - split; simpl; auto.
    - unfold segP in He; simpl in He. destruct (elems v) as [|x b].
      + apply IH. fa.
      + specialize (IH [] (Forall_nil _)). destruct (unbatch_segs id [] r) as [o f].
        destruct IH as [IH1 IH2]. split; simpl in *; auto. constructor.
        * unfold segP; simpl. fa.
        * apply Forall_app; split; auto. apply spread_P. constructor.
  Qed.

  Lemma zip_segs_P la lb fa' fb : Forall (segP P) la -> Forall (segP P) lb -> Forall P fa' -> Forall P fb ->
    stream_all P (zip_segs id la lb fa' fb).
  Proof.
    intros Ha Hb Hfa Hfb. revert lb Hb. induction Ha as [|[ea va] ra Hea Hra IH]; intros lb Hb; simpl.
    - split; simpl; auto.
    - unfold segP in Hea; simpl in Hea. destruct Hb as [|[eb vb] rb Heb Hrb].
      + split; simpl; auto. fa.
      + unfold segP in Heb; simpl in Heb. specialize (IH rb Hrb). destruct (zip_segs id ra rb fa' fb) as [o f].
        destruct IH as [IH1 IH2]. split; simpl in *; auto. constructor; auto. unfold segP; simpl. fa.
  Qed.

  Lemma slice_segs_P get idx : (forall i e v, get i = Some (e, v) -> Forall P e) ->
    Forall (segP P) (slice_segs id get idx).
  Proof.
    intros G. induction idx as [|i r IH]; simpl; [constructor|].
    destruct (get i) as [[e v]|] eqn:E; constructor; auto. unfold segP; simpl. fa. eauto.
  Qed.

  Lemma tag_fetch_P l : Forall (segP P) l -> Forall (segP P) (map (tag_fetch id) l).
  Proof.
    induction 1 as [|[e v] r He Hr IH]; simpl; constructor; auto. unfold segP in *; simpl in *. fa.
  Qed.

  Lemma batch_get_P get fails start k first es vs :
    (forall i e v, get i = Some (e, v) -> Forall P e) -> Forall P fails ->
    batch_get get fails start k first = Some (es, vs) -> Forall P es.
  Proof.
    intros G F. revert start first es vs. induction k as [|k IH]; intros start first es vs; simpl.
    - intros H; inversion H. constructor.
    - destruct (get start) as [[e v]|] eqn:E.
      + destruct (batch_get get fails (S start) k false) as [[es' vs']|] eqn:E'; [|discriminate].
        intros H; inversion H; subst. fa; eauto.
      + destruct first; [discriminate|].
        destruct (batch_get get fails (S start) k false) as [[es' vs']|] eqn:E'; [|discriminate].
        intros H; inversion H; subst. fa; eauto.
  Qed.
End Preserve.

(* P holds for the Fetch and App events of every stage of d *)
Definition Pok (P : ev -> Prop) (d : lds) : Prop :=
  forall i, In i (ids_of d) -> P (Fetch i) /\ forall v, P (App i v).
Definition Pfail (P : ev -> Prop) (d : lds) : Prop := forall i, In i (ids_of d) -> P (Fail i).

Lemma Pok_sub P (d d' : lds) : incl (ids_of d') (ids_of d) -> Pok P d -> Pok P d'.
Proof. intros I H i Hi. apply H, I, Hi. Qed.
Lemma Pfail_sub P (d d' : lds) : incl (ids_of d') (ids_of d) -> Pfail P d -> Pfail P d'.
Proof. intros I H i Hi. apply H, I, Hi. Qed.

Lemma fail_path_P P d : Pfail P d -> Forall P (fail_path d).
Proof.
  induction d as [id vs|id f d IH|id p d IH|id n d IH|id d IH|id a IHa b IHb|id a IHa b IHb|id idx d IH];
    simpl; intros H; fa; try (apply H; simpl; auto).
  - apply IH. eapply Pfail_sub; [|exact H]. simpl. apply incl_tl, incl_refl.
  - apply IH. eapply Pfail_sub; [|exact H]. simpl. apply incl_tl, incl_refl.
  - apply IHa. eapply Pfail_sub; [|exact H]. simpl. apply incl_tl, incl_appl, incl_refl.
Qed.

Lemma get_s_P P d : Pok P d -> Pfail P d -> forall i e v, get_s d i = Some (e, v) -> Forall P e.
Proof.
  induction d as [id vs|id f d IH|id p d IH|id n d IH|id d IH|id a IHa b IHb|id a IHa b IHb|id idx d IH];
    simpl; intros H F i e v E; try discriminate;
    assert (Hid : P (Fetch id) /\ forall v, P (App id v)) by (apply H; simpl; auto); destruct Hid as [Hf Ha].
  - destruct (nth_error vs i); inversion E. fa.
  - destruct (get_s d i) as [[e' v']|] eqn:E'; inversion E; subst. fa.
    eapply IH; [| |exact E']; [eapply Pok_sub; [|exact H]|eapply Pfail_sub; [|exact F]]; simpl; apply incl_tl, incl_refl.
  - destruct (batch_get _ _ _ _ _) as [[es vs]|] eqn:E'; inversion E; subst. fa.
    assert (Hd : Pok P d) by (eapply Pok_sub; [|exact H]; simpl; apply incl_tl, incl_refl).
    assert (Fd : Pfail P d) by (eapply Pfail_sub; [|exact F]; simpl; apply incl_tl, incl_refl).
    eapply batch_get_P; [| |exact E']; [apply IH; auto|apply fail_path_P; auto].
  - assert (Hd : Pok P a) by (eapply Pok_sub; [|exact H]; simpl; apply incl_tl, incl_appl, incl_refl).
    assert (Fd : Pfail P a) by (eapply Pfail_sub; [|exact F]; simpl; apply incl_tl, incl_appl, incl_refl).
    assert (Hb : Pok P b) by (eapply Pok_sub; [|exact H]; simpl; apply incl_tl, incl_appr, incl_refl).
    assert (Fb : Pfail P b) by (eapply Pfail_sub; [|exact F]; simpl; apply incl_tl, incl_appr, incl_refl).
    destruct (i <? length (lref a)).
    + destruct (get_s a i) as [[e' v']|] eqn:E'; inversion E; subst. fa. eapply IHa; eauto.
    + destruct (get_s b _) as [[e' v']|] eqn:E'; inversion E; subst. fa. eapply IHb; eauto.
  - assert (Hd : Pok P a) by (eapply Pok_sub; [|exact H]; simpl; apply incl_tl, incl_appl, incl_refl).
    assert (Fd : Pfail P a) by (eapply Pfail_sub; [|exact F]; simpl; apply incl_tl, incl_appl, incl_refl).
    assert (Hb : Pok P b) by (eapply Pok_sub; [|exact H]; simpl; apply incl_tl, incl_appr, incl_refl).
    assert (Fb : Pfail P b) by (eapply Pfail_sub; [|exact F]; simpl; apply incl_tl, incl_appr, incl_refl).
    destruct (get_s a i) as [[ea va]|] eqn:Ea; [|discriminate].
    destruct (get_s b i) as [[eb vb]|] eqn:Eb; inversion E; subst. fa; [eapply IHa|eapply IHb]; eauto.
  - destruct (nth_error idx i) as [j|]; [|discriminate].
    destruct (get_s d j) as [[e' v']|] eqn:E'; inversion E; subst. fa.
    eapply IH; [| |exact E']; [eapply Pok_sub; [|exact H]|eapply Pfail_sub; [|exact F]]; simpl; apply incl_tl, incl_refl.
Qed.

Lemma iter_s_P P d : Pok P d -> (iter_only d = true \/ Pfail P d) -> stream_all P (iter_s d).
Proof.
  induction d as [id vs|id f d IH|id p d IH|id n d IH|id d IH|id a IHa b IHb|id a IHa b IHb|id idx d IH];
    simpl; intros H F;
    assert (Hid : P (Fetch id) /\ forall v, P (App id v)) by (apply H; simpl; auto); destruct Hid as [Hf Ha].
  - split; simpl; [|constructor]. induction vs; simpl; constructor; auto. unfold segP; simpl. fa.
  - assert (Hd : Pok P d) by (eapply Pok_sub; [|exact H]; simpl; apply incl_tl, incl_refl).
    assert (Fd : iter_only d = true \/ Pfail P d)
      by (destruct F as [F|F]; auto; right; eapply Pfail_sub; [|exact F]; simpl; apply incl_tl, incl_refl).
    specialize (IH Hd Fd). destruct (iter_s d) as [l fin]. destruct IH as [I1 I2]. split; simpl in *; auto.
    clear - I1 Hf Ha. induction I1 as [|[e v] r He Hr IH]; simpl; constructor; auto.
    unfold segP in *; simpl in *. fa.
  - assert (Hd : Pok P d) by (eapply Pok_sub; [|exact H]; simpl; apply incl_tl, incl_refl).
    assert (Fd : iter_only d = true \/ Pfail P d)
      by (destruct F as [F|F]; auto; right; eapply Pfail_sub; [|exact F]; simpl; apply incl_tl, incl_refl).
    specialize (IH Hd Fd). destruct (iter_s d) as [l fin]. destruct IH as [I1 I2]. simpl in *.
    pose proof (filter_segs_P P id Hf p [] l Ha (Forall_nil _) I1) as Q.
    destruct (filter_segs id p [] l) as [o pend]. destruct Q as [Q1 Q2]. split; simpl in *; auto. fa.
  - assert (Hd : Pok P d) by (eapply Pok_sub; [|exact H]; simpl; apply incl_tl, incl_refl).
    assert (Fd : iter_only d = true \/ Pfail P d)
      by (destruct F as [F|F]; auto; right; eapply Pfail_sub; [|exact F]; simpl; apply incl_tl, incl_refl).
    specialize (IH Hd Fd). destruct (iter_s d) as [l fin]. destruct IH as [I1 I2]. simpl in *.
    apply batch_segs_P; auto.
  - assert (Hd : Pok P d) by (eapply Pok_sub; [|exact H]; simpl; apply incl_tl, incl_refl).
    assert (Fd : iter_only d = true \/ Pfail P d)
      by (destruct F as [F|F]; auto; right; eapply Pfail_sub; [|exact F]; simpl; apply incl_tl, incl_refl).
    specialize (IH Hd Fd). destruct (iter_s d) as [l fin]. destruct IH as [I1 I2]. simpl in *.
    pose proof (unbatch_segs_P P id Hf [] l (Forall_nil _) I1) as Q.
    destruct (unbatch_segs id [] l) as [o pend]. destruct Q as [Q1 Q2]. split; simpl in *; auto. fa.
  - assert (Hda : Pok P a) by (eapply Pok_sub; [|exact H]; simpl; apply incl_tl, incl_appl, incl_refl).
    assert (Hdb : Pok P b) by (eapply Pok_sub; [|exact H]; simpl; apply incl_tl, incl_appr, incl_refl).
    assert (Fa : iter_only a = true \/ Pfail P a).
    { destruct F as [F|F]; [apply andb_true_iff in F; tauto|].
      right; eapply Pfail_sub; [|exact F]; simpl; apply incl_tl, incl_appl, incl_refl. }
    assert (Fb : iter_only b = true \/ Pfail P b).
    { destruct F as [F|F]; [apply andb_true_iff in F; tauto|].
      right; eapply Pfail_sub; [|exact F]; simpl; apply incl_tl, incl_appr, incl_refl. }
    specialize (IHa Hda Fa). specialize (IHb Hdb Fb).
    destruct (iter_s a) as [la fa'], (iter_s b) as [lb fb]. destruct IHa as [A1 A2], IHb as [B1 B2]. simpl in *.
    destruct lb as [|[e v] r]; split; simpl; auto.
    + apply tag_fetch_P; auto.
    + fa.
    + inversion B1; subst. unfold segP in H2; simpl in H2. apply Forall_app; split.
      * apply tag_fetch_P; auto.
      * constructor; [unfold segP; simpl; fa|apply tag_fetch_P; auto].
  - assert (Hda : Pok P a) by (eapply Pok_sub; [|exact H]; simpl; apply incl_tl, incl_appl, incl_refl).
    assert (Hdb : Pok P b) by (eapply Pok_sub; [|exact H]; simpl; apply incl_tl, incl_appr, incl_refl).
    assert (Fa : iter_only a = true \/ Pfail P a).
    { destruct F as [F|F]; [apply andb_true_iff in F; tauto|].
      right; eapply Pfail_sub; [|exact F]; simpl; apply incl_tl, incl_appl, incl_refl. }
    assert (Fb : iter_only b = true \/ Pfail P b).
    { destruct F as [F|F]; [apply andb_true_iff in F; tauto|].
      right; eapply Pfail_sub; [|exact F]; simpl; apply incl_tl, incl_appr, incl_refl. }
    specialize (IHa Hda Fa). specialize (IHb Hdb Fb).
    destruct (iter_s a) as [la fa'], (iter_s b) as [lb fb]. destruct IHa as [A1 A2], IHb as [B1 B2]. simpl in *.
    apply zip_segs_P; auto.
  - destruct F as [F|F]; [discriminate|]. split; simpl; [|constructor].
    apply slice_segs_P; auto. apply get_s_P.
    + eapply Pok_sub; [|exact H]; simpl; apply incl_tl, incl_refl.
    + eapply Pfail_sub; [|exact F]; simpl; apply incl_tl, incl_refl.
Qed.

(* no event of the stream carries an id that is not in the pipeline *)
Definition no_id (id : nat) (e : ev) : Prop := ev_id e <> id.

Lemma iter_s_no_id id d : ~ In id (ids_of d) -> stream_all (no_id id) (iter_s d).
Proof.
  intros H. apply iter_s_P.
  - intros i Hi. unfold no_id; simpl. split; [|intros _]; intros ->; auto.
  - right. intros i Hi. unfold no_id; simpl. intros ->; auto.
Qed.
Lemma get_s_no_id id d i e v : ~ In id (ids_of d) -> get_s d i = Some (e, v) -> Forall (no_id id) e.
Proof.
  intros H. apply get_s_P.
  - intros j Hj. unfold no_id; simpl. split; [|intros _]; intros ->; auto.
  - intros j Hj. unfold no_id; simpl. intros ->; auto.
Qed.

Lemma no_id_apps id l : Forall (no_id id) l -> apps_of id l = [].
Proof.
  induction 1 as [|e l He Hl IH]; simpl; auto. rewrite IH, app_nil_r.
  destruct e as [i|i a|i]; auto. unfold no_id in He; simpl in He. destruct (Nat.eqb_spec i id); auto; congruence.
Qed.
Lemma no_id_fetches id l : Forall (no_id id) l -> fetches_of id l = 0.
Proof.
  unfold fetches_of. induction 1 as [|e l He Hl IH]; simpl; auto.
  destruct e as [i|i a|i]; auto. unfold no_id in He; simpl in He. destruct (Nat.eqb_spec i id); auto; congruence.
Qed.
Lemma no_id_drop id l : Forall (no_id id) l -> drop id l = l.
Proof.
  unfold drop. induction 1 as [|e l He Hl IH]; simpl; auto. unfold no_id in He.
  destruct (Nat.eqb_spec (ev_id e) id); [congruence|]. simpl. now rewrite IH.
Qed.

(* ------------------------------------------------------------------------------------------------ *)
(* B1/B2: map *)

Definition map_seg (id : nat) (f : val -> val) (s : seg) : seg := (fst s ++ [App id (snd s); Fetch id], f (snd s)).

Lemma iter_s_map id f d : iter_s (LMap id f d) = (map (map_seg id f) (fst (iter_s d)), snd (iter_s d)).
Proof. simpl. destruct (iter_s d). reflexivity. Qed.

Lemma apps_of_own id v : apps_of id [App id v; Fetch id] = [v].
Proof. simpl. now rewrite Nat.eqb_refl. Qed.
Lemma apps_of_own1 id v : apps_of id [App id v] = [v].
Proof. simpl. now rewrite Nat.eqb_refl. Qed.

Lemma map_upto_apps id f l k fin : Forall (segP (no_id id)) l ->
  apps_of id (events_upto k (map (map_seg id f) l, fin)) = firstn k (map snd l).
Proof.
  intros H. revert k. induction H as [|[e v] r He Hr IH]; intros k.
  - simpl. now rewrite events_upto_nil, firstn_nil.
  - destruct k; auto. cbn [map map_seg fst snd]. rewrite events_upto_cons, !apps_of_app, apps_of_own, IH.
    rewrite (no_id_apps id e He). reflexivity.
Qed.

Lemma map_all_apps id f l fin : Forall (segP (no_id id)) l -> Forall (no_id id) fin ->
  apps_of id (all_events (map (map_seg id f) l, fin)) = map snd l.
Proof.
  intros H Hf. induction H as [|[e v] r He Hr IH].
  - simpl. rewrite all_events_nil. now apply no_id_apps.
  - cbn [map map_seg fst snd]. rewrite all_events_cons, !apps_of_app, apps_of_own, IH.
    rewrite (no_id_apps id e He). reflexivity.
Qed.

(* consuming k results applies the mapped function to exactly the first k input examples, in order, once each *)
Theorem map_demand_values id f d k : ~ In id (ids_of d) ->
  apps_of id (events_upto k (iter_s (LMap id f d))) = firstn k (values (iter_s d)).
Proof.
  intros H. rewrite iter_s_map. apply map_upto_apps. apply (iter_s_no_id id d H).
Qed.
Theorem map_demand id f d k : ~ In id (ids_of d) -> lwf d ->
  apps_of id (events_upto k (iter_s (LMap id f d))) = firstn k (lref d).
Proof. intros H W. rewrite map_demand_values by assumption. now rewrite values_ref. Qed.
Theorem map_all id f d : ~ In id (ids_of d) -> lwf d ->
  apps_of id (all_events (iter_s (LMap id f d))) = lref d.
Proof.
  intros H W. rewrite iter_s_map, <- (values_ref d W).
  destruct (iter_s_no_id id d H) as [H1 H2]. now apply map_all_apps.
Qed.

Lemma map_upto_drop id f l k fin :
  drop id (events_upto k (map (map_seg id f) l, fin)) = drop id (events_upto k (l, fin)).
Proof.
  revert k. induction l as [|[e v] r IH]; intros k; auto.
  destruct k; auto. cbn [map map_seg fst snd]. rewrite !events_upto_cons, !drop_app, drop_app_fetch, IH.
  now rewrite app_nil_r.
Qed.
Lemma map_all_drop id f l fin :
  drop id (all_events (map (map_seg id f) l, fin)) = drop id (all_events (l, fin)).
Proof.
  induction l as [|[e v] r IH]; auto.
  cbn [map map_seg fst snd]. rewrite !all_events_cons, !drop_app, drop_app_fetch, IH.
  now rewrite app_nil_r.
Qed.

(* a map pulls exactly k elements from its input to deliver k results; what happens below is unchanged, event by event *)
Theorem map_upstream_events id f d k :
  drop id (events_upto k (iter_s (LMap id f d))) = drop id (events_upto k (iter_s d)).
Proof. rewrite iter_s_map, map_upto_drop. now destruct (iter_s d). Qed.
Theorem map_upstream_events_all id f d :
  drop id (all_events (iter_s (LMap id f d))) = drop id (all_events (iter_s d)).
Proof. rewrite iter_s_map, map_all_drop. now destruct (iter_s d). Qed.

Theorem map_upstream_transparent id f d k id' : id' <> id ->
  apps_of id' (events_upto k (iter_s (LMap id f d))) = apps_of id' (events_upto k (iter_s d)).
Proof.
  intros H. rewrite <- (apps_of_drop id' id _ H), map_upstream_events. now apply apps_of_drop.
Qed.
Theorem map_upstream_transparent_all id f d id' : id' <> id ->
  apps_of id' (all_events (iter_s (LMap id f d))) = apps_of id' (all_events (iter_s d)).
Proof.
  intros H. rewrite <- (apps_of_drop id' id _ H), map_upstream_events_all. now apply apps_of_drop.
Qed.

(* ------------------------------------------------------------------------------------------------ *)
(* C1: iteration never records a failed fetch *)

Definition nofail (e : ev) : Prop := match e with Fail _ => False | _ => True end.

Lemma nofail_fails id l : Forall nofail l -> fails_of id l = 0.
Proof.
  unfold fails_of. induction 1 as [|e l He Hl IH]; simpl; auto. destruct e; simpl in *; auto. contradiction.
Qed.

Theorem no_fail_in_iteration d : iter_only d = true -> forall id, fails_of id (all_events (iter_s d)) = 0.
Proof.
  intros H id. apply nofail_fails, stream_all_all, iter_s_P; auto.
  intros i _. simpl. auto.
Qed.
(* ... nor does any prefix of it *)
Theorem no_fail_in_iteration_upto d k : iter_only d = true -> forall id, fails_of id (events_upto k (iter_s d)) = 0.
Proof.
  intros H id. apply nofail_fails, stream_all_upto, iter_s_P; auto.
  intros i _. simpl. auto.
Qed.
